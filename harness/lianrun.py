"""Run lian in-process on one project and export its artefacts as JSON (child process; /venv/bin/python).

usage: lianrun.py <job.json>
job = {
  "cmd": "lang" | "semantic" | "run",
  "lang": "python,javascript",
  "files": {"rel/path.py": "source text", ...}      (optional: written under <dir>/in)
  "in_paths": [...]                                  (optional: explicit inputs instead of <dir>/in)
  "dir": scratch directory of this job (workspace = <dir>/ws unless "workspace" is given)
  "workspace": explicit -w value (optional), "force": true, "flags": ["--enable-p2", ...]
  "settings": {"entry.yaml": "text", ...}            (optional: private default-settings directory)
  "export": ["gir", "cfg", ...]                      (see EXPORTERS)
  "trace": true                                      (enable LIAN_VERIF_TRACE into <dir>/trace.ndjson)
  "out": result file
}
The result holds: exit (ok | exception type | "SystemExit:<code>"), traceback, console text, wall time, exports.
Speed shim: yaml.safe_load is served by libyaml's CSafeLoader (same result, 40x faster on the big settings files).
"""
import builtins
import contextlib
import io
import json
import math
import os
import shutil
import sys
import time
import traceback

if not hasattr(builtins, "profile"):
    builtins.profile = lambda f: f


def _fast_yaml():
    import yaml
    if hasattr(yaml, "CSafeLoader"):
        def fast_safe_load(stream):
            return yaml.load(stream, Loader=yaml.CSafeLoader)
        yaml.safe_load = fast_safe_load


def clean(v):
    """JSON-able, NaN-free value."""
    if v is None:
        return None
    if isinstance(v, float):
        if math.isnan(v):
            return None
        if v == int(v) and abs(v) < 2 ** 53:
            return int(v)
        return v
    if isinstance(v, (int, str, bool)):
        return v
    try:
        import numpy as np
        if isinstance(v, np.integer):
            return int(v)
        if isinstance(v, np.floating):
            return clean(float(v))
        if isinstance(v, np.ndarray):
            return [clean(x) for x in v.tolist()]
        if isinstance(v, np.bool_):
            return bool(v)
    except ImportError:
        pass
    if isinstance(v, (list, tuple, set)):
        return [clean(x) for x in v]
    if isinstance(v, dict):
        return {str(k): clean(x) for k, x in v.items()}
    return str(v)


def read_table(path):
    import pandas as pd
    df = pd.read_feather(path)
    rows = []
    cols = list(df.columns)
    for rec in df.itertuples(index=False, name=None):
        d = {}
        for c, v in zip(cols, rec):
            v = clean(v)
            if v is not None:
                d[c] = v
        rows.append(d)
    return rows


def read_bundles(ws, rel_stem):
    """All rows of <stem>.bundle0..N in bundle order."""
    d = os.path.join(ws, os.path.dirname(rel_stem))
    stem = os.path.basename(rel_stem)
    out = []
    if not os.path.isdir(d):
        return out
    names = [n for n in os.listdir(d) if n.startswith(stem + ".bundle")]
    names.sort(key=lambda n: int(n[len(stem) + 7:]))
    for n in names:
        out.extend(read_table(os.path.join(d, n)))
    return out


def exp_gir(ws, lian):
    return read_bundles(ws, "frontend/gir")


def exp_modules(ws, lian):
    p = os.path.join(ws, "frontend/module_symbols")
    return read_table(p) if os.path.exists(p) else []


def exp_cfg(ws, lian):
    return read_bundles(ws, "semantic_p1/cfg")


def exp_table(rel):
    def f(ws, lian):
        p = os.path.join(ws, rel)
        if os.path.exists(p):
            return read_table(p)
        return read_bundles(ws, rel)
    return f


def exp_files(ws, lian):
    out = []
    for root, dirs, files in os.walk(ws):
        dirs.sort()
        for n in sorted(files):
            p = os.path.join(root, n)
            out.append([os.path.relpath(p, ws), os.path.getsize(p)])
    return out


def exp_taint(ws, lian):
    p = os.path.join(ws, "taint/taint_data_flow.json")
    if not os.path.exists(p):
        return None
    with open(p) as f:
        return json.load(f)


EXPORTERS = {
    "gir": exp_gir,
    "modules": exp_modules,
    "cfg": exp_cfg,
    "files": exp_files,
    "taint": exp_taint,
    "scope_hierarchy": exp_table("semantic_p1/scope_hierarchy"),
    "s2space_p1": exp_table("semantic_p1/s2space_p1"),
    "stmt_status_p1": exp_table("semantic_p1/stmt_status_p1"),
    "entry_points": exp_table("semantic_p1/entry_points"),
    "call_paths_p3": exp_table("semantic_p3/call_paths_p3"),
    "s2space_p3": exp_table("semantic_p3/s2space_p3"),
    "stmt_status_p3": exp_table("semantic_p3/stmt_status_p3"),
    "method_id_to_name": exp_table("semantic_p1/method_id_to_name"),
    "unit_to_method_id": exp_table("semantic_p1/unit_to_method_id"),
    "import_graph": exp_table("semantic_p1/import_graph"),
    "symbol_bit_vector_p3": exp_table("semantic_p3/symbol_bit_vector_p3"),
    "defined_symbols_p3": exp_table("semantic_p3/defined_symbols_p3"),
}


def run_job(job):
    d = job["dir"]
    os.makedirs(d, exist_ok=True)
    in_dir = os.path.join(d, "in")
    if job.get("files") is not None:
        if os.path.isdir(in_dir):
            shutil.rmtree(in_dir)
        for rel, text in job["files"].items():
            p = os.path.join(in_dir, rel)
            os.makedirs(os.path.dirname(p), exist_ok=True)
            mode = "wb" if isinstance(text, dict) else "w"
            with open(p, mode) as f:
                if isinstance(text, dict):      # {"b64": ...} raw bytes
                    import base64
                    f.write(base64.b64decode(text["b64"]))
                else:
                    f.write(text)
    in_paths = job.get("in_paths") or [in_dir]
    wsarg = job.get("workspace") or os.path.join(d, "ws")
    argv = ["lian", job.get("cmd", "lang")]
    if job.get("force", True):
        argv.append("-f")
    argv += ["-l", job["lang"]]
    if not job.get("no_w"):
        argv += ["-w", wsarg]
    if job.get("settings") is not None:
        sdir = os.path.join(d, "settings")
        if os.path.isdir(sdir):
            shutil.rmtree(sdir)
        os.makedirs(sdir)
        for rel, text in job["settings"].items():
            os.makedirs(os.path.dirname(os.path.join(sdir, rel)), exist_ok=True)
            with open(os.path.join(sdir, rel), "w") as f:
                f.write(text)
        argv += ["--default-settings", sdir]
    argv += job.get("flags", [])
    argv += in_paths
    if job.get("trace"):
        os.environ["LIAN_VERIF_TRACE"] = "1"
        os.environ["LIAN_VERIF_TRACE_FILE"] = os.path.join(d, "trace.ndjson")
    _fast_yaml()
    res = {"argv": argv, "exit": "ok", "traceback": "", "exports": {}}
    console = io.StringIO()
    errs = io.StringIO()
    t0 = time.time()
    lian = None
    old_argv = sys.argv
    sys.argv = argv
    try:
        with contextlib.redirect_stdout(console), contextlib.redirect_stderr(errs):
            import warnings
            warnings.filterwarnings("ignore")
            import lian.main as M
            hook = job.get("pre_hook")
            if hook:
                import importlib
                importlib.import_module(hook).install(M, job)
            if job.get("markers"):
                try:
                    os.stat("/__LIAN_VERIF_BEGIN__")
                except OSError:
                    pass
            try:
                lian = M.Lian().run()
            finally:
                if job.get("markers"):
                    try:
                        os.stat("/__LIAN_VERIF_END__")
                    except OSError:
                        pass
    except SystemExit as e:
        res["exit"] = "SystemExit:%s" % (e.code,)
    except BaseException as e:  # noqa
        res["exit"] = type(e).__name__
        res["traceback"] = traceback.format_exc()[-4000:]
    finally:
        sys.argv = old_argv
    res["wall_s"] = round(time.time() - t0, 3)
    try:
        import resource
        res["maxrss_kb"] = int(resource.getrusage(resource.RUSAGE_SELF).ru_maxrss)      # peak resident set of this (forked, per-job) process
    except Exception:  # noqa
        res["maxrss_kb"] = -1
    res["console"] = console.getvalue()[-20000:]
    res["stderr"] = errs.getvalue()[-8000:]
    ws = wsarg
    if os.path.basename(os.path.normpath(ws)) != "lian_workspace" and "lian_workspace" not in ws:
        ws = os.path.join(ws, "lian_workspace")
    res["ws"] = ws
    for name in job.get("export", []):
        try:
            res["exports"][name] = EXPORTERS[name](ws, lian)
        except Exception as e:  # noqa
            res["exports"][name] = None
            res.setdefault("export_errors", {})[name] = "%s: %s" % (type(e).__name__, e)
    post = job.get("post_hook")
    if post and (lian is not None or job.get("post_always")):
        import importlib
        try:
            job["console_text"] = console.getvalue()
            res["post"] = importlib.import_module(post).collect(lian, job)
        except Exception as e:  # noqa
            res["post_error"] = traceback.format_exc()[-3000:]
    if not job.get("keep_ws"):
        shutil.rmtree(os.path.join(d, "ws"), ignore_errors=True)
    return res


def serve():
    """Zygote: import lian once, then fork one fresh child per job path read from stdin.
    The zygote itself never runs lian code, so every child starts from the state of a fresh import."""
    import warnings
    warnings.filterwarnings("ignore")
    _fast_yaml()
    with contextlib.redirect_stdout(io.StringIO()), contextlib.redirect_stderr(io.StringIO()):
        import lian.main  # noqa: F401
    sys.stdout.write("ready\n")
    sys.stdout.flush()
    for line in sys.stdin:
        jp = line.strip()
        if not jp:
            continue
        with open(jp) as f:
            job = json.load(f)
        pid = os.fork()
        if pid == 0:
            code = 0
            try:
                os.chdir(job["dir"])
                res = run_job(job)
                with open(job["out"], "w") as f:
                    json.dump(res, f)
            except BaseException:  # noqa
                code = 3
                try:
                    with open(job["out"] + ".err", "w") as f:
                        f.write(traceback.format_exc())
                except Exception:
                    pass
            finally:
                os._exit(code)
        # parent: wait with timeout
        deadline = time.time() + float(job.get("timeout", 300))
        status = None
        while time.time() < deadline:
            r, st = os.waitpid(pid, os.WNOHANG)
            if r != 0:
                status = st
                break
            time.sleep(0.005)
        if status is None:
            try:
                os.kill(pid, 9)
            except OSError:
                pass
            os.waitpid(pid, 0)
            sys.stdout.write("timeout %s\n" % jp)
        else:
            sys.stdout.write("done %s %s\n" % (status, jp))
        sys.stdout.flush()


def main():
    if sys.argv[1] == "--serve":
        return serve()
    with open(sys.argv[1]) as f:
        job = json.load(f)
    res = run_job(job)
    with open(job["out"], "w") as f:
        json.dump(res, f)


if __name__ == "__main__":
    main()
