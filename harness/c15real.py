"""C15 on real analyses: "whatever saves, reads, evictions and exports happened in between" + "a fresh loader restoring from the files".

Fixed small projects are analysed by the real pipeline under several loader configurations (config.MAX_ROWS lowered so that bundles are flushed
in the middle of a phase, cache capacities lowered to 1 so that items and bundles are evicted and re-read from files).  harness/ldtrace.py
records, per loader object, every save (digest of the content as saved, digest of its flattened rows), every in-run read of the families that
give back objects, export / export_indexing, and - after the run - the reads of a FRESH loader restored from the files.

 (T) every loader object's history is a trace  save|get* export* export_indexing restore get*  that LoaderTrace.tla judges with the contract
     (contract-only mode: no projection of the loader's internals is logged): a read returns the latest saved content (lost_item, stale_read,
     foreign_content, crash_get);
 (R) the contents the analysis SAVES must not depend on the loader configuration (they would if some read returned something else than what
     was saved): compared with the default configuration, loader by loader, save by save;
 (X) a run that ends normally under the default configuration ends normally under every other configuration.
"""
import json
import os

import common as C
import schedgen as SG
import taintgen as T
import valgen as VG
from tree import Forest

SMALL = {"LRU_CACHE_CAPACITY": 1, "BUNDLE_CACHE_CAPACITY": 1, "MEDIUM_CACHE_CAPACITY": 1, "GIR_CACHE_CAPACITY": 1, "MAX_STMT_CACHE_CAPACITY": 1}
CONFIGS = {"default": {}, "rows30": {"max_rows": 30}, "rows7": {"max_rows": 7}, "caches1": SMALL, "rows30_caches1": dict(SMALL, max_rows=30)}
# families for which the saved object and the object read back are compared as objects (the loader defines the inverse of its flattening);
# all families are compared at the level of their flattened rows
OBJECT_LEVEL = {"StmtStatusLoader", "SymbolStateSpaceLoader", "MethodSymbolToDefinedLoader", "MethodSymbolToUsedLoader", "MethodStateToDefinedLoader",
                "BitVectorManagerLoader", "SymbolNameToScopeIDsLoader", "ScopeIDToSymbolInfoLoader", "ScopeIDToAvailableScopeIDsLoader",
                "SymbolNameToDeclIDsLoader", "CFGLoader", "SymbolGraphLoader", "StateFlowGraphLoader", "ClassIDToMembersLoader"}

JS = """function Box(v) { this.v = v; this.f = 0; }
function ident(z) { return z; }
function setf(q, w) { q.f = w; return q; }
function handler(p) {
    var a = source();
    var o = new Box(a);
    var r = setf(o, a);
    var k = 0;
    while (k < 2) { k = k + 1; }
    sink(r.f);
    return ident(k);
}
handler(1);
"""
JS_SETTINGS = {k: v.replace("lang: python", 'lang: "%"') for k, v in SG.TAINT_SETTINGS.items()}


def projects(tier):
    py = {}
    py.update(SG.taint_chain(3))
    py["cyc0.py"] = SG.cyclic_imports(2)["m0.py"].replace("m1", "cyc1")
    py["cyc1.py"] = SG.cyclic_imports(2)["m1.py"].replace("m0", "cyc0")
    py["val.py"] = VG.Chain("int", ("branch_field", "param_read")).render()
    out = [("py_mixed", "python", py, SG.TAINT_SETTINGS), ("js_objects", "javascript", {"app.js": JS}, JS_SETTINGS)]
    if tier != "quick":
        more = {}
        more.update({"d_" + k: v for k, v in SG.diamond(3).items()})
        more.update({"r_" + k: v for k, v in SG.recursion(3).items()})
        more.update({"o_" + k: v for k, v in SG.cyclic_objects(3).items()})
        more.update({"h_" + k: v for k, v in SG.higher_order(2).items()})
        out.append(("py_schedules", "python", more, SG.TAINT_SETTINGS))
        out.append(("py_values", "python", {"v%d.py" % i: VG.Chain("int", st).render() for i, st in enumerate(
            [("two_sites_fill",), ("callee_alias_two_exits", "arith_add"), ("returned_object", "alias_write"), ("branch", "field")])}, SG.TAINT_SETTINGS))
    return out


def plan(tier):
    out = []
    for name, lang, files, settings in projects(tier):
        for cmd, confs in (("semantic", list(CONFIGS)), ("run", ["default", "caches1"]), ("semantic+p2", ["default", "rows30_caches1"])):
            if cmd == "semantic+p2" and lang != "python":
                continue
            for cn in confs:
                out.append((name, lang, files, settings, cmd, cn))
    return out


def tokens(ld):
    """-> (events with small-integer ids and contents, n_ids, n_contents).  A content token stands for one (object digest, row digest) pair."""
    cls = ld["cls"]
    obj = cls in OBJECT_LEVEL
    ids, conts = {}, {}
    evs = []

    def tok_id(k):
        return ids.setdefault(k, len(ids) + 1)

    EMPTY = {(None, "0"), ("0", "0")}

    def tok_save(i, d, rd):
        key = (d if obj else None, rd if rd is not None else ("0" if d == "0" else "?"))
        if key in EMPTY:
            return 0
        m = conts.setdefault(i, {})
        return m.setdefault(key, len(m) + 1)

    def tok_get(i, d, rd):
        m = conts.get(i, {})
        if rd is not None:                      # a read of the fresh loader: rows, and the object where the family is judged at that level
            key = (d if obj else None, rd)
            if key in EMPTY:
                return 0
            return m.get(key, 9)
        if d == "0":                            # an in-run read: object digest only
            return 0
        hit = [t for (dd, _), t in m.items() if dd == d]
        return hit[-1] if hit else 9

    restored = False
    for h in ld["hist"]:
        if h["op"] == "save":
            i = tok_id(h["id"])
            evs.append({"op": "save", "id": i, "c": tok_save(i, h["d"], h.get("rd")), "res": 0, "crash": "", "key": h["id"][:80]})
        elif h["op"] == "get":
            if h["id"] not in ids:
                continue                        # a read of an id this loader object never saved says nothing about the contract
            if not obj:
                continue
            i = tok_id(h["id"])
            evs.append({"op": "get", "id": i, "c": 0, "res": tok_get(i, h["d"], None), "crash": "", "key": h["id"][:80]})
        elif h["op"] in ("export", "export_indexing"):
            evs.append({"op": h["op"], "id": 0, "c": 0, "res": 0, "crash": ""})
    # the fresh loader needs the files in sync: the pipeline ends every phase with export + export_indexing; close the history if it did not
    tail = [e["op"] for e in evs if e["op"] != "get"]
    synced = len(tail) >= 2 and tail[-2:] == ["export", "export_indexing"]
    if synced and ld["gets"] and not ld["error"]:
        evs.append({"op": "restore", "id": 0, "c": 0, "res": 0, "crash": ""})
        for g in ld["gets"]:
            i = tok_id(g["id"])
            crash = g["crash"].split(":")[0] if g["crash"] else ""
            evs.append({"op": "get", "id": i, "c": 0, "res": 0 if crash else tok_get(i, g["d"], g.get("rd") or "0"), "crash": crash, "key": g["id"][:80],
                        "after_restore": True})
        restored = True
    return evs, max(len(ids), 1), max([len(m) for m in conts.values()] + [1]), restored


def run_part(out_dir, tier, v):
    """-> (forest files [(path, n)], coverage dict).  Violations of (R) and (X) are reported on v directly."""
    root = os.path.join(out_dir, "real")
    os.makedirs(root, exist_ok=True)
    pl = plan(tier)
    jobs = [dict(cmd=cmd.split("+")[0], lang=lang, files=files, dir=os.path.join(root, "%s_%s_%s" % (name, cmd.replace("+", "_"), cn)), settings=settings,
                 flags=["--nomock"] + (["--enable-p2"] if cmd.endswith("+p2") else []), export=[],
                 pre_hook="ldtrace", post_hook="ldtrace", post_always=True, log_gets=True, timeout=900, **CONFIGS[cn])
            for name, lang, files, settings, cmd, cn in pl]
    res = C.lian_batch(jobs)
    by = {(name, cmd, cn): r for (name, lang, files, settings, cmd, cn), r in zip(pl, res)}
    files_out, cov = [], {"runs": len(pl), "loader_histories": 0, "events": 0, "restored_histories": 0, "families": set(), "configs": sorted(CONFIGS),
                          "projects": sorted({p[0] for p in pl}), "saves_compared_across_configs": 0, "runs_not_ok": {}}
    for (name, cmd, cn), r in by.items():
        base = by[(name, cmd, "default")]
        if base["exit"] != "ok":
            if cn == "default":
                v.machinery_failure("real analysis %s/%s fails under the default configuration: %s %s" % (name, cmd, base["exit"], (base.get("traceback") or "")[-600:]))
            continue
        if r.get("post_error") or "post" not in r:
            v.machinery_failure("loader recorder failed on %s/%s/%s: %s" % (name, cmd, cn, (r.get("post_error") or "no post result")[-800:]))
            continue
        if r["exit"] != "ok":
            cov["runs_not_ok"]["%s/%s/%s" % (name, cmd, cn)] = r["exit"]
            last = (r.get("traceback") or "").strip().splitlines()[-1:] or [""]
            v.violation("real:analysis_fails_under_loader_config:%s:%s:%s" % (cmd, cn, r["exit"]),
                        {"project": name, "command": cmd, "config": dict(CONFIGS[cn]), "exit": r["exit"], "error": last[0][:300], "traceback": (r.get("traceback") or "")[-1500:]})
            continue
        # (R) saved contents against the default configuration
        def saves(rr, key="rd"):
            # what is saved = the flattened rows (the object digest also covers fields that are not stored)
            # the final content per item (the order and number of intermediate saves may vary from run to run)
            out = {}
            for ld in rr["post"]["loaders"]:
                fin = {}
                for h in ld["hist"]:
                    if h["op"] == "save":
                        fin[h["id"]] = h.get(key)
                out[os.path.basename(ld["path"])] = sorted(fin.items())
            return out
        if cn != "default":
            a, b = saves(base), saves(r)
            an, bn = saves(base, "rdn"), saves(r, "rdn")
            for stem in sorted(set(a) | set(b)):
                cov["saves_compared_across_configs"] += len(a.get(stem) or [])
                if a.get(stem) != b.get(stem):
                    la, lb = a.get(stem) or [], b.get(stem) or []
                    k = next((i for i in range(min(len(la), len(lb))) if la[i] != lb[i]), min(len(la), len(lb)))
                    only_text = an.get(stem) == bn.get(stem)       # the saves differ only in '367.0' against '367'
                    v.violation("real:saved_content_depends_on_loader_config:%s:%s:%s%s" % (cmd, cn, stem, ":integer_written_as_float_text" if only_text else ""),
                                {"project": name, "command": cmd, "config": dict(CONFIGS[cn]), "loader": stem, "items_default": len(la), "items_here": len(lb),
                                 "first_differing_item": k, "default": la[k:k + 1], "here": lb[k:k + 1]})
        # (T) one chain per loader object
        forest = Forest(root, "c15real_%s_%s_%s" % (name, cmd.replace("+", "_"), cn), max_nodes=10 ** 9)
        n_ids, n_conts = 1, 1
        for ld in r["post"]["loaders"]:
            evs, ni, nc, restored = tokens(ld)
            if not evs:
                continue
            n_ids, n_conts = max(n_ids, ni), max(n_conts, nc)
            parent = 0
            for d, e in enumerate(evs, 1):
                e = dict(e, loader=ld["cls"], stem=os.path.basename(ld["path"]), proj={})
                parent = forest.add(parent, e, d)
            forest.leaves += 1
            cov["loader_histories"] += 1
            cov["restored_histories"] += 1 if restored else 0
            cov["events"] += len(evs)
            cov["families"].add(ld["cls"])
        forest.meta = {"contract_only": True, "config": {"tag": "real_%s_%s_%s" % (name, cmd, cn), "real": True, "n_ids": n_ids, "n_contents": n_conts,
                                                         "project": name, "command": cmd, "loader_config": dict(CONFIGS[cn]), "item_cap": 1, "bundle_cap": 1,
                                                         "max_rows": 1, "puts_bundle": True}}
        forest.flush()
        files_out += forest.files
    cov["families"] = sorted(cov["families"])
    return files_out, cov
