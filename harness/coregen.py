"""Core-language programs for C02 and their renderings in the seven frontends.

The core language: ints, locals, + - *, comparisons, and/or/not in conditions, if/else, while, counted for, break/continue,
functions, calls, return, int arrays (literal, element read/write).  Output goes through the external function out(e),
an ordinary call in every language.  The reference semantics of a core program is its Python rendering under CPython.
"""
import random


class CoreGen:
    def __init__(self, idx):
        self.r = random.Random(7919 * idx + 3)

    def expr(self, vs, arrs, funcs, d=0):
        r = self.r
        c = r.random()
        if d >= 2 or c < 0.4:
            return ("v", r.choice(vs)) if vs and r.random() < 0.65 else ("n", r.randint(0, 3))
        if c < 0.8:
            return ("bin", r.choice(["+", "-", "*"]), self.expr(vs, arrs, funcs, d + 1), self.expr(vs, arrs, funcs, d + 1))
        if c < 0.86:
            return ("neg", self.expr(vs, arrs, funcs, d + 1))
        if c < 0.93 and arrs:
            a, n = r.choice(arrs)
            return ("idx", a, ("n", r.randint(0, n - 1)))
        if funcs:
            f, k = r.choice(funcs)
            return ("call", f, [self.expr(vs, arrs, [], d + 1) for _ in range(k)])
        return ("n", r.randint(0, 3))

    def cond(self, vs, arrs, d=0):
        r = self.r
        base = ("cmp", r.choice(["<", "<=", "==", "!=", ">", ">="]), self.expr(vs, arrs, [], 1), self.expr(vs, arrs, [], 1))
        c = r.random()
        if d >= 1 or c < 0.65:
            return base
        if c < 0.8:
            return ("and", base, self.cond(vs, arrs, d + 1))
        if c < 0.93:
            return ("or", base, self.cond(vs, arrs, d + 1))
        return ("not", base)

    def block(self, vs, arrs, funcs, depth, in_loop, budget, loopvars):
        r = self.r
        out = []
        for _ in range(r.randint(1, 3)):
            if budget[0] <= 0:
                break
            budget[0] -= 1
            c = r.random()
            targets = [v for v in vs if v not in ("a", "b") and v not in loopvars]
            if c < 0.38 or depth >= 3:
                out.append(("set", r.choice(targets), self.expr(vs, arrs, funcs)))
            elif c < 0.46 and arrs:
                a, n = r.choice(arrs)
                out.append(("setidx", a, ("n", r.randint(0, n - 1)), self.expr(vs, arrs, funcs, 1)))
            elif c < 0.64:
                out.append(("if", self.cond(vs, arrs), self.block(vs, arrs, funcs, depth + 1, in_loop, budget, loopvars),
                            self.block(vs, arrs, funcs, depth + 1, in_loop, budget, loopvars) if r.random() < 0.6 else []))
            elif c < 0.76 and depth <= 2:
                # the loop variable is readable inside the loop only (its value after the loop differs between languages)
                i = "i%d" % depth
                out.append(("for", i, r.randint(1, 3), self.block(vs + [i], arrs, funcs, depth + 1, True, budget, loopvars + [i])))
            elif c < 0.84 and "w%d" % depth in vs:
                w = "w%d" % depth
                body = [("set", w, ("bin", "+", ("v", w), ("n", 1)))] + self.block(vs, arrs, funcs, depth + 1, True, budget, loopvars + [w])
                out.append(("set", w, ("n", 0)))
                out.append(("while", ("cmp", "<", ("v", w), ("n", r.randint(1, 3))), body))
            elif c < 0.9 and in_loop:
                out.append(("if", self.cond(vs, arrs), [(r.choice(["break", "continue"]),)], []))
            else:
                out.append(("out", self.expr(vs, arrs, funcs, 1)))
        return out

    def func(self, name, params, funcs):
        r = self.r
        locals_ = ["t0", "t1", "i1", "i2", "w1", "w2"]
        vs = list(params) + [v for v in locals_ if not v.startswith("i")]
        arrs = [("xs", 3)] if r.random() < 0.5 else []
        body = [("let", v, ("n", 0)) for v in locals_]
        if arrs:
            body.append(("arr", "xs", [("n", r.randint(0, 3)) for _ in range(3)]))
        body.append(("set", "t0", self.expr(list(params), [], funcs)))
        body += self.block(vs, arrs, funcs, 1, False, [10], [])
        body.append(("ret", self.expr(vs, arrs, [], 1)))
        return (name, list(params), body)

    def program(self):
        r = self.r
        funcs, defs = [], []
        for h in range(r.randint(0, 2)):
            name = "h%d" % h
            params = ["p"] if r.random() < 0.5 else ["p", "q"]
            defs.append(self.func(name, params, []))
            funcs.append((name, len(params)))
        defs.append(self.func("entry", ["a", "b"], funcs))
        return defs


VECTORS = [(-1, 0), (0, 1), (1, 1), (2, -1), (1, 2), (2, 2)]


# ------------------------------------------------------------------------------------------ renderers
class R:
    semi = ";"
    name = ""
    natural = False      # render arithmetic with minimal parentheses (precedence left to the language)

    def var(self, v):
        return v

    def e(self, x):
        k = x[0]
        if k == "n":
            return str(x[1])
        if k == "v":
            return self.var(x[1])
        if k == "bin":
            if self.natural:
                # minimal parentheses: * binds tighter than + and -, all left-associative
                def side(y, right):
                    t = self.e(y)
                    if y[0] == "bin":
                        lower = y[1] in "+-" and x[1] == "*"
                        same_right = right and ((x[1] == "-" and y[1] in "+-") or (x[1] == "*" and y[1] == "*" and False))
                        if lower or same_right:
                            return "(%s)" % t
                    return t
                return "%s %s %s" % (side(x[2], False), x[1], side(x[3], True))
            return "(%s %s %s)" % (self.e(x[2]), x[1], self.e(x[3]))
        if k == "neg":
            return "(-%s)" % self.e(x[1])
        if k == "idx":
            return "%s[%s]" % (self.var(x[1]), self.e(x[2]))
        if k == "call":
            return "%s(%s)" % (x[1], ", ".join(self.e(a) for a in x[2]))
        if k == "f":                # ("f", record variable, field): field read
            return self.field(x[1], x[2])
        raise ValueError(k)

    def field(self, v, f):
        return "%s.%s" % (self.var(v), f)

    def rec(self, v, e1, e2):
        """("rec", v, e1, e2): a local record of type Rec {a, b} initialised with two values -> source lines"""
        raise NotImplementedError

    REC_DECL = ""

    def uses_records(self, defs):
        def walk(b):
            for st in b:
                if st[0] in ("rec", "setf"):
                    return True
                for part in st[1:]:
                    if isinstance(part, list) and part and isinstance(part[0], tuple) and walk(part):
                        return True
            return False
        return any(walk(body) for _, _, body in defs)

    def preamble(self, defs):
        return self.REC_DECL if self.uses_records(defs) else ""

    AND, OR, NOT = "&&", "||", "!"

    def c(self, x):
        k = x[0]
        if k == "cmp":
            return "%s %s %s" % (self.e(x[2]), x[1], self.e(x[3]))
        if k == "and":
            return "(%s) %s (%s)" % (self.c(x[1]), self.AND, self.c(x[2]))
        if k == "or":
            return "(%s) %s (%s)" % (self.c(x[1]), self.OR, self.c(x[2]))
        if k == "not":
            return "%s(%s)" % (self.NOT, self.c(x[1]))
        raise ValueError(k)

    def block(self, b, ind):
        pad = "    " * ind
        out = []
        for st in b:
            k = st[0]
            if k == "let":
                out.append(pad + self.let(st[1], self.e(st[2])))
            elif k == "arr":
                out.append(pad + self.arr(st[1], [self.e(x) for x in st[2]]))
            elif k == "set":
                out.append(pad + "%s = %s%s" % (self.var(st[1]), self.e(st[2]), self.semi))
            elif k == "setidx":
                out.append(pad + "%s[%s] = %s%s" % (self.var(st[1]), self.e(st[2]), self.e(st[3]), self.semi))
            elif k == "rec":
                out += [pad + x for x in self.rec(st[1], self.e(st[2]), self.e(st[3]))]
            elif k == "setf":       # ("setf", record variable, field, expression): field write
                out.append(pad + "%s = %s%s" % (self.field(st[1], st[2]), self.e(st[3]), self.semi))
            elif k == "out":
                out.append(pad + "out(%s)%s" % (self.e(st[1]), self.semi))
            elif k == "lets":       # ("lets", name, text): a string variable initialised with a literal
                out.append(pad + self.lets(st[1], self.strlit(st[2])))
            elif k == "sets":       # ("sets", name, text | ("sv", other))
                rhs = self.var(st[2][1]) if isinstance(st[2], tuple) else self.strlit(st[2])
                out.append(pad + "%s = %s%s" % (self.var(st[1]), rhs, self.semi))
            elif k == "outs":       # ("outs", text | ("sv", name)): a string value is output
                arg = self.var(st[1][1]) if isinstance(st[1], tuple) else self.strlit(st[1])
                out.append(pad + "out(%s)%s" % (arg, self.semi))
            elif k == "ret":
                out.append(pad + "return %s%s" % (self.e(st[1]), self.semi))
            elif k in ("break", "continue"):
                out.append(pad + k + self.semi)
            elif k == "if":
                out += self.if_(st, ind)
            elif k == "while":
                out += self.while_(st, ind)
            elif k == "for":
                out += self.for_(st, ind)
            elif k == "for2":
                out += self.for2_(st, ind)
            elif k == "ford":
                out += self.ford_(st, ind)
            else:
                raise ValueError(k)
        return out

    def if_(self, st, ind):
        pad = "    " * ind
        out = [pad + "if (%s) {" % self.c(st[1])] + self.block(st[2], ind + 1)
        if st[3]:
            out += [pad + "} else {"] + self.block(st[3], ind + 1)
        return out + [pad + "}"]

    def while_(self, st, ind):
        pad = "    " * ind
        return [pad + "while (%s) {" % self.c(st[1])] + self.block(st[2], ind + 1) + [pad + "}"]

    def for_(self, st, ind):
        pad = "    " * ind
        i = self.var(st[1])
        return [pad + "for (%s = 0; %s < %d; %s++) {" % (i, i, st[2], i)] + self.block(st[3], ind + 1) + [pad + "}"]

    FORD = "let %s = 0"

    def ford_(self, st, ind):
        """("ford", i, n, body): a counted loop whose counter is declared in the loop header"""
        pad = "    " * ind
        i = self.var(st[1])
        return [pad + "for (%s; %s < %d; %s++) {" % (self.FORD % i, i, st[2], i)] + self.block(st[3], ind + 1) + [pad + "}"]

    def for2_(self, st, ind):
        """("for2", i, j, n, body): i counts up from 0, j down from n, while i < j; two initialisers and two updates in one header."""
        pad = "    " * ind
        i, j = self.var(st[1]), self.var(st[2])
        return [pad + "for (%s = 0, %s = %d; %s < %s; %s++, %s--) {" % (i, j, st[3], i, j, i, j)] + self.block(st[4], ind + 1) + [pad + "}"]

    def strlit(self, text):
        return '"%s"' % text.replace("\\", "\\\\").replace('"', '\\"')

    def lets(self, v, lit):
        return self.let(v, lit)

    def main_calls(self):
        return ["out(entry(%d, %d))%s" % (a, b, self.semi) for a, b in VECTORS]


class RPy(R):
    name, ext, semi, start = "python", ".py", "", ""
    AND, OR, NOT = "and", "or", "not "

    def let(self, v, e):
        return "%s = %s" % (v, e)

    def arr(self, v, es):
        return "%s = [%s]" % (v, ", ".join(es))

    def if_(self, st, ind):
        pad = "    " * ind
        out = [pad + "if %s:" % self.c(st[1])] + (self.block(st[2], ind + 1) or [pad + "    pass"])
        if st[3]:
            out += [pad + "else:"] + self.block(st[3], ind + 1)
        return out

    def while_(self, st, ind):
        pad = "    " * ind
        return [pad + "while %s:" % self.c(st[1])] + self.block(st[2], ind + 1)

    def for_(self, st, ind):
        pad = "    " * ind
        return [pad + "for %s in range(%d):" % (st[1], st[2])] + (self.block(st[3], ind + 1) or [pad + "    pass"])

    def ford_(self, st, ind):
        return self.for_(st, ind)

    def for2_(self, st, ind):
        pad = "    " * ind
        return [pad + "%s = 0" % st[1], pad + "%s = %d" % (st[2], st[3]), pad + "while %s < %s:" % (st[1], st[2])] + self.block(st[4], ind + 1) + \
               [pad + "    %s = %s + 1" % (st[1], st[1]), pad + "    %s = %s - 1" % (st[2], st[2])]

    REC_DECL = "class Rec:\n    def __init__(self, a, b):\n        self.a = a\n        self.b = b\n\n"

    def rec(self, v, e1, e2):
        return ["%s = Rec(%s, %s)" % (v, e1, e2)]

    def program(self, defs):
        parts = []
        for name, params, body in defs:
            parts.append("def %s(%s):\n%s\n" % (name, ", ".join(params), "\n".join(self.block(body, 1))))
        return self.preamble(defs) + "\n".join(parts) + "\n" + "\n".join(self.main_calls()) + "\n"


class RJs(R):
    name, ext, start = "javascript", ".js", ""

    def let(self, v, e):
        return "let %s = %s;" % (v, e)

    def arr(self, v, es):
        return "let %s = [%s];" % (v, ", ".join(es))

    REC_DECL = "class Rec {\n    constructor(a, b) {\n        this.a = a;\n        this.b = b;\n    }\n}\n\n"

    def rec(self, v, e1, e2):
        return ["let %s = new Rec(%s, %s);" % (v, e1, e2)]

    def program(self, defs):
        parts = []
        for name, params, body in defs:
            parts.append("function %s(%s) {\n%s\n}\n" % (name, ", ".join(params), "\n".join(self.block(body, 1))))
        return self.preamble(defs) + "\n".join(parts) + "\n" + "\n".join(self.main_calls()) + "\n"


class RTs(RJs):
    name, ext = "typescript", ".ts"

    def lets(self, v, lit):
        return "let %s: string = %s;" % (v, lit)

    def program(self, defs):
        parts = []
        for name, params, body in defs:
            parts.append("function %s(%s): number {\n%s\n}\n" % (name, ", ".join(p + ": number" for p in params), "\n".join(self.block(body, 1))))
        return self.preamble(defs) + "\n".join(parts) + "\n" + "\n".join(self.main_calls()) + "\n"

    REC_DECL = ("class Rec {\n    a: number;\n    b: number;\n    constructor(a: number, b: number) {\n        this.a = a;\n        this.b = b;\n    }\n}\n\n")

    def rec(self, v, e1, e2):
        return ["let %s: Rec = new Rec(%s, %s);" % (v, e1, e2)]


class RJava(R):
    name, ext, start = "java", ".java", "main0"
    FORD = "int %s = 0"

    def lets(self, v, lit):
        return "String %s = %s;" % (v, lit)

    def let(self, v, e):
        return "int %s = %s;" % (v, e)

    def arr(self, v, es):
        return "int[] %s = {%s};" % (v, ", ".join(es))

    def program(self, defs):
        parts = []
        for name, params, body in defs:
            parts.append("    static int %s(%s) {\n%s\n    }\n" % (name, ", ".join("int " + p for p in params), "\n".join(self.block(body, 2))))
        parts.append("    static void main0() {\n%s\n    }\n" % "\n".join("        " + x for x in self.main_calls()))
        return self.preamble(defs) + "class K {\n" + "\n".join(parts) + "}\n"

    REC_DECL = "class Rec {\n    int a;\n    int b;\n    Rec(int a, int b) {\n        this.a = a;\n        this.b = b;\n    }\n}\n\n"

    def rec(self, v, e1, e2):
        return ["Rec %s = new Rec(%s, %s);" % (v, e1, e2)]


class RC(R):
    name, ext, start = "c", ".c", "main0"
    FORD = "int %s = 0"

    def lets(self, v, lit):
        return "char *%s = %s;" % (v, lit)

    def let(self, v, e):
        return "int %s = %s;" % (v, e)

    def arr(self, v, es):
        return "int %s[%d] = {%s};" % (v, len(es), ", ".join(es))

    def program(self, defs):
        parts = []
        for name, params, body in defs:
            parts.append("int %s(%s) {\n%s\n}\n" % (name, ", ".join("int " + p for p in params), "\n".join(self.block(body, 1))))
        parts.append("void main0() {\n%s\n}\n" % "\n".join("    " + x for x in self.main_calls()))
        return self.preamble(defs) + "\n".join(parts)

    REC_DECL = "struct Rec {\n    int a;\n    int b;\n};\n\n"

    def rec(self, v, e1, e2):
        return ["struct Rec %s;" % v, "%s.a = %s;" % (v, e1), "%s.b = %s;" % (v, e2)]


class RGo(R):
    name, ext, semi, start = "go", ".go", "", "main0"

    def lets(self, v, lit):
        return "var %s string = %s" % (v, lit)

    def let(self, v, e):
        return "var %s int = %s" % (v, e)

    def arr(self, v, es):
        return "%s := []int{%s}" % (v, ", ".join(es))

    def if_(self, st, ind):
        pad = "    " * ind
        out = [pad + "if %s {" % self.c(st[1])] + self.block(st[2], ind + 1)
        if st[3]:
            out += [pad + "} else {"] + self.block(st[3], ind + 1)
        return out + [pad + "}"]

    def while_(self, st, ind):
        pad = "    " * ind
        return [pad + "for %s {" % self.c(st[1])] + self.block(st[2], ind + 1) + [pad + "}"]

    def for_(self, st, ind):
        pad = "    " * ind
        i = st[1]
        return [pad + "for %s = 0; %s < %d; %s++ {" % (i, i, st[2], i)] + self.block(st[3], ind + 1) + [pad + "}"]

    def ford_(self, st, ind):
        pad = "    " * ind
        i = st[1]
        return [pad + "for %s := 0; %s < %d; %s++ {" % (i, i, st[2], i)] + self.block(st[3], ind + 1) + [pad + "}"]

    def for2_(self, st, ind):
        pad = "    " * ind
        i, j = st[1], st[2]
        return [pad + "for %s, %s = 0, %d; %s < %s; %s, %s = %s+1, %s-1 {" % (i, j, st[3], i, j, i, j, i, j)] + self.block(st[4], ind + 1) + [pad + "}"]

    REC_DECL = "type Rec struct {\n    a int\n    b int\n}\n"

    def rec(self, v, e1, e2):
        return ["var %s Rec" % v, "%s.a = %s" % (v, e1), "%s.b = %s" % (v, e2)]

    def program(self, defs):
        parts = ["package main\n", self.preamble(defs)]
        for name, params, body in defs:
            parts.append("func %s(%s) int {\n%s\n}\n" % (name, ", ".join(p + " int" for p in params), "\n".join(self.block(body, 1))))
        parts.append("func main0() {\n%s\n}\n" % "\n".join("    " + x for x in self.main_calls()))
        return "\n".join(parts)


class RPhp(R):
    name, ext, start = "php", ".php", ""
    FORD = "%s = 0"

    def var(self, v):
        return "$" + v

    def let(self, v, e):
        return "$%s = %s;" % (v, e)

    def arr(self, v, es):
        return "$%s = [%s];" % (v, ", ".join(es))

    REC_DECL = "class Rec {\n    public $a;\n    public $b;\n    function __construct($a, $b) {\n        $this->a = $a;\n        $this->b = $b;\n    }\n}\n"

    def field(self, v, f):
        return "$%s->%s" % (v, f)

    def rec(self, v, e1, e2):
        return ["$%s = new Rec(%s, %s);" % (v, e1, e2)]

    def program(self, defs):
        parts = ["<?php", self.preamble(defs)]
        for name, params, body in defs:
            parts.append("function %s(%s) {\n%s\n}\n" % (name, ", ".join("$" + p for p in params), "\n".join(self.block(body, 1))))
        return "\n".join(parts) + "\n" + "\n".join(self.main_calls()) + "\n"


RENDERERS = [RPy(), RJs(), RTs(), RJava(), RC(), RGo(), RPhp()]

# hand-written core programs, one per construct
CORE_CONSTRUCTS = {
    "string_values": [("entry", ["a", "b"], [("lets", "s0", "ab"), ("lets", "s1", "x y"), ("outs", ("sv", "s0")), ("outs", "lit 12"), ("sets", "s0", ("sv", "s1")),
                                             ("if", ("cmp", "<", ("v", "a"), ("v", "b")), [("sets", "s1", "then")], [("sets", "s1", "else")]),
                                             ("outs", ("sv", "s0")), ("outs", ("sv", "s1")), ("ret", ("v", "a"))])],
    "string_quotes": [("entry", ["a", "b"], [("lets", "s0", "it's"), ("lets", "s1", 'say "hi"'), ("lets", "s2", "back\\slash"), ("outs", ("sv", "s0")), ("outs", ("sv", "s1")),
                                             ("outs", ("sv", "s2")), ("outs", "12"), ("outs", ""), ("ret", ("v", "b"))])],
    "for_two_updates": [("entry", ["a", "b"], [("let", "t0", ("n", 0)), ("let", "i1", ("n", 0)), ("let", "j2", ("n", 0)),
                                               ("for2", "i1", "j2", 6, [("set", "t0", ("bin", "+", ("bin", "*", ("v", "t0"), ("n", 2)), ("bin", "-", ("v", "j2"), ("v", "i1")))),
                                                                        ("if", ("cmp", "==", ("v", "i1"), ("v", "a")), [("set", "t0", ("bin", "+", ("v", "t0"), ("v", "b")))], [])]),
                                               ("ret", ("bin", "+", ("bin", "*", ("v", "t0"), ("n", 10)), ("v", "j2")))])],
    "precedence_natural": [("entry", ["a", "b"], [("let", "t0", ("bin", "+", ("n", 1), ("bin", "*", ("n", 2), ("n", 3)))),
                                                  ("let", "t1", ("bin", "-", ("v", "a"), ("bin", "-", ("v", "b"), ("n", 1)))),
                                                  ("let", "t2", ("bin", "*", ("bin", "+", ("v", "a"), ("v", "b")), ("n", 2))),
                                                  ("let", "t3", ("bin", "-", ("bin", "-", ("n", 10), ("n", 4)), ("n", 3))),
                                                  ("let", "t4", ("bin", "+", ("bin", "*", ("v", "a"), ("n", 2)), ("bin", "*", ("v", "b"), ("n", 3)))),
                                                  ("out", ("v", "t0")), ("out", ("v", "t1")), ("out", ("v", "t2")), ("out", ("v", "t3")),
                                                  ("ret", ("bin", "-", ("bin", "+", ("v", "t4"), ("bin", "*", ("n", 2), ("bin", "*", ("n", 3), ("n", 4)))), ("n", 5)))])],
    "constants_only": [("entry", ["a", "b"], [("let", "t0", ("bin", "+", ("n", 1), ("bin", "*", ("n", 2), ("n", 3)))),
                                              ("let", "t1", ("bin", "*", ("bin", "-", ("n", 7), ("n", 2)), ("bin", "+", ("n", 1), ("n", 1)))),
                                              ("let", "t2", ("bin", "-", ("n", 0), ("bin", "*", ("n", 4), ("n", 4)))),
                                              ("out", ("v", "t0")), ("out", ("v", "t1")),
                                              ("ret", ("bin", "+", ("v", "t2"), ("bin", "*", ("v", "a"), ("n", 0))))])],
    # all-literal expressions three and four operators deep, written without parentheses (constant folders of the frontends)
    "constants_deep_natural": [("entry", ["a", "b"], [
        ("let", "t0", ("bin", "-", ("bin", "+", ("n", 1), ("bin", "*", ("n", 2), ("n", 3))), ("n", 4))),
        ("let", "t1", ("bin", "-", ("bin", "+", ("bin", "*", ("n", 2), ("n", 3)), ("n", 4)), ("n", 1))),
        ("let", "t2", ("bin", "-", ("bin", "-", ("n", 20), ("bin", "*", ("n", 2), ("n", 3))), ("n", 4))),
        ("let", "t3", ("bin", "+", ("bin", "-", ("bin", "+", ("n", 9), ("bin", "*", ("bin", "*", ("n", 2), ("n", 3)), ("n", 4))), ("n", 5)), ("n", 1))),
        ("let", "t4", ("bin", "*", ("bin", "*", ("n", 2), ("n", 3)), ("n", 4))),
        ("out", ("v", "t0")), ("out", ("v", "t1")), ("out", ("v", "t2")), ("out", ("v", "t3")), ("out", ("v", "t4")),
        ("ret", ("bin", "+", ("bin", "-", ("bin", "+", ("n", 1), ("bin", "*", ("n", 2), ("n", 3))), ("n", 4)), ("bin", "*", ("v", "a"), ("n", 0))))])],
    # records / objects with fields: construction with two values, field reads in expressions and conditions, field writes, two records
    "record_fields": [("entry", ["a", "b"], [
        ("rec", "r", ("v", "a"), ("bin", "+", ("v", "b"), ("n", 1))),
        ("out", ("f", "r", "a")), ("out", ("f", "r", "b")),
        ("setf", "r", "a", ("bin", "+", ("f", "r", "a"), ("n", 10))),
        ("setf", "r", "b", ("bin", "*", ("f", "r", "a"), ("n", 2))),
        ("out", ("f", "r", "a")),
        ("ret", ("bin", "-", ("f", "r", "b"), ("f", "r", "a")))])],
    "record_two_objects": [("entry", ["a", "b"], [
        ("rec", "r", ("v", "a"), ("n", 1)), ("rec", "q", ("v", "b"), ("n", 2)),
        ("setf", "r", "b", ("f", "q", "a")),
        ("setf", "q", "a", ("bin", "+", ("f", "r", "a"), ("f", "q", "b"))),
        ("if", ("cmp", "<", ("f", "r", "a"), ("f", "q", "a")), [("setf", "r", "a", ("n", 7))], [("setf", "q", "b", ("n", 9))]),
        ("out", ("f", "r", "a")), ("out", ("f", "r", "b")), ("out", ("f", "q", "a")),
        ("ret", ("bin", "+", ("f", "q", "b"), ("f", "r", "b")))])],
    "record_in_loop": [("entry", ["a", "b"], [
        ("rec", "r", ("n", 0), ("v", "b")), ("let", "i1", ("n", 0)),
        ("for", "i1", 3, [("setf", "r", "a", ("bin", "+", ("f", "r", "a"), ("v", "i1"))),
                          ("if", ("cmp", "==", ("f", "r", "a"), ("v", "a")), [("setf", "r", "b", ("bin", "+", ("f", "r", "b"), ("n", 5)))], [])]),
        ("ret", ("bin", "+", ("bin", "*", ("f", "r", "a"), ("n", 10)), ("f", "r", "b")))])],
    # two sibling loops that each declare the same counter in their header, in two functions one of which calls the other
    "two_loops_same_counter": [
        ("h0", ["p"], [("let", "t0", ("n", 0)),
                       ("ford", "i", 2, [("set", "t0", ("bin", "+", ("v", "t0"), ("v", "i")))]),
                       ("ford", "i", 3, [("set", "t0", ("bin", "+", ("v", "t0"), ("bin", "*", ("v", "i"), ("v", "p"))))]),
                       ("ret", ("v", "t0"))]),
        ("entry", ["a", "b"], [("let", "t0", ("n", 0)),
                               ("ford", "i", 2, [("set", "t0", ("bin", "+", ("v", "t0"), ("call", "h0", [("v", "i")])))]),
                               ("ford", "i", 3, [("set", "t0", ("bin", "+", ("v", "t0"), ("bin", "+", ("v", "i"), ("v", "a"))))]),
                               ("out", ("v", "t0")),
                               ("ret", ("bin", "+", ("v", "t0"), ("v", "b")))])],
    # operands with side effects: the left operand is evaluated before the right one
    "operand_order": [
        ("pr", ["p"], [("out", ("v", "p")), ("ret", ("v", "p"))]),
        ("entry", ["a", "b"], [("let", "t0", ("bin", "-", ("call", "pr", [("v", "a")]), ("call", "pr", [("v", "b")]))),
                               ("let", "t1", ("bin", "+", ("call", "pr", [("n", 1)]), ("bin", "*", ("call", "pr", [("n", 2)]), ("call", "pr", [("n", 3)])))),
                               ("ret", ("bin", "+", ("bin", "*", ("v", "t0"), ("n", 10)), ("v", "t1")))])],
    "arith": [("entry", ["a", "b"], [("ret", ("bin", "-", ("bin", "*", ("v", "a"), ("n", 3)), ("bin", "+", ("v", "b"), ("neg", ("v", "a")))))])],
    "if_else": [("entry", ["a", "b"], [("let", "t0", ("n", 0)), ("if", ("cmp", "<", ("v", "a"), ("v", "b")), [("set", "t0", ("n", 1))], [("set", "t0", ("n", 2))]),
                                       ("if", ("and", ("cmp", ">", ("v", "a"), ("n", 0)), ("not", ("cmp", "==", ("v", "b"), ("n", 1)))), [("set", "t0", ("bin", "+", ("v", "t0"), ("n", 10)))], []),
                                       ("ret", ("v", "t0"))])],
    "while_sum": [("entry", ["a", "b"], [("let", "t0", ("n", 0)), ("let", "w1", ("n", 0)),
                                         ("while", ("cmp", "<", ("v", "w1"), ("bin", "+", ("v", "a"), ("n", 2))),
                                          [("set", "t0", ("bin", "+", ("v", "t0"), ("bin", "*", ("v", "w1"), ("v", "b")))), ("set", "w1", ("bin", "+", ("v", "w1"), ("n", 1)))]),
                                         ("ret", ("v", "t0"))])],
    "while_continue": [("entry", ["a", "b"], [("let", "t0", ("n", 0)), ("let", "w1", ("bin", "+", ("v", "a"), ("n", 3))),
                                              ("while", ("cmp", ">", ("v", "w1"), ("n", 0)),
                                               [("set", "w1", ("bin", "-", ("v", "w1"), ("n", 1))), ("set", "t0", ("bin", "+", ("v", "t0"), ("n", 1))),
                                                ("if", ("cmp", "==", ("v", "w1"), ("n", 0)), [("continue",)], []), ("set", "t0", ("bin", "+", ("v", "t0"), ("n", 10)))]),
                                              ("ret", ("v", "t0"))])],
    "for_break_continue": [("entry", ["a", "b"], [("let", "t0", ("n", 0)), ("let", "i1", ("n", 0)),
                                                  ("for", "i1", 3, [("if", ("cmp", "==", ("v", "i1"), ("v", "a")), [("continue",)], []),
                                                                    ("if", ("cmp", "==", ("v", "i1"), ("bin", "+", ("v", "b"), ("n", 1))), [("break",)], []),
                                                                    ("set", "t0", ("bin", "+", ("bin", "*", ("v", "t0"), ("n", 3)), ("v", "i1")))]),
                                                  ("ret", ("v", "t0"))])],
    "calls": [("h0", ["p", "q"], [("ret", ("bin", "-", ("bin", "*", ("v", "p"), ("n", 10)), ("v", "q")))]),
              ("entry", ["a", "b"], [("out", ("call", "h0", [("v", "b"), ("v", "a")])), ("ret", ("call", "h0", [("call", "h0", [("v", "a"), ("n", 1)]), ("v", "b")]))])],
    "arrays": [("entry", ["a", "b"], [("let", "t0", ("n", 0)), ("arr", "xs", [("n", 1), ("n", 2), ("n", 3)]), ("setidx", "xs", ("n", 1), ("bin", "+", ("v", "a"), ("idx", "xs", ("n", 2)))),
                                      ("setidx", "xs", ("n", 0), ("v", "b")), ("ret", ("bin", "+", ("bin", "*", ("idx", "xs", ("n", 0)), ("n", 100)), ("bin", "+", ("bin", "*", ("idx", "xs", ("n", 1)), ("n", 10)), ("idx", "xs", ("n", 2)))))])],
    "nested_loops": [("entry", ["a", "b"], [("let", "t0", ("n", 0)), ("let", "i1", ("n", 0)), ("let", "w2", ("n", 0)),
                                            ("for", "i1", 3, [("set", "w2", ("n", 0)), ("while", ("cmp", "<", ("v", "w2"), ("bin", "+", ("v", "i1"), ("v", "a"))),
                                                                                       [("set", "t0", ("bin", "+", ("v", "t0"), ("bin", "+", ("bin", "*", ("v", "i1"), ("v", "w2")), ("v", "b")))),
                                                                                        ("set", "w2", ("bin", "+", ("v", "w2"), ("n", 1)))])]),
                                            ("ret", ("v", "t0"))])],
    "early_return": [("entry", ["a", "b"], [("let", "i1", ("n", 0)), ("for", "i1", 3, [("if", ("cmp", "==", ("v", "i1"), ("v", "a")), [("ret", ("bin", "*", ("v", "i1"), ("n", 10)))], [])]), ("ret", ("v", "b"))])],
}
