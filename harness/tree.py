"""History trees: exhaustive enumeration of operation sequences on a real object, logged as a forest
that a TLA+ trace specification walks (one TLC state per tree node, every distinct prefix validated once).

File format (JSON, one file per batch):
  {"roots": [k, ...], "nodes": [ {"op": ..., <args>, <result>, <projection>, "kids": [k, ...]}, ... ]}
Node ids are 1-based positions in "nodes".  A chain (single history) is a tree with one child per node.
"""
import json
import os


class Forest:
    def __init__(self, out_dir, stem, max_nodes=60000, meta=None):
        self.out_dir = out_dir
        self.stem = stem
        self.max_nodes = max_nodes
        self.meta = meta or {}
        self.files = []
        self.total = 0
        self.leaves = 0
        self.maxdepth = 0
        self._reset()

    def _reset(self):
        self.nodes = []
        self.roots = []

    def add(self, parent, event, depth=1):
        """parent: node id or 0 for a root.  Returns the new node id."""
        ev = dict(event)
        ev["kids"] = []
        self.nodes.append(ev)
        k = len(self.nodes)
        if parent == 0:
            self.roots.append(k)
        else:
            self.nodes[parent - 1]["kids"].append(k)
        self.total += 1
        if depth > self.maxdepth:
            self.maxdepth = depth
        return k

    def maybe_flush(self):
        """Call between top-level subtrees."""
        if len(self.nodes) >= self.max_nodes:
            self.flush()

    def flush(self):
        if not self.nodes:
            return
        path = os.path.join(self.out_dir, "%s_%03d.json" % (self.stem, len(self.files)))
        doc = dict(self.meta)
        doc["roots"] = self.roots
        doc["nodes"] = self.nodes
        with open(path, "w") as f:
            json.dump(doc, f, separators=(",", ":"))
        self.files.append((path, len(self.nodes)))
        self._reset()

    def history(self, k):
        """Operations from a root to node k (slow; used for replay files only)."""
        parent = {}
        for i, nd in enumerate(self.nodes, 1):
            for c in nd["kids"]:
                parent[c] = i
        h = []
        while k:
            h.append({x: y for x, y in self.nodes[k - 1].items() if x != "kids"})
            k = parent.get(k, 0)
        return list(reversed(h))


def load_history(path, k):
    with open(path) as f:
        doc = json.load(f)
    parent = {}
    for i, nd in enumerate(doc["nodes"], 1):
        for c in nd["kids"]:
            parent[c] = i
    h = []
    while k:
        h.append({x: y for x, y in doc["nodes"][k - 1].items() if x != "kids"})
        k = parent.get(k, 0)
    return list(reversed(h))
