"""History trees: exhaustive enumeration of operation sequences on a real object, logged as a forest
that a TLA+ trace specification walks (one TLC state per tree node, every distinct prefix validated once).

File format (JSON, one file per batch):
  {"roots": [k, ...], "nodes": [ {"op": ..., <args>, <result>, <projection>, "kids": [k, ...]}, ... ]}
Node ids are 1-based positions in "nodes".  A chain (single history) is a tree with one child per node.
"""
import json
import os


class Forest:
    def __init__(self, out_dir, stem, max_nodes=60000, meta=None):
        self.out_dir = out_dir
        self.stem = stem
        self.max_nodes = max_nodes
        self.meta = meta or {}
        self.files = []
        self.total = 0
        self.leaves = 0
        self.maxdepth = 0
        self._reset()

    def _reset(self):
        self.nodes = []
        self.roots = []

    def add(self, parent, event, depth=1):
        """parent: node id or 0 for a root.  Returns the new node id."""
        ev = dict(event)
        ev["kids"] = []
        self.nodes.append(ev)
        k = len(self.nodes)
        if parent == 0:
            self.roots.append(k)
        else:
            self.nodes[parent - 1]["kids"].append(k)
        self.total += 1
        if depth > self.maxdepth:
            self.maxdepth = depth
        return k

    def maybe_flush(self):
        """Call between top-level subtrees."""
        if len(self.nodes) >= self.max_nodes:
            self.flush()

    def flush(self):
        if not self.nodes:
            return
        path = os.path.join(self.out_dir, "%s_%03d.json" % (self.stem, len(self.files)))
        doc = dict(self.meta)
        doc["roots"] = self.roots
        doc["nodes"] = self.nodes
        with open(path, "w") as f:
            json.dump(doc, f, separators=(",", ":"))
        self.files.append((path, len(self.nodes)))
        self._reset()

    def history(self, k):
        """Operations from a root to node k (slow; used for replay files only)."""
        parent = {}
        for i, nd in enumerate(self.nodes, 1):
            for c in nd["kids"]:
                parent[c] = i
        h = []
        while k:
            h.append({x: y for x, y in self.nodes[k - 1].items() if x != "kids"})
            k = parent.get(k, 0)
        return list(reversed(h))


_DOC = {}


def _load(path):
    if path not in _DOC:
        _DOC.clear()
        with open(path) as f:
            doc = json.load(f)
        parent = {}
        for i, nd in enumerate(doc["nodes"], 1):
            for c in nd["kids"]:
                parent[c] = i
        _DOC[path] = (doc, parent)
    return _DOC[path]


def load_history(path, k):
    doc, parent = _load(path)
    h = []
    while k:
        h.append({x: y for x, y in doc["nodes"][k - 1].items() if x != "kids"})
        k = parent.get(k, 0)
    return list(reversed(h))


def merge(files, out_dir, stem, max_nodes=60000, same_key=None):
    """Merge small forest files (path, n) into bigger ones; files with different doc[same_key] are kept apart."""
    groups = {}
    for path, n in files:
        with open(path) as f:
            doc = json.load(f)
        key = json.dumps(doc.get(same_key), sort_keys=True) if same_key else ""
        groups.setdefault(key, []).append((path, doc))
    out = []
    for key, docs in groups.items():
        cur = None
        for path, doc in docs:
            if cur is None or len(cur["nodes"]) + len(doc["nodes"]) > max_nodes and cur["nodes"]:
                if cur is not None:
                    out.append(cur)
                cur = {k: v for k, v in doc.items() if k not in ("roots", "nodes")}
                cur["roots"], cur["nodes"] = [], []
            off = len(cur["nodes"])
            for nd in doc["nodes"]:
                nd["kids"] = [k + off for k in nd["kids"]]
                cur["nodes"].append(nd)
            cur["roots"] += [r + off for r in doc["roots"]]
            os.remove(path)
        if cur is not None and cur["nodes"]:
            out.append(cur)
    res = []
    for i, doc in enumerate(out):
        p = os.path.join(out_dir, "%s_m%03d.json" % (stem, i))
        with open(p, "w") as f:
            json.dump(doc, f, separators=(",", ":"))
        res.append((p, len(doc["nodes"])))
    return res


_META = {}


def load_meta(path):
    if path not in _META:
        with open(path) as f:
            doc = json.load(f)
        _META[path] = {k: v for k, v in doc.items() if k not in ("roots", "nodes")}
    return _META[path]
