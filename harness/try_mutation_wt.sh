#!/bin/sh
# usage: try_mutation_wt.sh <patch.diff> <property id> [tier]
# Applies the patch in a scratch worktree of /repo (never /repo itself), runs the check against it with LIAN_REPO, removes the worktree,
# and restores the evidence file (evidence must describe the unchanged tree).
set -u
patch=$(realpath "$1"); pid="$2"; tier="${3:-quick}"
wt=/tmp/mutwt_${pid}_$$
git -C /repo worktree add --detach "$wt" HEAD >/dev/null 2>&1 || { echo "cannot create worktree"; exit 2; }
git -C "$wt" apply "$patch" || { echo "patch does not apply"; git -C /repo worktree remove --force "$wt"; exit 2; }
cd /verif
mkdir -p out
log=out/mut_${pid}_$(basename $(dirname "$patch")).log
LIAN_REPO="$wt" ./check "$pid" --tier "$tier" > "$log" 2>&1
rc=$?
git -C /repo worktree remove --force "$wt"
git -C /verif checkout -- "evidence/$pid.json" 2>/dev/null
echo "check rc=$rc  ($(grep -c '^VIOLATION' "$log") VIOLATION lines) log=$log"
grep "^VIOLATION" "$log" | head -3
grep -v "^VIOLATION" "$log" | tail -3
exit 0
