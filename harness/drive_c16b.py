"""C16 driver, part b: the block views over a unit's GIR (util.gir_block.GIRBlockViewer) through operation trees.

usage: drive_c16b.py <out_dir> <tier>
A node = one operation (enter a block with read_block / append the visible statements of a view of a second GIR with append_other)
followed by the whole query battery on the resulting view.  BlockView.tla holds the contract and compares.
"""
import builtins
import json
import os
import sys
from types import SimpleNamespace

if not hasattr(builtins, "profile"):
    builtins.profile = lambda f: f

from lian.util.gir_block import GIRBlockViewer  # noqa: E402
from tree import Forest  # noqa: E402

OPS = ["a", "b", "c", "block_start", "block_end"]
BLOCK_IDS = [2, 4, 7, 12, 14, 99]


def stmt(i, op):
    s = SimpleNamespace(stmt_id=i, operation=op, parent_stmt_id=0)
    if op in ("a", "b", "c"):
        s.name = op
    return s


# two unit GIRs with disjoint ids: nested blocks, an empty block, adjacent blocks, statements before / between / after blocks
GIRS = {
    "nested": [(1, "a"), (2, "block_start"), (3, "b"), (4, "block_start"), (5, "a"), (4, "block_end"), (6, "b"), (2, "block_end"),
               (7, "block_start"), (8, "a"), (7, "block_end"), (9, "c")],
    "leading_block": [(2, "block_start"), (4, "block_start"), (4, "block_end"), (3, "a"), (2, "block_end"), (7, "block_start"), (7, "block_end")],
}
OTHER = [(11, "a"), (12, "block_start"), (13, "b"), (14, "block_start"), (14, "block_end"), (15, "a"), (12, "block_end"), (16, "c")]


def build(desc):
    return GIRBlockViewer([stmt(i, op) for i, op in desc])


def battery(v):
    q = {}
    q["len"] = len(v)
    q["ids"] = [int(s.stmt_id) for s in v]
    q["all_ids"] = [int(i) for i in v.get_all_stmt_ids()]
    q["by_op"] = {o: [int(s.stmt_id) for s in v.query_operation(o)] for o in OPS}
    q["by_name"] = {o: [int(s.stmt_id) for s in v.query_field("name", o)] for o in ("a", "b")}
    q["contains"] = [i for i in range(1, 17) if v.contains_stmt_id(i)]
    by_id = [i for i in range(1, 17) if v.get_stmt_by_id(i) is not None]
    if by_id != q["contains"]:
        q["contains"] = [-1] + by_id            # the two membership queries disagree: never equal to the scan
    n = len(v._stmt_collection)
    q["by_pos"] = [p for p in range(-1, n + 2) if v.get_stmt_by_pos(p) is not None]
    q["enterable"] = [b for b in BLOCK_IDS if v.read_block(b) is not None]
    q["block_ids"] = {str(b): [int(i) for i in v.get_block_stmt_ids(b)] for b in BLOCK_IDS if b in v._block_id_to_range}
    q["boundary"] = int(v.boundary_of_multi_blocks(BLOCK_IDS))
    # indexing agrees with iteration
    try:
        if [int(v[k].stmt_id) for k in range(len(v))] != q["ids"] or (len(v) and int(v[-1].stmt_id) != q["ids"][-1]):
            q["ids"] = [-1] + q["ids"]
    except Exception:  # noqa
        q["ids"] = [-2] + q["ids"]
    return q


def other_views():
    root = build(OTHER)
    return {"whole": root, "block12": root.read_block(12), "block14": root.read_block(14)}


def apply(v, o):
    crash, entered = "", False
    ev = dict(o)
    try:
        if o["op"] == "enter":
            w = v.read_block(o["b"])
            entered = w is not None
            if entered:
                v = w
        elif o["op"] == "append":
            ov = other_views()[o["which"]]
            ev["other"] = [{"id": int(s.stmt_id), "op": s.operation} for s in ov]
            v = v.append_other(ov)
        else:
            raise ValueError(o["op"])
        q = battery(v)
    except BaseException as e:  # noqa
        crash, q = type(e).__name__, {}
    ev.update(crash=crash, entered=entered, q=q)
    return v, ev


def ops():
    return [{"op": "enter", "b": b} for b in BLOCK_IDS] + [{"op": "append", "which": w} for w in ("whole", "block12", "block14")]


def main():
    out_dir, tier = sys.argv[1], sys.argv[2]
    depth = 3 if tier == "quick" else 4
    files, total, leaves = [], 0, 0
    for name, desc in GIRS.items():
        forest = Forest(out_dir, "c16b_%s" % name, max_nodes=10 ** 9, meta={"stmts": [{"id": i, "op": op} for i, op in desc], "gir": name})

        def rec(parent, hist, d):
            nonlocal leaves
            for o in ops():
                if o["op"] == "append" and any(h["op"] == "append" for h in hist):
                    continue            # the second GIR's ids may be appended once (a duplicate id is refused by the constructor, by design)
                v = build(desc)
                for h in hist:
                    v, _ = apply(v, h)
                v, ev = apply(v, o)
                k = forest.add(parent, ev, d)
                if d < depth and not ev["crash"]:
                    rec(k, hist + [o], d + 1)
                else:
                    leaves += 1
        rec(0, [], 1)
        forest.flush()
        files += forest.files
        total += forest.total
    print(json.dumps({"files": files, "nodes": total, "leaves": leaves, "depth": depth, "girs": sorted(GIRS)}))


if __name__ == "__main__":
    main()
