"""Python programs for C01: a hand-written construct family (one small program per lowering handler) and a grammar-driven
family indexed by an integer (index -> program, fixed enumeration).  All programs are deterministic, terminate quickly,
print scalars only, and keep integers small."""
import random

CONSTRUCTS = [
    # a default that is a bare name is evaluated where the function is defined, not where it is called
    ("default_identifier_rebound", "n = 1\n\ndef f(p, q=n):\n    return p * 10 + q\n\nn = 7\n\ndef entry(a, b):\n    m = 3\n    def g(u, v=m):\n        return u * 100 + v\n    m = 5\n    print(f(a), g(b))\n    return f(a, b) + g(1)\n"),
    # the receiver passed on as a positional argument, to a function and to a method of another object
    ("self_as_argument", "def combine(o, d):\n    return o.v * 10 + d\n\nclass Acc:\n    def __init__(self, v):\n        self.v = v\n    def absorb(self, other):\n        self.v = self.v + other.v\n        return self.v\n"
                         "    def mix(self, d):\n        return combine(self, d)\n    def feed(self, target):\n        return target.absorb(self)\n\ndef entry(a, b):\n    x = Acc(a)\n    y = Acc(b)\n    print(x.mix(b), y.feed(x))\n    return x.v * 10 + y.v\n"),
    ("arith_order", "def entry(a, b):\n    return a - b * 2 + (a - 1) * b\n"),
    ("compare_chain", "def entry(a, b):\n    r = 0\n    if a < b:\n        r = r + 1\n    if a <= b:\n        r = r + 2\n    if a == b:\n        r = r + 4\n    if a != b:\n        r = r + 8\n    if a > b:\n        r = r + 16\n    if a >= b:\n        r = r + 32\n    return r\n"),
    ("bool_ops", "def entry(a, b):\n    x = a and b\n    y = a or b\n    z = not a\n    print(x, y, z)\n    return (a > 0 and b > 0) or (a < 0 and not b)\n"),
    ("unary", "def entry(a, b):\n    return -a + (-b) - -a\n"),
    ("unary_compound", "def entry(a, b):\n    x = -(a + b)\n    y = 0\n    if not (a > b):\n        y = 1\n    xs = [a, b]\n    return x * 10 + y - -xs[0]\n"),
    ("literal_expressions", "def entry(a, b):\n    y = 1 - 2 * 3\n    print(10 - 2 * 4 + 1, 2 * 3 + 4 * 5 - 6, 7 - 1 - 2, 2 + 3 * 4 * 2 - 1)\n    z = 8 - 2 - 1 * 3 + a\n    return y * 100 + z\n"),
    ("precedence", "def entry(a, b):\n    return a + b * 2 - a * b + 3 - b - a * 2 * b\n"),
    ("many_keywords", "def h(p, q=1, r=2, s=3):\n    return p * 1000 + q * 100 + r * 10 + s\n\ndef entry(a, b):\n    return h(a, r=b, s=4) + h(1, s=a, q=b, r=0) + h(p=2, s=b, q=a)\n"),
    ("if_elif_else", "def entry(a, b):\n    if a > 1:\n        r = 1\n    elif a > 0:\n        r = 2\n    elif b > 0:\n        r = 3\n    else:\n        r = 4\n    return r\n"),
    ("nested_if", "def entry(a, b):\n    r = 0\n    if a > 0:\n        if b > 0:\n            r = 1\n        else:\n            r = 2\n        r = r + 10\n    return r\n"),
    ("while_count", "def entry(a, b):\n    i = 0\n    s = 0\n    while i < a + 2:\n        s = s + i * b\n        i = i + 1\n    return s\n"),
    ("while_break", "def entry(a, b):\n    i = 0\n    while i < 6:\n        if i == a + 1:\n            break\n        i = i + 1\n    return i\n"),
    ("while_continue", "def entry(a, b):\n    i = 0\n    s = 0\n    while i < 5:\n        i = i + 1\n        if i == b + 2:\n            continue\n        s = s + i\n    return s\n"),
    ("while_continue_cond_change", "def entry(a, b):\n    x = a + 3\n    n = 0\n    while x > 0:\n        x = x - 1\n        n = n + 1\n        if x == 0:\n            continue\n        n = n + 10\n    return n\n"),
    ("for_range", "def entry(a, b):\n    s = 0\n    for i in range(a + 2):\n        s = s + i + b\n    return s\n"),
    ("for_range2", "def entry(a, b):\n    s = 0\n    for i in range(a, b + 3):\n        s = s * 2 + i\n    return s\n"),
    ("for_break_continue", "def entry(a, b):\n    s = 0\n    for i in range(6):\n        if i == a:\n            continue\n        if i == b + 3:\n            break\n        s = s + i\n    return s\n"),
    ("for_list", "def entry(a, b):\n    xs = [a, b, 3]\n    s = 0\n    for e in xs:\n        s = s * 3 + e\n    return s\n"),
    ("nested_loops", "def entry(a, b):\n    s = 0\n    for i in range(3):\n        j = 0\n        while j < i + a:\n            s = s + i * j + b\n            j = j + 1\n    return s\n"),
    ("augmented", "def entry(a, b):\n    x = a\n    x += b\n    x *= 3\n    x -= 1\n    return x\n"),
    ("augmented_elem", "def entry(a, b):\n    xs = [1, 2, 3]\n    xs[1] += a\n    xs[0] *= b\n    xs[2] -= 1\n    return xs[0] + xs[1] * 10 + xs[2] * 100\n"),
    ("list_ops", "def entry(a, b):\n    xs = [a, b]\n    xs.append(a + b)\n    xs[0] = xs[2] - 1\n    return xs[0] * 100 + xs[1] * 10 + len(xs)\n"),
    ("neg_index", "def entry(a, b):\n    xs = [a, b, 7]\n    return xs[-1] + xs[-3]\n"),
    ("tuple_unpack", "def entry(a, b):\n    p, q = (b, a)\n    t = (p + 1, q + 2)\n    u, v = t\n    return u * 10 + v\n"),
    ("swap", "def entry(a, b):\n    a, b = b, a\n    return a * 10 + b\n"),
    ("rotate_and_fib", "def entry(a, b):\n    c = a + 1\n    a, b, c = b, c, a\n    x, y = 1, 2\n    x, y = x + y, x\n    y, x = x, y\n    return a * 1000 + b * 100 + c * 10 + x - y\n"),
    # chained assignments whose value is computed (operator, call, subscript, attribute read), literal or a plain name
    ("chained_assign", "class K:\n    def __init__(self, v):\n        self.v = v\n\ndef twice(n):\n    return n * 2\n\n"
                       "def entry(a, b):\n    lo = hi = a - b\n    p = q = twice(a)\n    xs = [a, b, 3]\n    m = n = xs[1]\n    o = K(b)\n    r = s = o.v\n    c = d = 0\n    e = f = a\n"
                       "    lo = lo + 1\n    q = q + 1\n    n = n + 2\n    s = s + 3\n    d = d + 4\n    f = f + 5\n"
                       "    print(lo, hi, p, q, m, n, r, s, c, d, e, f)\n    u = v = w = a * b\n    v = v + 1\n    return u * 100 + v * 10 + w\n"),
    ("dict_ops", "def entry(a, b):\n    d = {\"x\": a, \"y\": b}\n    d[\"z\"] = d[\"x\"] + d[\"y\"]\n    d[\"x\"] = 5\n    return d[\"x\"] * 100 + d[\"z\"] + len(d)\n"),
    ("dict_int_keys", "def entry(a, b):\n    d = {1: a, 2: b}\n    d[3] = d[1] - d[2]\n    return d[3] + d[2] * 10\n"),
    ("cond_expr", "def entry(a, b):\n    x = a if a > b else b\n    y = 1 if a else 2\n    return x * 10 + y\n"),
    ("strings", "def entry(a, b):\n    s = \"ab\" + \"cd\"\n    t = s + \"e\"\n    print(s, t)\n    if s == \"abcd\":\n        return 1\n    return 0\n"),
    ("string_literals", "def entry(a, b):\n    print(\"x y\", 'q', \"a+b\", \"1\", \"\")\n    return 0\n"),
    ("none_bool", "def entry(a, b):\n    x = None\n    y = True\n    z = False\n    print(x, y, z)\n    if x is None:\n        return 1\n    return 2\n"),
    ("positional", "def h(p, q, r):\n    return p * 100 + q * 10 + r\n\ndef entry(a, b):\n    return h(a, b, 3) + h(b, 1, a)\n"),
    ("keyword", "def h(p, q, r):\n    return p * 100 + q * 10 + r\n\ndef entry(a, b):\n    return h(r=a, p=b, q=2) + h(1, r=b, q=a)\n"),
    ("defaults", "def h(p, q=4, r=5):\n    return p * 100 + q * 10 + r\n\ndef entry(a, b):\n    return h(a) + h(a, b) + h(a, r=b) + h(b, 1, 2)\n"),
    ("default_expr", "K = 3\ndef h(p, q=K + 1):\n    return p * 10 + q\n\ndef entry(a, b):\n    return h(a) + h(b, a)\n"),
    ("keyword_only", "def h(p, *, q=2):\n    return p * 10 + q\n\ndef entry(a, b):\n    return h(a) + h(b, q=a)\n"),
    ("recursion", "def fact(n):\n    if n <= 1:\n        return 1\n    return n * fact(n - 1)\n\ndef entry(a, b):\n    return fact(a + 2) + fact(b + 1)\n"),
    ("mutual", "def ev(n):\n    if n == 0:\n        return 1\n    return od(n - 1)\n\ndef od(n):\n    if n == 0:\n        return 0\n    return ev(n - 1)\n\ndef entry(a, b):\n    return ev(a + 1) * 10 + od(b + 2)\n"),
    ("early_return", "def entry(a, b):\n    for i in range(4):\n        if i == a:\n            return i * 10\n    return b\n"),
    ("no_return", "def h(p):\n    p = p + 1\n\ndef entry(a, b):\n    r = h(a)\n    print(r)\n    return 0\n"),
    ("nested_def", "def entry(a, b):\n    def inner(u):\n        return u * 2 + a\n    return inner(b) + inner(1)\n"),
    ("closure_counter", "def entry(a, b):\n    k = a + 1\n    def add(u):\n        return u + k\n    k = k + b\n    return add(10)\n"),
    ("nonlocal_write", "def entry(a, b):\n    n = a\n    def bump():\n        nonlocal n\n        n = n + b\n        return n\n    bump()\n    bump()\n    return n\n"),
    ("global_rw", "G = 5\ndef setg(v):\n    global G\n    G = v\n\ndef entry(a, b):\n    x = G\n    setg(a)\n    return x * 10 + G\n"),
    ("shadow_param", "G = 7\ndef h(G):\n    G = G + 1\n    return G\n\ndef entry(a, b):\n    return h(a) * 10 + G\n"),
    ("func_value", "def inc(x):\n    return x + 1\n\ndef dbl(x):\n    return x * 2\n\ndef entry(a, b):\n    f = inc\n    if a > 0:\n        f = dbl\n    return f(b + 3)\n"),
    ("class_fields", "class P:\n    def __init__(self, x, y):\n        self.x = x\n        self.y = y\n\ndef entry(a, b):\n    p = P(a, b)\n    p.x = p.x + 1\n    return p.x * 10 + p.y\n"),
    ("class_method", "class C:\n    def __init__(self, v):\n        self.v = v\n    def add(self, w):\n        self.v = self.v + w\n        return self.v\n    def get(self):\n        return self.v\n\ndef entry(a, b):\n    c = C(a)\n    c.add(b)\n    c.add(2)\n    return c.get()\n"),
    ("class_static", "class C:\n    z = 3\n    def __init__(self, v):\n        self.v = v\n    def tot(self):\n        return self.v + C.z\n\ndef entry(a, b):\n    return C(a).tot() + C(b).tot() * 10\n"),
    ("class_alias", "class C:\n    def __init__(self):\n        self.n = 0\n\ndef entry(a, b):\n    p = C()\n    q = p\n    q.n = a + 5\n    r = C()\n    r.n = b\n    return p.n * 10 + r.n\n"),
    ("method_default_kw", "class C:\n    def __init__(self, v=2):\n        self.v = v\n    def f(self, p, q=3):\n        return self.v * 100 + p * 10 + q\n\ndef entry(a, b):\n    return C().f(a) + C(b).f(1, q=a)\n"),
    ("object_in_list", "class C:\n    def __init__(self, v):\n        self.v = v\n\ndef entry(a, b):\n    xs = [C(a), C(b)]\n    xs[0].v = xs[1].v + 1\n    return xs[0].v * 10 + xs[1].v\n"),
    ("list_alias", "def entry(a, b):\n    xs = [1, 2]\n    ys = xs\n    ys[0] = a\n    zs = [xs[0], b]\n    zs[1] = 9\n    return xs[0] * 100 + ys[1] * 10 + zs[1]\n"),
    ("list_param", "def put(xs, v):\n    xs[0] = v\n    return xs\n\ndef entry(a, b):\n    xs = [0, 1]\n    ys = put(xs, a + 3)\n    return xs[0] * 10 + ys[1] + b\n"),
    ("toplevel_code", "X = 2\ndef entry(a, b):\n    return a * X + b\n\nX = X + 1\nprint(X)\n"),
    ("print_multi", "def entry(a, b):\n    print(a, b)\n    print(a + b)\n    print()\n    return b\n"),
    ("while_else_like", "def entry(a, b):\n    i = 0\n    found = 0\n    while i < 4 and found == 0:\n        if i == a + 1:\n            found = 1\n        i = i + 1\n    return i * 10 + found\n"),
    ("nested_calls", "def h(x):\n    return x + 1\n\ndef entry(a, b):\n    return h(h(a) * h(b))\n"),
    ("arg_eval_order", "def note(x):\n    print(x)\n    return x\n\ndef h(p, q):\n    return p - q\n\ndef entry(a, b):\n    return h(note(a), note(b)) + h(q=note(a + 5), p=note(b + 5))\n"),
]

VECTORS = [(-1, -1), (-1, 0), (0, 1), (1, 1), (2, -1), (1, 2), (2, 2), (0, 0)]


def with_calls(src):
    calls = "".join("print(entry(%d, %d))\n" % v for v in VECTORS)
    return src + "\n" + calls


# ------------------------------------------------------------------------------------------ grammar family
class Gen:
    def __init__(self, idx):
        self.r = random.Random(1000003 * idx + 17)
        self.fn = 0

    def expr(self, vars_, d=0):
        r = self.r
        c = r.random()
        if d >= 2 or c < 0.35:
            return r.choice(vars_) if vars_ and r.random() < 0.7 else str(r.randint(0, 4))
        if c < 0.75:
            # parentheses are dropped half of the time: the text is still valid, precedence decides its meaning
            fmt = "(%s %s %s)" if r.random() < 0.5 else "%s %s %s"
            lits = r.random() < 0.15
            return fmt % (self.expr([] if lits else vars_, d + 1), r.choice(["+", "-", "*"]), self.expr([] if lits else vars_, d + 1))
        if c < 0.85:
            return "(-%s)" % self.expr(vars_, d + 1)
        return "(%s if %s else %s)" % (self.expr(vars_, d + 1), self.cond(vars_, d + 1), self.expr(vars_, d + 1))

    def cond(self, vars_, d=0):
        r = self.r
        c = r.random()
        base = "%s %s %s" % (self.expr(vars_, 2), r.choice(["<", "<=", "==", "!=", ">", ">="]), self.expr(vars_, 2))
        if d >= 1 or c < 0.6:
            return base
        if c < 0.8:
            return "(%s) and (%s)" % (base, self.cond(vars_, d + 1))
        if c < 0.95:
            return "(%s) or (%s)" % (base, self.cond(vars_, d + 1))
        return "not (%s)" % base

    def block(self, vars_, ind, depth, in_loop, budget):
        r = self.r
        lines = []
        pad = "    " * ind
        n = r.randint(1, 3)
        for _ in range(n):
            if budget[0] <= 0:
                break
            budget[0] -= 1
            c = r.random()
            if c < 0.4 or depth >= 3:
                v = r.choice(vars_ + ["t%d" % r.randint(0, 2)])
                if v in ("a", "b") and r.random() < 0.5:
                    v = "t0"
                lines.append(pad + "%s = %s" % (v, self.expr(vars_)))
                if v not in vars_:
                    vars_.append(v)
            elif c < 0.5:
                v = r.choice([x for x in vars_ if x not in ("a", "b")] or ["t0"])
                if v not in vars_:
                    lines.append(pad + "%s = 0" % v)
                    vars_.append(v)
                lines.append(pad + "%s %s= %s" % (v, r.choice(["+", "-", "*"]), self.expr(vars_, 1)))
            elif c < 0.68:
                lines.append(pad + "if %s:" % self.cond(vars_))
                lines += self.block(list(vars_), ind + 1, depth + 1, in_loop, budget)
                if r.random() < 0.6:
                    lines.append(pad + "else:")
                    lines += self.block(list(vars_), ind + 1, depth + 1, in_loop, budget)
            elif c < 0.8:
                i = "i%d" % depth
                lines.append(pad + "for %s in range(%d):" % (i, r.randint(1, 3)))
                lines += self.block(vars_ + [i], ind + 1, depth + 1, True, budget)
            elif c < 0.88:
                w = "w%d" % depth
                lines.append(pad + "%s = 0" % w)
                lines.append(pad + "while %s < %d:" % (w, r.randint(1, 3)))
                lines.append(pad + "    %s = %s + 1" % (w, w))
                lines += self.block(vars_ + [w], ind + 1, depth + 1, True, budget)
            elif c < 0.93 and in_loop:
                lines.append(pad + "if %s:" % self.cond(vars_))
                lines.append(pad + "    " + r.choice(["break", "continue"]))
            elif c < 0.97:
                lines.append(pad + "print(%s)" % self.expr(vars_, 1))
            else:
                lines.append(pad + "return %s" % self.expr(vars_, 1))
                break
        if not lines:
            lines.append(pad + "pass")
        return lines

    def program(self):
        r = self.r
        parts = []
        helpers = []
        for h in range(r.randint(0, 2)):
            name = "h%d" % h
            params = r.choice([["p"], ["p", "q"], ["p", "q=2"]])
            vars_ = [x.split("=")[0] for x in params]
            body = self.block(list(vars_), 1, 1, False, [6])
            body.append("    return %s" % self.expr(vars_, 1))
            parts.append("def %s(%s):\n%s\n" % (name, ", ".join(params), "\n".join(body)))
            helpers.append((name, len(params), sum(1 for x in params if "=" not in x)))
        vars_ = ["a", "b"]
        lines = ["    t0 = %s" % self.expr(vars_)]
        vars_.append("t0")
        for name, k, need in helpers:
            args = ", ".join(self.expr(vars_, 2) for _ in range(r.randint(need, k)))
            lines.append("    t1 = %s(%s)" % (name, args))
            if "t1" not in vars_:
                vars_.append("t1")
        lines += self.block(vars_, 1, 1, False, [12])
        lines.append("    return %s" % self.expr(vars_, 1))
        parts.append("def entry(a, b):\n%s\n" % "\n".join(lines))
        return "\n".join(parts)


def generated(idx):
    return Gen(idx).program()
