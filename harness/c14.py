"""C14 — analysis output is a deterministic function of the input.

Two parts: (1) every run's id discipline is validated against the deterministic specification Pipeline.tla
(module ids in scan order, one statement-id counter with the unit gap), (2) the same project is analysed under a fixed
set of schedules (interpreter hash seeds, repetitions, workspace locations, another project analysed before) in separate
processes and every output file must be identical after replacing the embedded workspace path.
"""
import glob
import hashlib
import json
import os
import random
import shutil
import time

import common as C
import skeleton as S

PID = "C14"
HELPER = os.path.join(os.path.dirname(os.path.abspath(__file__)), "c14_digest.py")


def read(p):
    with open(p, errors="replace") as f:
        return f.read()


def projects(tier):
    """Fixed set of projects: (name, lang, {relpath: text})."""
    T = os.path.join(C.REPO, "tests")
    out = []

    def take(name, lang, pattern, n, sub=""):
        fs = {}
        for p in sorted(glob.glob(os.path.join(T, pattern)))[:n]:
            if os.path.isfile(p) and os.path.getsize(p) < 20000:
                fs[sub + os.path.basename(p)] = read(p)
        if fs:
            out.append((name, lang, fs))

    take("py_dataflows", "python", "dataflows/python/*.py", 12, "pkg/")
    take("py_states", "python", "state_flows/python/*.py", 8)
    take("py_import", "python", "import/python/*.py", 6)
    take("js_dataflows", "javascript", "dataflows/javascript/*.js", 8)
    take("java_lang", "java", "lang_parser/java/*.java", 5)
    take("go_lang", "go", "lang_parser/go/*.go", 6)
    take("c_lang", "c", "lang_parser/c/*.c", 6)
    take("php_lang", "php", "lang_parser/php/*.php", 6)
    # a mixed-language project and a generated one
    mixed = {}
    for p in sorted(glob.glob(os.path.join(T, "dataflows/python/*.py")))[:4]:
        mixed["py/" + os.path.basename(p)] = read(p)
    for p in sorted(glob.glob(os.path.join(T, "dataflows/javascript/*.js")))[:4]:
        mixed["js/" + os.path.basename(p)] = read(p)
    out.append(("mixed_py_js", "python,javascript", mixed))
    bodies = S.enumerate_methods(3, 3, {"s", "if", "while", "forin", "break", "continue", "return", "try", "def", "class"})[:120]
    text, _ = S.render_unit(S.RENDERERS[0], bodies)
    out.append(("generated_py", "python", {"gen.py": text + "\nm0000(1, [1])\nm0005(2, [])\n"}))
    # same-named modules in two packages imported by bare name (resolution must not depend on set order), and
    # overridden methods called through instances
    out.append(("ambiguous_imports", "python", {
        "cli/settings.py": 'TITLE = "cli"\n',
        "cli/util.py": "def clean(text):\n    return text.rstrip()\n\ndef render(body, title):\n    line = title + ': ' + body\n    print(line)\n    return line\n",
        "main.py": "from util import clean, render\nimport settings\n\ndef handle(request, mode=1):\n    text = clean(request)\n    page = render(text, settings.TITLE)\n    return page\n\ndef main():\n    out = handle('  hello  ')\n    return out\n\nmain()\n",
        "web/settings.py": 'TITLE = "web"\n',
        "web/util.py": "def clean(text):\n    stripped = text.strip()\n    return stripped.lower()\n\ndef render(body, title):\n    page = '<h1>' + title + '</h1>' + body\n    return page\n",
    }))
    out.append(("inheritance_override", "python", {
        "zoo.py": "class Base:\n    def __init__(self, name):\n        self.name = name\n    def speak(self, loud=False, times=1):\n        return self.name\n    def run(self):\n        return self.speak(times=2, loud=True)\n\n"
                  "class Dog(Base):\n    def speak(self, loud=False, times=1):\n        return self.name + 'woof'\n\nclass Cat(Base):\n    def speak(self, loud=False, times=1):\n        return self.name + 'meow'\n\n"
                  "def make(kind, name):\n    if kind == 1:\n        return Dog(name)\n    return Cat(name)\n\ndef main():\n    a = make(1, 'a')\n    b = make(2, 'b')\n    print(a.speak(loud=True), b.run(), a.run())\n\nmain()\n"}))
    # a callee adds several new fields to a nested sub-object of its argument that already has fields on the caller's side
    out.append(("nested_fields", "python", {
        "nf.py": "class Inner:\n    def __init__(self):\n        self.base = 1\n\nclass Outer:\n    def __init__(self):\n        self.inner = Inner()\n        self.tag = 0\n\n"
                 "def fill(o, v):\n    o.inner.alpha = v\n    o.inner.beta = v\n    o.inner.gamma = v\n    o.inner.delta = v\n    o.inner.epsilon = v\n    o.tag = v\n\n"
                 "def main():\n    o = Outer()\n    o.inner.base = 2\n    o.inner.zeta = 3\n    fill(o, 5)\n    p = Outer()\n    fill(p, 6)\n    return o.inner.alpha\n\nmain()\n"}))
    # two command-line inputs with the same base name that both hold a file at the same relative path (the later copy wins: the order of the
    # inputs must be the order of the command line, whatever the hash seed)
    out.append(("two_inputs_same_basename", "python", {
        "svc_a/app/main.py": "def handle(x):\n    y = x + 1\n    return y\n\nr = handle(1)\n",
        "svc_a/app/only_a.py": "def a_only(v):\n    return v\n",
        "svc_b/app/main.py": "def handle(x, z=2):\n    w = x * z\n    q = w - 1\n    return q\n\ndef extra():\n    return handle(3)\n\nr = extra()\n",
        "svc_b/app/only_b.py": "def b_only(v):\n    t = v\n    return t\n"}))
    # user code with % between an identifier character and a letter (the textual rewrite reserved for mock sources must not touch it)
    out.append(("percent_operators", "python", {
        "mod.py": 'def slot(key, size):\n    idx = key%size\n    name = "slot%d" % idx\n    pad = 7%size\n    return name\n\nr = slot(10, 4)\n'}))
    if tier == "quick":
        keep = {"two_inputs_same_basename", "percent_operators", "ambiguous_imports", "inheritance_override", "nested_fields", "py_dataflows", "py_import", "js_dataflows", "java_lang", "mixed_py_js", "generated_py", "php_lang"}
        out = [p for p in out if p[0] in keep]
    return out


# projects analysed with several command-line inputs (relative to the job's input directory)
INPUTS = {"two_inputs_same_basename": ["svc_a/app", "svc_b/app"]}


def schedules(tier):
    """(tag, hashseed, location, before_other, flags)"""
    sch = [("base", 0, "locA", False, []), ("seed1", 1, "locA", False, []), ("seed2", 2, "locA", False, []),
           ("locB", 0, "elsewhere/deeper/locB", False, []), ("after_other", 3, "locA", True, []), ("repeat", 0, "locA", False, []),
           # the same workspace directory was used before by a project in another language (mocks enabled, --force)
           ("same_ws_after_js", 0, "locA", "same_ws", []),
           # a workspace below a directory that is called like lian's own sub-directory for mocked sources
           ("loc_externs", 0, "elsewhere/externs/locC", False, [])]
    if tier == "thorough":
        sch += [("seed3", 3, "locA", False, []), ("seed4", 4, "locA", False, []), ("repeat2", 4, "elsewhere/deeper/locB", True, []),
                ("p2_base", 0, "locA", False, ["--enable-p2"]), ("p2_seed1", 1, "locA", False, ["--enable-p2"]),
                ("p2_locB", 2, "elsewhere/deeper/locB", True, ["--enable-p2"])]
    return sch


def run(tier, seed):
    t0 = time.time()
    v = C.Verdict(PID)
    root = C.scratch("c14")
    projs = projects(tier)
    sch = schedules(tier)
    other = ("other", "python", {"o.py": "def zz(a):\n    return a + 1\nprint(zz(2))\n"})
    jobs, meta = [], []
    for name, lang, files in projs:
        for tag, hs, loc, before, flags in sch:
            d = os.path.join(root, name, tag, loc)
            job = dict(cmd="run", lang=lang, files=files, dir=d, hashseed=hs, flags=flags, export=[], keep_ws=True, timeout=900,
                       post_hook="c14_digest")
            if name in INPUTS:
                job["in_paths"] = [os.path.join(d, "in", x) for x in INPUTS[name]]
            if before == "same_ws":
                jobs.append(dict(cmd="run", lang="javascript", files={"o.js": "function zz(a) {\n    return a + 1;\n}\nvar r = zz(2);\n"}, dir=d, hashseed=hs,
                                 export=[], keep_ws=True, timeout=600))
                meta.append(None)
            elif before:
                # another project is analysed first, in its own process and workspace, on the same machine
                jobs.append(dict(cmd="run", lang=other[1], files=other[2], dir=os.path.join(root, name, tag, "other"), hashseed=hs,
                                 export=[], timeout=600))
                meta.append(None)
            jobs.append(job)
            meta.append((name, tag, "p2" if flags else "p3"))
    # runs of one project must not overlap with its "before" run: lian_batch keeps job order per worker only, so run the
    # "other" jobs first, then the real ones
    first = [j for j, m in zip(jobs, meta) if m is None]
    rest = [(j, m) for j, m in zip(jobs, meta) if m is not None]
    C.lian_batch(first)
    res = C.lian_batch([j for j, _ in rest])
    runs, digests = [], {}
    for (job, m), r in zip(rest, res):
        name, tag, mode = m
        if r.get("post") is None and r.get("exit") not in ("ok", None, "TIMEOUT") and not str(r.get("exit")).startswith("CHILD"):
            # lian itself ended with an exception: the way it ended is the (deterministic or not) outcome to compare
            digests[(name, tag)] = dict(exit=r["exit"] + ":" + (r.get("traceback") or "").strip().splitlines()[-1][:120], files={}, mode=mode, console="")
            continue
        if r.get("post") is None:
            v.machinery_failure("no digest for %s/%s: exit=%s %s" % (name, tag, r.get("exit"), (r.get("post_error") or r.get("traceback") or "")[-500:]))
            continue
        post = r["post"]
        digests[(name, tag)] = dict(exit=r["exit"], files=post["files"], mode=mode, console=post["console_digest"])
        rr = post["run"]
        rr["name"] = "%s/%s" % (name, tag)
        runs.append(rr)
    # (1) id discipline of every run
    tf = os.path.join(root, "runs.json")
    with open(tf, "w") as f:
        json.dump({"runs": runs}, f)
    r = C.tlc("Pipeline", "Pipeline.cfg", env={"TRACE_FILE": tf}, workers=1, timeout=1200)
    n_bad = 0
    if r.error or r.violation:
        v.machinery_failure("Pipeline run failed: %s" % (r.error or r.violation)[:1500])
    else:
        for line in r.printed:
            b = json.loads(line)
            n_bad += 1
            v.violation("id_discipline:%s:%s" % (b["clause"], b["run"].split("/")[0]), b)
    # (2) equality across schedules
    n_cmp = 0
    diffs = []
    for name, lang, files in projs:
        for mode in ("p3", "p2"):
            tags = [t for t in [s[0] for s in sch] if (name, t) in digests and digests[(name, t)]["mode"] == mode]
            if not tags:
                continue
            base = digests[(name, tags[0])]
            for t in tags[1:]:
                cur = digests[(name, t)]
                n_cmp += 1
                if cur["exit"] != base["exit"]:
                    diffs.append((name, t, "exit", base["exit"], cur["exit"]))
                    continue
                names = sorted(set(base["files"]) | set(cur["files"]))
                for fn in names:
                    if base["files"].get(fn) != cur["files"].get(fn):
                        diffs.append((name, t, fn, base["files"].get(fn), cur["files"].get(fn)))
                if cur["console"] != base["console"]:
                    diffs.append((name, t, "<console: order of analysed methods>", base["console"], cur["console"]))
    for name, t, fn, a, b in diffs:
        n_bad += 1
        kind = "seed" if t.startswith("seed") or t.startswith("p2_seed") else ("location" if "loc" in t else t)
        v.violation("output_differs:%s:%s:%s" % (name, kind, fn), {"project": name, "schedule": t, "file": fn, "base": a, "this": b})
    rc = v.finish()
    nfiles = sum(len(d["files"]) for d in digests.values())
    cov = {
        "evaluations": len(rest), "distinct_nontrivial": len(digests),
        "rule": "one evaluation = one full lian run (lang, semantic, taint) of a fixed project under one schedule, in its own process; "
                "non-trivial = the run ended ok and produced output files; all normalised output files are compared with the base schedule",
        "samples": [{"project": n, "schedule": t, "files": len(d["files"]), "exit": d["exit"]} for (n, t), d in list(digests.items())[:3]],
        "projects": [p[0] for p in projs], "schedules": [s[0] for s in sch], "comparisons": n_cmp, "files_compared": nfiles,
        "pipeline_spec_states": r.distinct, "runs_validated_by_Pipeline_tla": len(runs),
        "differences": len(diffs), "known_findings_hit": {k: len(x) for k, x in v.hits.items()}, "repo": C.repo_head(),
    }
    C.write_evidence(PID, tier, seed, "exploration", cov, time.time() - t0, violations=len(v.unlisted),
                     assumptions=["schedules are a fixed finite set (hash seeds 0-4, two workspace locations, another project analysed before, repetitions); "
                                  "iteration orders that CPython does not exhibit for these seeds are not explored",
                                  "directory scan order is that of this file system", "the embedded workspace path is replaced before comparing"])
    print("C14: %d projects x %d schedules, %d runs, %d files compared, %d Pipeline states, %d differences, %.1fs" % (
        len(projs), len(sch), len(rest), nfiles, r.distinct, n_bad, time.time() - t0))
    shutil.rmtree(root, ignore_errors=True)
    return rc


def replay(path):
    print(json.dumps(json.load(open(path))["replay"], indent=1)[:3000])
    print("re-run: ./check C14 --tier quick")
    return 0
