"""C06 — reaching definitions are sound and flow-sensitive.

Soundness: GIRControl.tla (check = "rd", loops <= 1 iteration) carries the last executed definition of every variable
along every path of the GIR semantics and requires it to be among the definitions lian treats as reaching each use.
Precision: ReachingDefs.tla computes the classical solution over lian's own CFG; lian's set must be contained in it, and
equal to it on loop-free methods.
"""
import concurrent.futures as cf
import json
import os
import random
import shutil
import time

import common as C
import girjson as G
import skeleton as S

PID = "C06"
KINDS = {"d:ax", "d:yx", "d:ux", "d:uy", "d:inc", "if", "while", "forin", "break", "continue", "return"}
# a parameter re-assigned on some paths and then used; a conditional expression (a temporary assigned in two arms)
KINDS_EXTRA = {"d:ac", "d:yc", "d:cond", "d:ux", "d:yx", "if", "return"}
# an arm that only holds `pass`: definitions made before the branch reach the join through a statement that defines and uses nothing
KINDS_PASS = {"d:ax", "d:yx", "d:ux", "d:pass", "if", "return"}
PER_UNIT = 120
CASES_PER_TLC = 800


def universe(tier, seed):
    rng = random.Random(seed)
    small = S.enumerate_methods(3, 3, KINDS)
    nxt = [b for b in S.enumerate_methods(4, 3, KINDS) if S.size_of_body(b) == 4]
    extra = [b for b in S.enumerate_methods(4, 2, KINDS_EXTRA) if {"d:ac", "d:yc", "d:cond"} & {"d:" + st[1] for st in _flat(b) if st[0] == "d"}]
    passes = [b for b in S.enumerate_methods(4, 2, KINDS_PASS) if "d:pass" in {"d:" + st[1] for st in _flat(b) if st[0] == "d"}]
    if tier == "quick":
        return small + extra + rng.sample(passes, min(len(passes), 400)) + rng.sample(nxt, 500)
    small = small + extra + passes
    five = [b for b in S.enumerate_methods(5, 2, {"d:ax", "d:yx", "d:ux", "if", "while", "break", "continue"}) if S.size_of_body(b) == 5]
    return small + nxt + rng.sample(five, min(len(five), 4000))


def _flat(body):
    out = []
    for st in body:
        out.append(st)
        for part in st[1:]:
            if isinstance(part, list):
                out += _flat(part)
    return out


def build_jobs(bodies, root):
    r = S.Py()
    r.data_mode = True
    jobs = []
    for k in range(0, len(bodies), PER_UNIT):
        chunk = bodies[k:k + PER_UNIT]
        text, names = S.render_unit(r, chunk, prefix="m%04d_" % (k // PER_UNIT))
        entry = "- method_list: [%s]\n" % ", ".join('"%s"' % n for n in names)
        jname = "py_%05d" % k
        jobs.append(dict(cmd="semantic", lang="python", files={"u.py": text}, dir=os.path.join(root, jname),
                         export=["gir", "cfg", "stmt_status_p3"], flags=["--nomock"], settings={"entry.yaml": entry}, timeout=1800,
                         pre_hook="rdtrace", post_hook="rdtrace",
                         _r=r, _meta=dict(zip(names, chunk)), _name=jname))
    return jobs


def def_name(row):
    if row is None:
        return None
    op = row.get("operation")
    if op in ("parameter_decl", "variable_decl", "forin_stmt", "for_value_stmt"):
        return row.get("name")
    return row.get("target")


def cases_of(job, res):
    r = job["_r"]
    gir = res["exports"].get("gir") or []
    cfg = res["exports"].get("cfg") or []
    status = res["exports"].get("stmt_status_p3") or []
    by_id = {x.get("stmt_id"): x for x in gir if x.get("operation") not in ("block_start", "block_end")}
    edges = {}
    for e in cfg:
        edges.setdefault(e.get("method_id"), []).append([G.as_int(e.get("src_stmt_id")), G.as_int(e.get("dst_stmt_id"))])
    rd = {}
    for st in status:
        sid = st.get("stmt_id")
        try:
            bits = json.loads(st.get("in_symbol_bits") or "[]")
        except ValueError:
            bits = []
        lst = rd.setdefault(sid, [])
        for b in bits:
            nm = def_name(by_id.get(b.get("stmt_id")))
            if nm is not None:
                pair = [str(nm), int(b.get("stmt_id"))]
                if pair not in lst:
                    lst.append(pair)
    # What every consumer is handed as "the definitions reaching this use" (recorded at check_reachable_symbol_defs): when a statement's
    # use of a name was recorded, that set replaces the name-matched in-bits for that name (the bits do not tell which symbol a name denotes).
    recorded = {}
    for sid, name, defs in (res.get("post") or {}).get("rd", []):
        recorded.setdefault(sid, {})[name] = defs
    for sid, per_name in recorded.items():
        lst = [p for p in rd.get(sid, []) if p[0] not in per_name]
        for name, defs in per_name.items():
            # a name that is not defined in the method (a callee, a global) comes back as a pseudo-definition at the using statement itself
            lst += [[name, d] for d in defs if not (d == sid and def_name(by_id.get(sid)) != name)]
        rd[sid] = lst
    out = []
    for uid, rows in G.units_of(gir):
        for decl, sl in G.method_slices(rows):
            nm = str(decl.get("name"))
            if nm not in job["_meta"]:
                continue
            mid = decl.get("stmt_id")
            body = job["_meta"][nm]
            ids = {x.get("stmt_id") for x in sl}
            feats = S.features(body)
            case = {"name": "%s/%s" % (job["_name"], nm), "lang": r.name, "method": mid, "rows": [G.norm_row(x) for x in sl],
                    "cfg": edges.get(mid, []), "fallthrough": r.fallthrough, "switch_break": r.switch_break, "raise_mode": "none",
                    "check": "rd", "loop_bound": 1, "rd": {str(k): v for k, v in rd.items() if k in ids},
                    "loopfree": not (feats & {"while", "forin", "for", "dowhile", "whileelse"}),
                    "analysed": any(k in ids for k in rd), "skeleton": json.dumps(body), "source": r.method(nm, body)}
            out.append(case)
    return out


def run_tlc(cases, root, v, module, tag):
    files = []
    for k in range(0, len(cases), CASES_PER_TLC):
        p = os.path.join(root, "cases_%s_%04d.json" % (tag, k))
        with open(p, "w") as f:
            json.dump({"cases": cases[k:k + CASES_PER_TLC]}, f)
        files.append(p)

    def one(p):
        return p, C.tlc(module, module + ".cfg", name="c06_%s_%s" % (tag, os.path.basename(p)), env={"CASES": p}, workers=2,
                        timeout=3000, heap="6g")

    tot = dict(states=0, transitions=0, bad=[])
    with cf.ThreadPoolExecutor(max_workers=8) as ex:
        for p, r in ex.map(one, files):
            if r.error or r.violation:
                v.machinery_failure("%s run failed on %s: %s" % (module, p, (r.error or r.violation)[:1500]))
                continue
            tot["states"] += r.distinct
            tot["transitions"] += r.generated
            tot["bad"] += [json.loads(x) for x in r.printed]
    return tot


def run(tier, seed):
    t0 = time.time()
    v = C.Verdict(PID)
    root = C.scratch("c06")
    bodies = universe(tier, seed)
    jobs = build_jobs(bodies, root)
    res = C.lian_batch(jobs)
    cases = []
    for job, r in zip(jobs, res):
        if r["exit"] != "ok":
            v.violation("lian_failed:%s" % r["exit"], {"job": job["_name"], "exit": r["exit"], "traceback": (r.get("traceback") or "")[-800:]})
            continue
        cases += cases_of(job, r)
    not_analysed = [c for c in cases if not c["analysed"]]
    cases = [c for c in cases if c["analysed"]]
    if len(not_analysed) > len(cases) // 10:
        v.machinery_failure("%d of %d generated methods have no reaching-definition result (entry rules not applied?)" % (
            len(not_analysed), len(cases) + len(not_analysed)))
    t1 = run_tlc(cases, root, v, "GIRControl", "sound")
    t2 = run_tlc(cases, root, v, "ReachingDefs", "prec")
    by_name = {c["name"]: c for c in cases}
    for b in t1["bad"]:
        c = by_name[b["case"]]
        sig = "%s:%s:%s" % (b["clause"], "loop" if not c["loopfree"] else "loopfree", b.get("useop", ""))
        v.violation(sig, {"case": b["case"], "detail": b, "source": c["source"], "skeleton": c["skeleton"], "rd": c["rd"]})
    for b in t2["bad"]:
        c = by_name[b["case"]]
        sig = "%s:%s:%s" % (b["clause"], "loop" if not c["loopfree"] else "loopfree", b.get("op", ""))
        v.violation(sig, {"case": b["case"], "detail": b, "source": c["source"], "skeleton": c["skeleton"], "rd": c["rd"], "cfg": c["cfg"]})
    rc = v.finish(max_print=30)
    cov = {
        "states": t1["states"] + t2["states"], "transitions": t1["transitions"] + t2["transitions"],
        "traces_validated_against_impl": len(cases),
        "samples": [{"case": c["name"], "source": c["source"], "rd": dict(list(c["rd"].items())[:4])} for c in cases[:2]],
        "methods": len(cases), "loop_free_methods": sum(1 for c in cases if c["loopfree"]), "methods_without_result": len(not_analysed),
        "soundness_states": t1["states"], "precision_states": t2["states"], "violating": len(t1["bad"]) + len(t2["bad"]),
        "known_findings_hit": {k: len(x) for k, x in v.hits.items()}, "repo": C.repo_head(), "exhaustive": False, "loop_bound": 1,
        "rule": "a case = one generated python method analysed by lian as an entry point: its GIR rows, lian's CFG and lian's in_symbol_bits "
                "(stmt_status_p3); every path with each loop body run at most once is walked by TLC",
    }
    C.write_evidence(PID, tier, seed, "model_checking", cov, time.time() - t0, violations=len(v.unlisted),
                     assumptions=["a definition is identified by (variable name, defining statement); generated methods use distinct names per scope",
                                  "declarations (parameter_decl, variable_decl) count as definitions, as in lian's bit vectors",
                                  "what lian treats as reaching = in_symbol_bits of the entry context in stmt_status_p3"])
    print("C06: %d methods (%d loop-free), %d TLC states, %d violating, %.1fs" % (
        len(cases), cov["loop_free_methods"], cov["states"], cov["violating"], time.time() - t0))
    shutil.rmtree(root, ignore_errors=True)
    return rc


def replay(path):
    import c04
    with open(path) as f:
        doc = json.load(f)["replay"]
    body = c04._tuplify(json.loads(doc["skeleton"]))
    root = C.scratch("c06_replay")
    jobs = build_jobs([body], root)
    res = C.lian_batch(jobs)
    cases = cases_of(jobs[0], res[0])
    print(cases[0]["source"])
    print("rd:", json.dumps(cases[0]["rd"]))
    v = C.Verdict(PID)
    for mod, tag in (("GIRControl", "sound"), ("ReachingDefs", "prec")):
        t = run_tlc(cases, root, v, mod, tag)
        for b in t["bad"]:
            print(b)
            v.violation("%s:%s:%s" % (b["clause"], "loop" if not cases[0]["loopfree"] else "loopfree", b.get("useop", b.get("op", ""))), b)
    return v.finish()
