"""C15 driver: real loader classes through history trees (save/get/export/export_indexing/restore).

usage: drive_c15.py <out_dir> <tier> <seed>   |   drive_c15.py --replay <history.json>
Each tree belongs to one configuration: loader family x item-cache capacity x bundle-cache capacity x MAX_ROWS.
Contents are tokens 0..2 (= number of rows); the driver builds family-specific items from them and maps what the
loader returns back to a token (9 = something that was never saved under that id).
"""
import builtins
import contextlib
import io
import json
import multiprocessing as mp
import os
import random
import shutil
import sys
import tempfile
import warnings
from types import SimpleNamespace

if not hasattr(builtins, "profile"):
    builtins.profile = lambda f: f
warnings.filterwarnings("ignore")

import networkx as nx  # noqa: E402
import pandas as pd  # noqa: E402
from lian.config import config, schema  # noqa: E402
from lian.util import loader as L  # noqa: E402
from lian.util.data_model import DataModel  # noqa: E402
from tree import Forest, merge  # noqa: E402

OPTIONS = SimpleNamespace(workspace="", debug=False)


# ---------------------------------------------------------------- families
def unit_item(i, c):
    return [{"unit_id": i, "stmt_id": 10 * i + k, "v": c} for k in range(c)]


def unit_token(i, got):
    if got is None or (isinstance(got, list) and not got):
        return 0
    if isinstance(got, DataModel):
        rows = sorted((int(r.stmt_id), int(r.v)) for r in got)
    else:
        return 9
    if not rows:
        return 0
    for c in (1, 2):
        if rows == sorted((10 * i + k, c) for k in range(c)):
            return c
    return 9


def unit_item_foreign(i, c):
    """rows that already carry a unit_id of their own (the other item's id, or the dataclass default -1): what revived Scope rows look like"""
    return [{"unit_id": (3 - i if k == 0 else -1), "stmt_id": 10 * i + k, "v": c} for k in range(c)]


def cfg_item(i, c):
    g = nx.DiGraph()
    for k in range(c):
        g.add_edge(10 * i + k, 10 * i + k + 1, weight=c)
    return g


def cfg_token(i, got):
    if got is None or (isinstance(got, list) and not got):
        return 0
    if not isinstance(got, nx.DiGraph):
        return 9
    edges = sorted((int(a), int(b), int(w)) for a, b, w in got.edges(data="weight", default=0))
    if not edges:
        return 0
    for c in (1, 2):
        if edges == sorted((10 * i + k, 10 * i + k + 1, c) for k in range(c)):
            return c
    return 9


FAMILIES = {
    "unit": dict(cls=lambda p, ic, bc: L.ScopeHierarchyLoader(OPTIONS, [], p, ic, bc), item=unit_item, token=unit_token,
                 puts_bundle=True, key="unit_id"),
    "gir": dict(cls=lambda p, ic, bc: L.UnitGIRLoader(OPTIONS, [], p, ic, bc), item=unit_item, token=unit_token,
                puts_bundle=False, key="unit_id"),
    "unitx": dict(cls=lambda p, ic, bc: L.ScopeHierarchyLoader(OPTIONS, [], p, ic, bc), item=unit_item_foreign, token=unit_token,
                  puts_bundle=True, key="unit_id"),
    "girx": dict(cls=lambda p, ic, bc: L.UnitGIRLoader(OPTIONS, [], p, ic, bc), item=unit_item_foreign, token=unit_token,
                 puts_bundle=False, key="unit_id"),
    "cfg": dict(cls=lambda p, ic, bc: L.CFGLoader(OPTIONS, schema.control_flow_graph_schema, p, ic, bc), item=cfg_item,
                token=cfg_token, puts_bundle=True, key="method_id"),
}


# ---------------------------------------------------------------- projection
def lru_keys(lru):
    out = []
    node = lru.head.next
    while node is not lru.tail and node is not None:
        out.append(int(node._id))
        node = node.next
    return out


def project(ld, fam, path):
    files = {}
    d = os.path.dirname(path)
    stem = os.path.basename(path)
    for name in sorted(os.listdir(d)):
        if name.startswith(stem + ".bundle"):
            b = int(name[len(stem) + 7:])
            df = pd.read_feather(os.path.join(d, name))
            col = FAMILIES[fam]["key"]
            files[str(b)] = {str(int(k)): int(v) for k, v in df[col].value_counts().items()} if col in df.columns else {}
    return {
        "item_lru": lru_keys(ld.item_cache),
        "bundle_lru": lru_keys(ld.bundle_cache),
        "active": {str(int(k)): len(v.flattened_item) for k, v in ld.active_bundle.items()},
        "active_len": int(ld.active_bundle_length),
        "index": {str(int(k)): int(v) for k, v in ld.item_id_to_bundle_id.items()},
        "count": int(ld.bundle_count),
        "files": files,
        "index_file": os.path.exists(ld.loader_indexing_path),
    }


class Session:
    def __init__(self, cfgd):
        self.c = cfgd
        self.fam = FAMILIES[cfgd["family"]]
        self.dir = tempfile.mkdtemp(prefix="c15_", dir=cfgd["scratch"])
        self.path = os.path.join(self.dir, "items")
        config.MAX_ROWS = cfgd["max_rows"]
        self.ld = self.fam["cls"](self.path, cfgd["item_cap"], cfgd["bundle_cap"])
        self.dirty_data = False
        self.dirty_index = False

    def close(self):
        shutil.rmtree(self.dir, ignore_errors=True)

    def enabled(self, o):
        if o["op"] == "restore":
            return not self.dirty_data and not self.dirty_index and os.path.exists(self.ld.loader_indexing_path)
        return True

    def apply(self, o):
        op = o["op"]
        res, crash = 0, ""
        out = io.StringIO()
        try:
            with contextlib.redirect_stdout(out), contextlib.redirect_stderr(out):
                if op == "save":
                    self.ld.save(o["id"], self.fam["item"](o["id"], o["c"]))
                    self.dirty_data = self.dirty_index = True
                elif op == "get":
                    res = self.fam["token"](o["id"], self.ld.get_item_by_id(o["id"]))
                elif op == "export":
                    self.ld.export()
                    self.dirty_data = False
                elif op == "export_indexing":
                    self.ld.export_indexing()
                    self.dirty_index = self.dirty_data
                elif op == "restore":
                    self.ld = self.fam["cls"](self.path, self.c["item_cap"], self.c["bundle_cap"])
                    self.ld.restore_indexing()
                else:
                    raise ValueError(op)
        except BaseException as e:  # noqa
            crash = type(e).__name__
        ev = dict(o)
        ev["res"] = res
        ev["crash"] = crash
        ev["printed"] = bool(out.getvalue().strip())
        ev["proj"] = project(self.ld, self.c["family"], self.path)
        return ev


def ops_for(ids, contents):
    ops = [{"op": "save", "id": i, "c": c} for i in ids for c in contents]
    ops += [{"op": "get", "id": i} for i in ids]
    ops += [{"op": "export"}, {"op": "export_indexing"}, {"op": "restore"}]
    return ops


def closing(ids):
    """the closing suffix: whatever happened before, after export + export_indexing a fresh loader must return the latest content of every id"""
    return [{"op": "export"}, {"op": "export_indexing"}, {"op": "restore"}] + [{"op": "get", "id": i} for i in ids]


def close_history(forest, s, parent, d, ids):
    for o in closing(ids):
        if not s.enabled(o):
            return
        d += 1
        parent = forest.add(parent, s.apply(o), d)


def subtree(args):
    cfgd, first_i, first, depth, ids, out_dir = args
    forest = Forest(out_dir, "c15_%s_%03d" % (cfgd["tag"], first_i), max_nodes=10 ** 9, meta={"config": {k: v for k, v in cfgd.items() if k != "scratch"}})
    ops = ops_for(ids, [0, 1, 2])

    def replay(hist):
        s = Session(cfgd)
        for o in hist:
            s.apply(o)
        return s

    def rec(parent, hist, d):
        for o in ops:
            s = replay(hist)
            try:
                if not s.enabled(o):
                    continue
                ev = s.apply(o)
                k = forest.add(parent, ev, d)
                if d >= depth:
                    forest.leaves += 1
                    if any(x["op"] == "save" for x in hist + [o]):
                        close_history(forest, s, k, d, ids)
            finally:
                s.close()
            if d < depth:
                rec(k, hist + [o], d + 1)

    s = Session(cfgd)
    try:
        if not s.enabled(first):
            return [], 0, 0, 0
        ev = s.apply(first)
    finally:
        s.close()
    k = forest.add(0, ev, 1)
    if depth > 1:
        rec(k, [first], 2)
    else:
        forest.leaves += 1
    forest.flush()
    return forest.files, forest.total, forest.leaves, forest.maxdepth


def chain_job(args):
    cfgd, count, length, seed, out_dir = args
    rng = random.Random(seed)
    forest = Forest(out_dir, "c15_%s_chain" % cfgd["tag"], max_nodes=10 ** 9, meta={"config": {k: v for k, v in cfgd.items() if k != "scratch"}})
    ops = ops_for([1, 2, 3], [0, 1, 2])
    for _ in range(count):
        s = Session(cfgd)
        parent = 0
        try:
            for d in range(1, length + 1):
                cand = [o for o in ops if s.enabled(o)]
                # bias towards get-after-save and restore when possible
                o = rng.choice(cand)
                if rng.random() < 0.3:
                    r = [x for x in cand if x["op"] == "restore"]
                    if r:
                        o = r[0]
                ev = s.apply(o)
                parent = forest.add(parent, ev, d)
            close_history(forest, s, parent, length, [1, 2, 3])
        finally:
            s.close()
        forest.leaves += 1
    forest.flush()
    return forest.files, forest.total, forest.leaves, forest.maxdepth


def rounds_job(args):
    """Round-structured histories: (saves; export; [export_indexing; [restore]]; get every id) x n_rounds, exhaustively.
    These reach what short unstructured histories cannot: second export rounds, unreferenced bundles, work after a restore."""
    cfgd, n_rounds, out_dir, first = args
    forest = Forest(out_dir, "c15_%s_rounds%02d" % (cfgd["tag"], first), max_nodes=10 ** 9, meta={"config": {k: v for k, v in cfgd.items() if k != "scratch"}})
    save_sets = [[(1, a)] * (a is not None) + [(2, b)] * (b is not None) for a in (None, 1, 2) for b in (None, 1)]
    tails = [[], ["export_indexing"], ["export_indexing", "restore"]]
    choices = []
    for ss in save_sets:
        for tl in tails:
            ops = [{"op": "save", "id": i, "c": c} for i, c in ss] + [{"op": "export"}] + [{"op": t} for t in tl] \
                + [{"op": "get", "id": 1}, {"op": "get", "id": 2}]
            choices.append(ops)

    def rec(parent, hist, depth, r):
        for ci, ops in enumerate(choices):
            if r == 1 and ci != first:
                continue
            s = Session(cfgd)
            try:
                for o in hist:
                    s.apply(o)
                k, d, ok = parent, depth, True
                for o in ops:
                    if not s.enabled(o):
                        ok = False
                        break
                    d += 1
                    k = forest.add(k, s.apply(o), d)
            finally:
                s.close()
            if not ok:
                continue
            if r < n_rounds:
                rec(k, hist + ops, d, r + 1)
            else:
                forest.leaves += 1

    rec(0, [], 0, 1)
    forest.flush()
    return forest.files, forest.total, forest.leaves, forest.maxdepth


def write_failure_probe(scratch):
    """A bundle that cannot be serialised (a column mixing str and number): the failed write must be reported."""
    out = []
    for fam in ("unit", "gir"):
        cfgd = dict(family=fam, item_cap=2, bundle_cap=2, max_rows=100, scratch=scratch, tag="wf")
        s = Session(cfgd)
        try:
            buf = io.StringIO()
            raised = ""
            with contextlib.redirect_stdout(buf), contextlib.redirect_stderr(buf):
                s.ld.save(1, [{"unit_id": 1, "stmt_id": 10, "v": "text"}, {"unit_id": 1, "stmt_id": 11, "v": 3.5}])
                try:
                    s.ld.export()
                except BaseException as e:  # noqa
                    raised = type(e).__name__
            written = os.path.exists(s.path + ".bundle0")
            out.append({"family": fam, "written": written, "raised": raised, "printed": bool(buf.getvalue().strip()),
                        "message": buf.getvalue().strip()[:200]})
        finally:
            s.close()
    return out


def configs(tier, scratch):
    out = []
    if tier == "quick":
        grid = [("unit", 1, 1, 1), ("unit", 2, 1, 2), ("cfg", 1, 2, 3), ("gir", 1, 1, 2), ("unitx", 1, 1, 2)]
    elif tier == "rounds_quick":
        grid = [("gir", 1, 1, 2), ("cfg", 1, 1, 3)]
    elif tier == "rounds_thorough":
        grid = [(f, ic, bc, mr) for f in ("unit", "cfg", "gir") for ic, bc, mr in ((1, 1, 2), (2, 2, 3), (1, 2, 1))]
    else:
        grid = [(f, ic, bc, mr) for f in ("unit", "cfg", "gir") for ic in (1, 2) for bc in (1, 2) for mr in (1, 2, 3)] + [("unitx", 1, 1, 2), ("girx", 1, 2, 2), ("unitx", 2, 1, 3)]
    for f, ic, bc, mr in grid:
        out.append(dict(family=f, item_cap=ic, bundle_cap=bc, max_rows=mr, scratch=scratch,
                        puts_bundle=FAMILIES[f]["puts_bundle"], tag="%s_i%d_b%d_m%d" % (f, ic, bc, mr)))
    return out


def main():
    out_dir, tier, seed = sys.argv[1], sys.argv[2], int(sys.argv[3])
    scratch = os.path.join(out_dir, "scratch")
    if os.path.isdir("/dev/shm") and os.access("/dev/shm", os.W_OK):
        scratch = tempfile.mkdtemp(prefix="lian_c15_", dir="/dev/shm")     # bundle files are written and read back thousands of times
    os.makedirs(scratch, exist_ok=True)
    depth = 4 if tier == "quick" else 5
    ids = [1, 2]
    jobs, chain_jobs, fam = [], [], []
    for cfgd in configs(tier, scratch):
        firsts = ops_for(ids, [0, 1, 2])
        # thorough: the deepest trees for the tightest capacities (every eviction happens there), one level less for the rest of the grid
        d_here = depth if tier == "quick" or (cfgd["item_cap"] == 1 and cfgd["bundle_cap"] == 1) else depth - 1
        for i, o in enumerate(firsts):
            jobs.append((cfgd, i, o, d_here, ids, out_dir))
        chain_jobs.append((cfgd, 40 if tier == "quick" else 150, 12 if tier == "quick" else 16, seed * 1000 + len(chain_jobs), out_dir))
        fam.append({"config": cfgd["tag"], "depth": d_here, "ids": ids, "exhaustive": True})
    # one configuration with three ids (LRU eviction orders need a third item)
    cfg3 = dict(family="unit", item_cap=2, bundle_cap=1, max_rows=2, scratch=scratch, puts_bundle=True, tag="unit3_i2_b1_m2")
    d3 = 3 if tier == "quick" else 4
    for i, o in enumerate(ops_for([1, 2, 3], [0, 1, 2])):
        jobs.append((cfg3, i, o, d3, [1, 2, 3], out_dir))
    fam.append({"config": cfg3["tag"], "depth": d3, "ids": [1, 2, 3], "exhaustive": True})
    round_jobs = [(c, 3, out_dir, first) for c in configs("rounds_" + tier, scratch) for first in range(18)]
    fam.append({"rounds": 3, "configs": sorted({c[0]["tag"] for c in round_jobs}), "exhaustive": True,
                "round": "saves of {id1: none|1|2 rows} x {id2: none|1 row}; export; [export_indexing; [restore]]; get 1; get 2"})
    files, total, leaves, maxd = [], 0, 0, 0
    with mp.Pool(min(16, mp.cpu_count())) as pool:
        for fs, t, l, m in pool.imap_unordered(rounds_job, round_jobs):
            files += fs
            total += t
            leaves += l
            maxd = max(maxd, m)
        for fs, t, l, m in pool.imap_unordered(subtree, jobs):
            files += fs
            total += t
            leaves += l
            maxd = max(maxd, m)
        for fs, t, l, m in pool.imap_unordered(chain_job, chain_jobs):
            files += fs
            total += t
            leaves += l
            maxd = max(maxd, m)
    fam.append({"chains_per_config": chain_jobs[0][1], "length": chain_jobs[0][2], "ids": [1, 2, 3], "seeded": True})
    files = merge(files, out_dir, "c15", max_nodes=30000, same_key="config")
    probe = write_failure_probe(scratch)
    shutil.rmtree(scratch, ignore_errors=True)
    print(json.dumps({"files": files, "nodes": total, "leaves": leaves, "maxdepth": maxd, "families": fam, "write_failure_probe": probe}))


if __name__ == "__main__":
    if sys.argv[1] == "--replay":
        doc = json.load(open(sys.argv[2]))
        cfgd = dict(doc["config"])
        cfgd["scratch"] = tempfile.mkdtemp(prefix="c15r_")
        s = Session(cfgd)
        evs = []
        for o in doc["history"]:
            evs.append(s.apply({k: v for k, v in o.items() if k in ("op", "id", "c")}))
        s.close()
        shutil.rmtree(cfgd["scratch"], ignore_errors=True)
        print(json.dumps(evs))
    else:
        main()
