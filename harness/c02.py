"""C02 — the same program written in any supported language lowers to equivalent GIR.

Core-language programs (coregen.py) are rendered in python, javascript, typescript, java, c, go and php; each rendering goes through
the real frontend and GIRMachine.tla executes the emitted rows under the one common semantics.  The outputs must equal those of
the program's reference semantics (its Python rendering under CPython).  A row the common semantics cannot execute (operation or
operand column outside the shared instruction set) leaves the machine stuck and is reported with the operation's name.
"""
import concurrent.futures as cf
import json
import os
import shutil
import time

import c01
import common as C
import coregen as K
import girjson as G

PID = "C02"
CASES_PER_TLC = 60


def universe(tier, seed):
    progs = [("core:" + n, d) for n, d in K.CORE_CONSTRUCTS.items()]
    n = 40 if tier == "quick" else 400
    start = 0 if tier == "thorough" else (seed % 10) * 40
    progs += [("cgen:%05d" % i, K.CoreGen(i).program()) for i in range(start, start + n)]
    return progs


def declared(defs, explicit):
    """{(function, variable): number of declaring statements}; languages without declarations get one synthesised row per variable"""
    out = {}

    def walk(fn, b):
        for st in b:
            if st[0] in ("let", "lets", "arr", "rec", "ford"):
                out[(fn, st[1])] = out.get((fn, st[1]), 0) + 1
            for part in st[1:]:
                if isinstance(part, list) and part and isinstance(part[0], tuple):
                    walk(fn, part)
    for fn, params, body in defs:
        walk(fn, body)
    return out if explicit else {k: 1 for k in out}


def decl_rows(rows):
    """{(enclosing method name, variable): number of variable_decl rows}"""
    by_id = {r["id"]: r for r in rows}
    out = {}
    for r in rows:
        if r["op"] != "variable_decl":
            continue
        p, fn, hops = r["parent"], None, 0
        while p and hops < 64:
            q = by_id.get(p)
            if q is None:
                break
            if q["op"] == "method_decl":
                fn = q["name"]
                break
            p, hops = q["parent"], hops + 1
        if fn:
            out[(fn, r["name"])] = out.get((fn, r["name"]), 0) + 1
    return out


def shape(rows):
    """the rows of a unit with statement ids relative to the unit's first row: what must not depend on the other files of the workspace"""
    if not rows:
        return []
    base = rows[0]["id"]
    idf = ("id", "parent") + G.INT_FIELDS
    out = []
    for r in rows:
        out.append({k: ((x - base if x > 0 else x) if k in idf else x) for k, x in sorted(r.items()) if not k.endswith("_tok") and not k.endswith("_toks")})
    return out


def run(tier, seed):
    t0 = time.time()
    v = C.Verdict(PID)
    root = C.scratch("c02")
    progs = universe(tier, seed)
    py = K.RENDERERS[0]
    # reference: the python rendering with out() recording
    def render(r, name, defs):
        r.natural = name.endswith("_natural") or name.endswith("constants_only")
        try:
            return r.program(defs)
        finally:
            r.natural = False
    ref_progs = [(name, render(py, name, defs).replace("out(", "print(")) for name, defs in progs]
    ref = c01.reference(ref_progs, root)
    ok = [(n, d) for n, d in progs if ref[n]["ok"]]
    skipped = len(progs) - len(ok)
    jobs = []
    for r in K.RENDERERS:
        for k in range(0, len(ok), 40):
            files, names = {}, {}
            for i, (name, defs) in enumerate(ok[k:k + 40]):
                files["p%04d%s" % (i, r.ext)] = render(r, name, defs)
                names["p%04d" % i] = name
            jobs.append(dict(cmd="lang", lang=r.name, files=files, dir=os.path.join(root, "%s_%05d" % (r.name, k)), export=["gir", "modules"],
                             flags=["--nomock"], timeout=900, _names=names, _r=r, _files=files))
    # one workspace that holds the renderings of the same programs in all languages, analysed in ONE run (-l with every language)
    multi = ok[:12] if tier == "quick" else ok[:60]
    mfiles, mnames = {}, {}
    for r in K.RENDERERS:
        for i, (name, defs) in enumerate(multi):
            mfiles["m%04d%s" % (i, r.ext)] = render(r, name, defs)
            mnames["m%04d%s" % (i, r.ext)] = (name, r)
    jobs.append(dict(cmd="lang", lang=",".join(r.name for r in K.RENDERERS), files=mfiles, dir=os.path.join(root, "multi"), export=["gir", "modules"],
                     flags=["--nomock"], timeout=900, _names={}, _r=None, _files=mfiles, _multi=mnames))
    res = C.lian_batch(jobs)
    cases, n_multi = [], 0
    for job, rr in zip(jobs, res):
        r = job["_r"]
        if rr["exit"] != "ok":
            v.violation("lian_failed:%s:%s:%s" % (r.name if r else "multi", rr["exit"], (rr.get("traceback") or "").strip().splitlines()[-1][:60] if rr.get("traceback") else ""),
                        {"lang": r.name if r else "multi", "exit": rr["exit"], "traceback": (rr.get("traceback") or "")[-800:]})
            continue
        gir = rr["exports"].get("gir") or []
        mods = {m.get("unit_id"): m for m in (rr["exports"].get("modules") or []) if m.get("unit_id") is not None}
        for uid, rows in G.units_of(gir):
            sym = str(mods.get(uid, {}).get("symbol_name"))
            if job.get("_multi"):
                fn = os.path.basename(str(mods.get(uid, {}).get("original_path") or ""))
                if fn not in job["_multi"]:
                    continue
                name, r = job["_multi"][fn]
                n_multi += 1
                cases.append({"name": "%s@%s+multi" % (name, r.name), "lang": r.name, "rows": [G.machine_row(x) for x in rows], "temps": G.temps_of(rows),
                              "expected": ref[name]["expected"], "start": r.start, "source": "# analysed in one workspace together with the renderings in the other languages\n"
                              + job["_files"][fn], "check": "out", "flows": [], "param_sources": []})
                continue
            name = job["_names"].get(sym)
            if name is None:
                continue
            cases.append({"name": "%s@%s" % (name, r.name), "lang": r.name, "rows": [G.machine_row(x) for x in rows], "temps": G.temps_of(rows),
                          "expected": ref[name]["expected"], "start": r.start, "source": job["_files"][sym + r.ext], "check": "out", "flows": [], "param_sources": []})
    # "no frontend loses a declaration": every declaring statement of the core program has its variable_decl row in the method's GIR
    defs_of = dict(ok)
    n_decl = 0
    for c in cases:
        if c["name"].endswith("+multi"):
            continue
        want = declared(defs_of[c["name"].rsplit("@", 1)[0]], explicit=c["lang"] not in ("python", "php"))
        have = decl_rows(c["rows"])
        for (fn, var), k in sorted(want.items()):
            n_decl += k
            got = have.get((fn, var), 0) + have.get((fn, "$" + var), 0)
            if got < k:
                v.violation("%s:declaration_lost" % c["lang"], {"case": c["name"], "clause": "declaration_lost", "expected": "%d variable_decl row(s) for %s in %s" % (k, var, fn),
                                                               "got": "%d" % got, "source": c["source"]})
                break
    # the GIR of a file must not depend on which other languages are analysed in the same run
    single = {c["name"]: c for c in cases}
    n_same = 0
    for c in list(cases):
        if not c["name"].endswith("+multi"):
            continue
        o = single.get(c["name"][:-6])
        if o is None:
            continue
        a, b = shape(o["rows"]), shape(c["rows"])
        if a == b:
            n_same += 1
            cases.remove(c)          # identical rows: the verdict of the single-language case stands for both
        else:
            k = next((i for i in range(min(len(a), len(b))) if a[i] != b[i]), min(len(a), len(b)))
            v.violation("%s:gir_depends_on_other_languages_in_workspace" % c["lang"],
                        {"case": c["name"], "clause": "gir_depends_on_other_languages_in_workspace", "expected": a[k:k + 2], "got": b[k:k + 2],
                         "rows_alone": len(a), "rows_in_multi_language_workspace": len(b), "source": c["source"]})
            cases.remove(c)
    # every rendering handed to a frontend must come back as a unit with GIR (a frontend that silently emits nothing loses every element)
    have = set(single)
    for job, rr in zip(jobs, res):
        if rr["exit"] != "ok":
            continue
        if job.get("_multi"):
            want = [("%s@%s+multi" % (name, r.name), r.name, fn) for fn, (name, r) in job["_multi"].items()]
        else:
            want = [("%s@%s" % (name, job["_r"].name), job["_r"].name, sym + job["_r"].ext) for sym, name in job["_names"].items()]
        for cname, lang, fn in want:
            if cname not in have:
                v.violation("%s:rendering_without_gir%s" % (lang, ":multi_language_workspace" if job.get("_multi") else ""),
                            {"case": cname, "clause": "rendering_without_gir", "got": None, "expected": None, "source": job["_files"][fn]})
    tot = c01.run_tlc(cases, root, v)
    by_name = {c["name"]: c for c in cases}
    seen = {vd["case"] for vd in tot["verdicts"]}
    missing = [c["name"] for c in cases if c["name"] not in seen]
    if missing and not v.machinery:
        v.machinery_failure("%d cases without a verdict, e.g. %s" % (len(missing), missing[:3]))
    n_bad = 0
    per_lang = {}
    for vd in tot["verdicts"]:
        c = by_name[vd["case"]]
        st = per_lang.setdefault(c["lang"], [0, 0])
        st[0] += 1
        if vd["clause"] in ("", "skipped_overflow"):
            continue
        st[1] += 1
        n_bad += 1
        cl = vd["clause"]
        if cl.startswith("stuck:"):
            cl = "not_executable:" + cl[6:].rstrip("0123456789").rstrip("_")
        v.violation("%s:%s" % (c["lang"], cl), {"case": vd["case"], "clause": vd["clause"], "got": vd.get("got"), "expected": c["expected"],
                                                "source": c["source"]})
    rc = v.finish(max_print=40)
    cov = {
        "programs": len(cases), "disagreements_checked": sum(len(c["expected"]) for c in cases),
        "samples": [{"program": c["name"], "source": c["source"][:500], "expected": c["expected"][:3]} for c in cases[:2]],
        "core_programs": len(ok), "declarations_checked": n_decl, "renderings_in_one_multi_language_workspace": n_multi, "of_them_with_gir_identical_to_the_single_language_run": n_same, "renderings_by_language_total_disagreeing": per_lang, "skipped_by_reference": skipped,
        "tlc_states": tot["states"], "disagreeing_renderings": n_bad, "known_findings_hit": {k: len(x) for k, x in v.hits.items()},
        "repo": C.repo_head(),
    }
    C.write_evidence(PID, tier, seed, "translation_validation", cov, time.time() - t0, violations=len(v.unlisted),
                     assumptions=["reference semantics of a core program = its Python rendering under CPython (C01 ties that rendering to GIR)",
                                  "output goes through an external function out(e), an ordinary call in every language",
                                  "records/objects and strings are not part of the generated core programs yet"])
    print("C02: %d core programs x %d languages = %d renderings, %d TLC states, %d disagreeing, %.1fs" % (
        len(ok), len(K.RENDERERS), len(cases), tot["states"], n_bad, time.time() - t0))
    shutil.rmtree(root, ignore_errors=True)
    return rc


def replay(path):
    with open(path) as f:
        doc = json.load(f)["replay"]
    print(doc["source"])
    print(json.dumps({k: doc[k] for k in ("case", "clause", "got", "expected")})[:2000])
    print("re-run: ./check C02 --tier quick")
    return 0
