"""Pattern A (DESIGN 2.1): contract spec + implementation-shaped spec + trace validation of history trees."""
import concurrent.futures as cf
import json
import os
import time

import common as C
from tree import load_history


def model_check(runs, verdict, neg_controls=()):
    """runs: list of (module, cfg).  Spec-level runs must pass outright.  neg_controls must be violated."""
    stats = []
    with cf.ThreadPoolExecutor(max_workers=4) as ex:
        futs = [(m, c, False, ex.submit(C.tlc, m, c, workers=4, coverage=True)) for m, c in runs]
        futs += [(m, c, True, ex.submit(C.tlc, m, c, workers=4)) for m, c in neg_controls]
        for m, c, neg, f in futs:
            r = f.result()
            d = r.as_dict()
            d.update(module=m, cfg=c, negative_control=neg)
            if r.error:
                verdict.machinery_failure("TLC failed on %s/%s: %s" % (m, c, r.error[:800]))
            elif neg:
                d["violated_as_expected"] = r.violation is not None
                if r.violation is None:
                    verdict.machinery_failure("negative control %s/%s was not violated: the refinement check does not discriminate" % (m, c))
            elif r.violation:
                verdict.machinery_failure("spec-level property violated in %s/%s (the specification does not satisfy the property): %s"
                                          % (m, c, r.violation[:1500]))
            else:
                never = [k for k, v in r.coverage.items() if v[0] == 0 and k.split(".")[1].split("@")[0] not in ("Init", "TraceInit")]
                d["actions_never_taken"] = never
                d["action_counts"] = {k: v[0] for k, v in r.coverage.items()}
            stats.append(d)
    return stats


def validate_forests(files, module, cfg, verdict, sig_fn, workers_per=4, parallel=4, timeout=3600, env_extra=None):
    """files: list of (path, n_nodes).  Returns dict with totals and the verdict lines."""
    tot = dict(states=0, transitions=0, files=len(files), nodes=0, bad=[], drift=[], wall=0.0)

    def one(item):
        path, n = item
        env = {"TRACE_FILE": path}
        if env_extra:
            env.update(env_extra)
        r = C.tlc(module, cfg, name="%s_%s" % (module, os.path.basename(path)), env=env,
                  workers=workers_per, timeout=timeout, heap="6g")
        return path, n, r

    t0 = time.time()
    with cf.ThreadPoolExecutor(max_workers=parallel) as ex:
        for path, n, r in ex.map(one, files):
            if r.error or r.violation:
                verdict.machinery_failure("trace validation run failed on %s: %s" % (path, (r.error or r.violation)[:1500]))
                continue
            tot["states"] += r.distinct
            tot["transitions"] += r.generated
            tot["nodes"] += n
            bad_here = 0
            for line in r.printed:
                try:
                    v = json.loads(line)
                except ValueError:
                    verdict.machinery_failure("unparsable verdict line: %r" % line[:200])
                    continue
                if v.get("clause") == "model_drift":
                    tot["drift"].append(v)
                else:
                    tot["bad"].append(v)
                    bad_here += 1
            if bad_here == 0 and r.distinct != n + 1:
                verdict.machinery_failure("%s: %d nodes logged but %d states reached (tree not fully walked)" % (path, n, r.distinct))
    tot["wall"] = time.time() - t0
    # attribute
    for v in tot["bad"]:
        hist = load_history(v["file"], v["node"])
        sig = sig_fn(v["clause"], hist)
        verdict.violation(sig, {"clause": v["clause"], "history": hist})
    return tot


def drift_note(tot, verdict, what):
    if tot["drift"]:
        v = tot["drift"][0]
        hist = load_history(v["file"], v["node"])
        verdict.note("%s: the implementation-shaped model no longer matches the code's internal state at %d tree nodes "
                     "(first: %s); the contract verdicts above still stand, the refinement argument does not transfer"
                     % (what, len(tot["drift"]), json.dumps([[h.get("op")] + [h.get(k) for k in ("path", "id", "args") if k in h] for h in hist])[:300]))
