"""Pattern A (DESIGN 2.1): contract spec + implementation-shaped spec + trace validation of history trees."""
import concurrent.futures as cf
import json
import os
import time

import common as C
from tree import load_history, load_meta


def model_check(runs, verdict, neg_controls=()):
    """runs: list of (module, cfg).  Spec-level runs must pass outright.  neg_controls must be violated."""
    stats = []
    with cf.ThreadPoolExecutor(max_workers=4) as ex:
        futs = [(m, c, False, ex.submit(C.tlc, m, c, workers=4, coverage=True)) for m, c in runs]
        futs += [(m, c, True, ex.submit(C.tlc, m, c, workers=4)) for m, c in neg_controls]
        for m, c, neg, f in futs:
            r = f.result()
            d = r.as_dict()
            d.update(module=m, cfg=c, negative_control=neg)
            if r.error:
                verdict.machinery_failure("TLC failed on %s/%s: %s" % (m, c, r.error[:800]))
            elif neg:
                d["violated_as_expected"] = r.violation is not None
                if r.violation is None:
                    verdict.machinery_failure("negative control %s/%s was not violated: the refinement check does not discriminate" % (m, c))
            elif r.violation:
                verdict.machinery_failure("spec-level property violated in %s/%s (the specification does not satisfy the property): %s"
                                          % (m, c, r.violation[:1500]))
            else:
                never = [k for k, v in r.coverage.items() if v[0] == 0 and k.split(".")[1].split("@")[0] not in ("Init", "TraceInit")]
                d["actions_never_taken"] = never
                d["action_counts"] = {k: v[0] for k, v in r.coverage.items()}
            stats.append(d)
    return stats


def validate_forests(files, module, cfg, verdict, sig_fn, workers_per=4, parallel=4, timeout=3600, env_extra=None):
    """files: list of (path, n_nodes).  Returns dict with totals and the verdict lines."""
    tot = dict(states=0, transitions=0, files=len(files), nodes=0, bad=[], drift=[], wall=0.0)

    def one(item):
        path, n = item
        env = {"TRACE_FILE": path}
        if env_extra:
            env.update(env_extra)
        cfg_here = cfg(path) if callable(cfg) else cfg
        r = C.tlc(module, cfg_here, name="%s_%s" % (module, os.path.basename(path)), env=env,
                  workers=workers_per, timeout=timeout, heap="6g")
        return path, n, r

    t0 = time.time()
    with cf.ThreadPoolExecutor(max_workers=parallel) as ex:
        for path, n, r in ex.map(one, files):
            if r.error or r.violation:
                verdict.machinery_failure("trace validation run failed on %s: %s" % (path, (r.error or r.violation)[:1500]))
                continue
            tot["states"] += r.distinct
            tot["transitions"] += r.generated
            tot["nodes"] += n
            bad_here = 0
            for line in r.printed:
                try:
                    v = json.loads(line)
                except ValueError:
                    verdict.machinery_failure("unparsable verdict line: %r" % line[:200])
                    continue
                if v.get("clause") == "model_drift":
                    tot["drift"].append(v)
                else:
                    tot["bad"].append(v)
                    bad_here += 1
            if bad_here == 0 and r.distinct != n + 1:
                verdict.machinery_failure("%s: %d nodes logged but %d states reached (tree not fully walked)" % (path, n, r.distinct))
    tot["wall"] = time.time() - t0
    # attribute
    for v in list(tot["bad"]):
        if v["clause"].startswith("harness_"):
            verdict.machinery_failure("the harness itself misbehaved (%s) at %s" % (v["clause"], json.dumps(load_history(v["file"], v["node"]))[:400]))
            tot["bad"].remove(v)
            continue
        hist = load_history(v["file"], v["node"])
        sig = sig_fn(v["clause"], hist)
        rep = {"clause": v["clause"], "history": hist}
        rep.update(load_meta(v["file"]))
        verdict.violation(sig, rep)
    return tot


def drift_note(tot, verdict, what):
    if tot["drift"]:
        v = tot["drift"][0]
        hist = load_history(v["file"], v["node"])
        verdict.note("%s: the implementation-shaped model no longer matches the code's internal state at %d tree nodes "
                     "(first: %s); the contract verdicts above still stand, the refinement argument does not transfer"
                     % (what, len(tot["drift"]), json.dumps([[h.get("op")] + [h.get(k) for k in ("path", "id", "args") if k in h] for h in hist])[:300]))


def run_component(pid, tier, seed, driver, trace_module, trace_cfg, mc_runs, neg_controls, sig_fn, sample_fn,
                  assumptions, impl_name, rule, driver_timeout=7200, workers_per=2, parallel=8, extra_cov=None,
                  post_driver=None, extra_forests=None):
    """The whole pattern-A check: spec-level TLC runs, drive the real object, validate the forests, write evidence."""
    import subprocess
    t0 = time.time()
    v = C.Verdict(pid)
    out_dir = C.scratch(pid.lower())
    mc = model_check(mc_runs, v, neg_controls=neg_controls)
    p = C.run_py(driver, [out_dir, tier, seed], timeout=driver_timeout)
    summary = None
    if p.returncode != 0:
        v.machinery_failure("driver failed: " + p.stderr[-2000:])
    else:
        summary = json.loads(p.stdout.strip().splitlines()[-1])
    tot = dict(states=0, transitions=0, nodes=0, bad=[], drift=[])
    samples = []
    if summary:
        files = [(os.path.abspath(f), n) for f, n in summary["files"]]
        tot = validate_forests(files, trace_module, trace_cfg, v, sig_fn, workers_per=workers_per, parallel=parallel)
        drift_note(tot, v, impl_name)
        if tot["nodes"] != summary["nodes"] and not v.machinery:
            v.machinery_failure("driver logged %d nodes, TLC judged %d" % (summary["nodes"], tot["nodes"]))
        samples = sample_fn(files)
        if post_driver:
            post_driver(summary, v)
    extra = None
    if extra_forests and not v.machinery:
        # traces recorded from real runs of the whole pipeline, judged by the same trace specification
        r2 = extra_forests(out_dir, tier, v)
        files2, extra = r2[0], r2[1]
        module2, cfg2, sig2 = (r2[2], r2[3], r2[4]) if len(r2) > 2 else (trace_module, trace_cfg, sig_fn)
        files2 = [(os.path.abspath(f), n) for f, n in files2]
        tot2 = validate_forests(files2, module2, cfg2, v, sig2, workers_per=workers_per, parallel=parallel)
        extra["trace_tree_nodes"] = tot2["nodes"]
        extra["trace_states"] = tot2["states"]
        extra["violating_nodes"] = len(tot2["bad"])
        if tot2["nodes"] != sum(n for _, n in files2) and not v.machinery:
            v.machinery_failure("real-run traces: %d nodes logged, TLC judged %d" % (sum(n for _, n in files2), tot2["nodes"]))
        tot["states"] += tot2["states"]
        tot["transitions"] += tot2["transitions"]
    rc = v.finish()
    cov = {
        "states": tot["states"] + sum(m["distinct"] for m in mc),
        "transitions": tot["transitions"] + sum(m["generated"] for m in mc),
        "traces_validated_against_impl": (summary or {}).get("leaves", 0),
        "samples": samples or ["none"],
        "spec_level_runs": mc,
        "trace_tree_nodes": tot["nodes"],
        "trace_states": tot["states"],
        "history_families": (summary or {}).get("families"),
        "max_history_length": (summary or {}).get("maxdepth"),
        "violating_nodes": len(tot["bad"]),
        "model_drift_nodes": len(tot["drift"]),
        "known_findings_hit": {k: len(x) for k, x in v.hits.items()},
        "repo": C.repo_head(),
        "exhaustive": False,
        "rule": rule,
    }
    if extra_cov:
        cov.update(extra_cov)
    if extra is not None:
        cov[extra.pop("_key", "real_analyses")] = extra
    C.write_evidence(pid, tier, seed, "model_checking", cov, time.time() - t0, violations=len(v.unlisted),
                     assumptions=assumptions)
    print("%s: %d tree nodes, %d TLC states, %d violating, %d drift, %.1fs" % (
        pid, tot["nodes"], cov["states"], len(tot["bad"]), len(tot["drift"]), time.time() - t0))
    shutil_rmtree(out_dir)
    return rc


def shutil_rmtree(d):
    import shutil
    shutil.rmtree(d, ignore_errors=True)


def replay_component(pid, replay_path, driver, trace_module, trace_cfg, sig_fn, hist_fields, extra_doc=None, show=()):
    with open(replay_path) as f:
        doc = json.load(f)
    hist = [{k: h[k] for k in h if k in hist_fields} for h in doc["replay"]["history"]]
    d = C.scratch(pid.lower() + "_replay")
    hp = os.path.join(d, "hist.json")
    req = {"history": hist}
    if extra_doc:
        req.update(extra_doc(doc))
    with open(hp, "w") as f:
        json.dump(req, f)
    p = C.run_py(driver, ["--replay", hp])
    if p.returncode != 0:
        print(p.stderr[-2000:])
        return 2
    evs = json.loads(p.stdout.strip().splitlines()[-1])
    nodes = []
    for i, ev in enumerate(evs):
        ev["kids"] = [i + 2] if i + 1 < len(evs) else []
        nodes.append(ev)
    fp = os.path.join(d, "chain.json")
    fdoc = {"roots": [1], "nodes": nodes}
    if extra_doc:
        fdoc.update(extra_doc(doc))
    with open(fp, "w") as f:
        json.dump(fdoc, f)
    v = C.Verdict(pid)
    validate_forests([(fp, len(nodes))], trace_module, trace_cfg, v, sig_fn, workers_per=1, parallel=1)
    for ev in evs:
        print(json.dumps({k: ev[k] for k in ev if k in show or k in hist_fields}))
    return v.finish()
