"""Post-hook for C20: the entry keys P3 analysed and the method owning each statement."""
import os


def collect(lian, job):
    import pandas as pd
    ws = os.path.abspath(lian.options.workspace)
    started = []
    p = os.path.join(ws, "semantic_p3/s2space_p3.indexing")
    if os.path.exists(p):
        df = pd.read_feather(p)
        for x in df[df.columns[0]]:
            try:
                started.append(int(x))
            except (TypeError, ValueError):
                pass
    stmt_method = {}
    p = os.path.join(ws, "semantic_p1/method_to_stmt_id")
    if os.path.exists(p):
        df = pd.read_feather(p)
        for m, stmts in zip(df[df.columns[0]], df[df.columns[1]]):
            for s in list(stmts):
                stmt_method[str(int(s))] = int(m)
    return {"started": started, "stmt_method": stmt_method}
