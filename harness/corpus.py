"""Source-file universes shared by several checks (C03, C14, ...): the repository's per-language corpora and
deterministic byte-level mutations of them.  Everything here is a fixed enumeration; a seed only samples from it."""
import hashlib
import os

import common as C

LANG_EXT = {"python": ".py", "javascript": ".js", "typescript": ".ts", "java": ".java", "go": ".go", "c": ".c", "php": ".php"}
MAX_BYTES = 20000


def corpus_files(lang, include_real_cases=0):
    """Sorted list of repository test sources of one language (real_cases excluded unless a count is given)."""
    ext = LANG_EXT[lang]
    root = os.path.join(C.REPO, "tests")
    out, real = [], []
    for d, dirs, files in os.walk(root):
        dirs.sort()
        for n in sorted(files):
            if not n.endswith(ext):
                continue
            p = os.path.join(d, n)
            try:
                if os.path.getsize(p) > MAX_BYTES or os.path.getsize(p) == 0:
                    continue
            except OSError:
                continue
            (real if "/real_cases/" in p else out).append(p)
    if include_real_cases:
        real.sort(key=lambda p: hashlib.sha256(p.encode()).hexdigest())
        out += real[:include_real_cases]
    return out


def read(p):
    with open(p, "rb") as f:
        return f.read()


def mutants(data):
    """Deterministic mutations of one file: (tag, bytes).  Deletions, truncation, transposition, insertions, duplication."""
    out = []
    lines = data.split(b"\n")
    n, L = len(data), len(lines)
    if L >= 3:
        i = L // 3
        out.append(("del_line_%d" % i, b"\n".join(lines[:i] + lines[i + 1:])))
        i = (2 * L) // 3
        out.append(("del_line_%d" % i, b"\n".join(lines[:i] + lines[i + 1:])))
        i = L // 2
        out.append(("dup_line_%d" % i, b"\n".join(lines[:i + 1] + lines[i:])))
    if n >= 8:
        out.append(("trunc_%d" % (n // 2), data[:n // 2]))
        out.append(("trunc_%d" % ((3 * n) // 4), data[:(3 * n) // 4]))
        k = n // 2
        out.append(("swap_%d" % k, data[:k] + data[k + 1:k + 2] + data[k:k + 1] + data[k + 2:]))
        k = n // 3
        out.append(("ins_paren_%d" % k, data[:k] + b"(" + data[k:]))
        k = (2 * n) // 3
        out.append(("ins_quote_%d" % k, data[:k] + b'"' + data[k:]))
        k = n // 4
        out.append(("ins_brace_%d" % k, data[:k] + b"}" + data[k:]))
        k = n // 5
        out.append(("del_byte_%d" % k, data[:k] + data[k + 1:]))
    return out


def mutants_deep(data):
    """A larger deterministic family for the thorough tier (superset of mutants())."""
    out = list(mutants(data))
    lines = data.split(b"\n")
    n, L = len(data), len(lines)
    if L >= 4:
        for j in range(1, 11):
            i = (j * L) // 11
            out.append(("del_line_%d" % i, b"\n".join(lines[:i] + lines[i + 1:])))
            if j % 2 == 0:
                out.append(("trunc_line_%d" % i, b"\n".join(lines[:i])))
                out.append(("swap_lines_%d" % i, b"\n".join(lines[:i - 1] + [lines[i], lines[i - 1]] + lines[i + 1:])))
    if n >= 16:
        for j in range(1, 8):
            k = (j * n) // 8
            out.append(("trunc_%d" % k, data[:k]))
            out.append(("swap_%d" % k, data[:k] + data[k + 1:k + 2] + data[k:k + 1] + data[k + 2:]))
            out.append(("del_byte_%d" % k, data[:k] + data[k + 1:]))
        toks = [b"(", b")", b"{", b"}", b'"', b"'", b";", b":", b",", b"\n", b"=", b"[", b"]", b" else ", b" return "]
        for ti, tk in enumerate(toks):
            for j in (1, 2, 3):
                k = ((3 * ti + j) * n) // (3 * len(toks) + 4)
                out.append(("ins%d_%d" % (ti, k), data[:k] + tk + data[k:]))
    seen, uniq = set(), []
    for tag, d in out:
        if tag not in seen:
            seen.add(tag)
            uniq.append((tag, d))
    return uniq


def text_of(b):
    """lian reads files as text (utf-8); mutations that break the encoding are kept out (they fail in open(), not in lian)."""
    try:
        return b.decode("utf-8")
    except UnicodeDecodeError:
        return None


# ------------------------------------------------------------------------------------------ literal stress (valid programs)
LITERAL_STRESS = {
    "python": [
        'a = b"\\xff\\xd8\\xff"\nb = b"\\xFF\\xFF\\xFF\\xFF"\nc = b"\\x89PNG"\nd = "\\xe9\\xe8"\ne = b"\\x00\\x01"\nf = "\\x41\\x42"\n',
        'a = "\\u00e9\\N{BULLET}\\U0001F600"\nb = r"\\d+\\s*"\nc = rb"\\x00"\nd = f"{a!r:>10}{b}"\ne = f"{{}}{a}"\ng = """tri"ple\'s"""\nh = \'\'\'x"""y\'\'\'\n',
        'a = 0xFF_FF\nb = 0o17\nc = 0b1010_1010\nd = 1_000_000\ne = 1e400\nf = 3j\ng = 0.\nh = .5e-3\ni = 99999999999999999999999999999999999999\nj = -0\n',
        'a = "a" "b" \'c\'\nb = ("x"\n     "y")\nc = "\\\n"\nd = "tab\\there"\ne = "nul\\0x"\nf = "\\777"\ng = b"\\\'"\nh = "%s %d %%" % ("s", 1)\n',
        'a = [b"\\xff", "\\udc80", b""]\nb = {b"\\xfe": "\\x7f"}\nc = (b"\\x80",)\nd = lambda: b"\\xc3\\x28"\n',
        # dotted plain imports (rewritten textually by the python pre-processing) followed by comments and names full of regex syntax
        'import os.path  # needed for join (see the helper below\nimport xml.dom  # c++ [todo\nimport a.b.c  # \\d+ * ? {2,\nsep = os.path.sep\nnode = xml.dom.Node\nx = a.b.c.value\n',
    ],
    "javascript": [
        'var a = `tpl ${1 + 2} \\u{1F600}`;\nvar b = /ab+c\\/[\\]"]/gi;\nvar c = 123n;\nvar d = 1_000;\nvar e = "\\xff\\u00e9\\u{10FFFF}";\nvar f = \'\\\n\';\nvar g = 0x1F + 0o17 + 0b11;\nvar h = .5e-3;\n',
        'var a = "\\0";\nvar b = `a${`b${"c"}`}`;\nvar c = /[/]/;\nvar d = 1e400;\nvar e = "\\u2028";\nvar f = String.raw`\\xff`;\n',
    ],
    "typescript": ['let a: string = `t ${1}`;\nlet b = 123n;\nlet c = "\\xff\\u{1F600}";\nlet d = 1_000;\nlet e = /x\\//g;\n'],
    "java": ['class L { void m() { String a = "\\u00e9\\377\\t\\""; char c = \'\\uFFFF\'; char d = \'\\\'\'; long e = 0xFFFF_FFFFL; double f = 0x1.8p1; int g = 0b1010; String t = """\n   text "block" \\\n   x""" ; float h = 1e38f; } }\n'],
    "c": ['int m() { char *a = "\\xff\\377\\0"; char c = \'\\\'\'; unsigned long e = 0xFFFFFFFFUL; double f = 0x1.8p1; int g = 017; char *w = "a" "b"; return \'\\x7f\'; }\n'],
    "go": ['package main\nfunc m() { a := "\\xff\\u00e9"; b := `raw \\x`; c := \'\\\'\'; d := 0x1p-2; e := 1_000; f := 0b11; g := 3i; _ = a; _ = b; _ = c; _ = d; _ = e; _ = f; _ = g }\n'],
    "php": ['<?php\n$a = "\\xff\\u{1F600}\\$x {$b}";\n$b = \'\\\'\\\\\';\n$c = 0x1F + 0b11 + 017 + 1_000;\n$d = <<<EOT\n heredoc $a\nEOT;\n$e = <<<\'N\'\n nowdoc\nN;\n$f = .5e-3;\n'],
}


def literal_stress(lang):
    return [("literal_stress_%d" % i, t) for i, t in enumerate(LITERAL_STRESS.get(lang, []))]
