"""C16 — table queries always reflect the table's current contents."""
import json
import os

import patterna as A
from tree import load_history

PID = "C16"
HERE = os.path.dirname(os.path.abspath(__file__))
DRIVER = os.path.join(HERE, "drive_c16.py")
ARGS = ("op", "lab", "col", "v", "pos", "cells", "rows", "old", "new", "map", "a", "b", "ids")


def short(h):
    return h["op"] + "(" + ",".join(json.dumps(h[k], separators=(",", ":")) for k in ARGS[1:] if k in h) + ")"


def sig(clause, hist):
    return "%s:%s" % (clause, ";".join(short(h) for h in hist))


def samples(files):
    out = []
    for path, n in files[:2]:
        for k in (n, n // 2):
            h = load_history(path, k)
            out.append(" ; ".join("%s->%s" % (short(x), json.dumps(x["res"], separators=(",", ":"))) for x in h)
                       + "  table=" + json.dumps(h[-1]["frame"], separators=(",", ":")))
    return out


def run(tier, seed):
    return A.run_component(
        PID, tier, seed, DRIVER, "MC_DataModelTrace", "DataModelTrace.cfg",
        [("MC_DataModelImpl", "MC_DataModelImpl.cfg")],
        [("MC_DataModelImpl", "MC_DataModelImpl_pinned1.cfg"), ("MC_DataModelImpl", "MC_DataModelImpl_pinned2.cfg")],
        sig, samples,
        assumptions=["pandas is the ground truth for the frame after a mutation (the logged frame is read through pandas, "
                     "not through DataModel)", "cell values {missing, 1, 2}; one float and one string column (mixed dtypes, "
                     "so DataFrame.values copies)", "Row index of query_index_column_value_first judged only when labels = positions",
                     "TLC, CommunityModules Json"],
        impl_name="DataModelImpl",
        rule="every node of the history tree is one DataModel call; mutations are judged by comparing the pandas frame with the "
             "contract's table, queries by comparing the result with the scan of that table; a trace = one root-to-leaf history")


def replay(path):
    def extra(doc):
        hist = doc["replay"]["history"]
        return {"table": doc["replay"].get("table") or {"cols": ["stmt_id", "name"], "rows": [[1, 0], [2, 1], [1, 2]]}}
    return A.replay_component(PID, path, DRIVER, "MC_DataModelTrace", "DataModelTrace.cfg", sig, ARGS, extra_doc=extra,
                              show=("res", "crash", "frame"))
