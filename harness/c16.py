"""C16 — table queries always reflect the table's current contents."""
import json
import os

import common as C
import patterna as A
from tree import load_history

PID = "C16"
HERE = os.path.dirname(os.path.abspath(__file__))
DRIVER = os.path.join(HERE, "drive_c16.py")
ARGS = ("op", "lab", "col", "v", "pos", "cells", "rows", "old", "new", "map", "a", "b", "ids")


def short(h):
    return h["op"] + "(" + ",".join(json.dumps(h[k], separators=(",", ":")) for k in ARGS[1:] if k in h) + ")"


def sig(clause, hist):
    return "%s:%s" % (clause, ";".join(short(h) for h in hist))


def samples(files):
    out = []
    for path, n in files[:2]:
        for k in (n, n // 2):
            h = load_history(path, k)
            out.append(" ; ".join("%s->%s" % (short(x), json.dumps(x["res"], separators=(",", ":"))) for x in h)
                       + "  table=" + json.dumps(h[-1]["frame"], separators=(",", ":")))
    return out


DRIVER_B = os.path.join(HERE, "drive_c16b.py")


def short_b(h):
    return "enter(%d)" % h["b"] if h["op"] == "enter" else "append(%s)" % h["which"]


def sig_b(clause, hist):
    return "%s:%s" % (clause, ";".join(short_b(h) for h in hist))


def block_views(out_dir, tier, v):
    """part b: the block views over a unit's GIR (GIRBlockViewer), judged by BlockView.tla"""
    d = os.path.join(out_dir, "views")
    os.makedirs(d, exist_ok=True)
    p = C.run_py(DRIVER_B, [d, tier], timeout=1800)
    if p.returncode != 0:
        v.machinery_failure("block-view driver failed: " + p.stderr[-1500:])
        return [], {"_key": "block_views"}, "BlockView", "BlockView.cfg", sig_b
    summary = json.loads(p.stdout.strip().splitlines()[-1])
    if summary["nodes"] < 500:
        v.machinery_failure("block views: only %d tree nodes (vacuous)" % summary["nodes"])
    cov = {"_key": "block_views", "tree_nodes_logged": summary["nodes"], "leaves": summary["leaves"], "depth": summary["depth"], "girs": summary["girs"],
           "rule": "a node = read_block / append_other on a real GIRBlockViewer followed by the whole query battery (len, iteration, indexing, get_all_stmt_ids, "
                   "query_operation, query_field, contains_stmt_id, get_stmt_by_id, get_stmt_by_pos, read_block, get_block_stmt_ids, boundary_of_multi_blocks); "
                   "BlockView.tla computes every answer from a scan of the visible statements"}
    return summary["files"], cov, "BlockView", "BlockView.cfg", sig_b


def run(tier, seed):
    return A.run_component(
        PID, tier, seed, DRIVER, "MC_DataModelTrace", "DataModelTrace.cfg",
        [("MC_DataModelImpl", "MC_DataModelImpl.cfg")],
        [("MC_DataModelImpl", "MC_DataModelImpl_pinned1.cfg"), ("MC_DataModelImpl", "MC_DataModelImpl_pinned2.cfg")],
        sig, samples,
        assumptions=["pandas is the ground truth for the frame after a mutation (the logged frame is read through pandas, "
                     "not through DataModel)", "cell values {missing, 1, 2}; one float and one string column (mixed dtypes, "
                     "so DataFrame.values copies)", "Row index of query_index_column_value_first judged only when labels = positions",
                     "TLC, CommunityModules Json"],
        impl_name="DataModelImpl", extra_forests=block_views,
        rule="every node of the history tree is one DataModel call; mutations are judged by comparing the pandas frame with the "
             "contract's table, queries by comparing the result with the scan of that table; a trace = one root-to-leaf history")


def replay(path):
    with open(path) as f:
        d = json.load(f)
    if d.get("replay", {}).get("gir"):          # a block-view history (part b): show it; the driver re-creates it deterministically
        print(json.dumps({"gir": d["replay"]["gir"], "statements": d["replay"].get("stmts"), "history": [short_b(h) for h in d["replay"]["history"]],
                          "clause": d["replay"]["clause"], "answers_of_the_last_view": d["replay"]["history"][-1].get("q")}, indent=1)[:5000])
        print("re-run: ./check C16 --tier quick   (driver: harness/drive_c16b.py, contract: specs/BlockView.tla)")
        return 0

    def extra(doc):
        hist = doc["replay"]["history"]
        return {"table": doc["replay"].get("table") or {"cols": ["stmt_id", "name"], "rows": [[1, 0], [2, 1], [1, 2]]}}
    return A.replay_component(PID, path, DRIVER, "MC_DataModelTrace", "DataModelTrace.cfg", sig, ARGS, extra_doc=extra,
                              show=("res", "crash", "frame"))
