#!/bin/sh
# Re-run every registered check (quick tier) on the current tree so that the committed evidence describes the unchanged tree.
cd /verif || exit 2
if [ -n "$(git -C /repo status --porcelain -- src)" ]; then echo "repo dirty, refusing"; exit 2; fi
for id in $(/venv/bin/python -c "import json; print(' '.join(c['property_id'] for c in json.load(open('MANIFEST.json'))['checks']))"); do
  ./check "$id" --tier quick > out/refresh_$id.log 2>&1; echo "$id rc=$? $(tail -1 out/refresh_$id.log | cut -c1-150)"
done
