"""Reaching-definition recorder for C06 (lianrun pre_hook/post_hook): wraps, at run time, the function through which every consumer
(symbol graph, state flow graph, state computation) obtains the definitions that reach a use -
P2PrelimSemanticAnalysis.check_reachable_symbol_defs(stmt_id, frame, status, used_symbol_index, used_symbol, available_defs) - and records
its result per (statement, used name).  No source change in /repo."""
import functools

RD = {}


def install(M, job):
    import lian.core.prelim_semantics as PS
    orig = PS.P2PrelimSemanticAnalysis.check_reachable_symbol_defs

    @functools.wraps(orig)
    def check_reachable_symbol_defs(self, stmt_id, frame, status, used_symbol_index, used_symbol, available_symbol_defs):
        r = orig(self, stmt_id, frame, status, used_symbol_index, used_symbol, available_symbol_defs)
        try:
            key = (int(stmt_id), str(used_symbol.name))
            RD.setdefault(key, set()).update(int(d.stmt_id) for d in r)
        except Exception:  # noqa
            pass
        return r
    PS.P2PrelimSemanticAnalysis.check_reachable_symbol_defs = check_reachable_symbol_defs


def collect(lian, job):
    return {"rd": [[s, n, sorted(ds)] for (s, n), ds in sorted(RD.items())]}
