"""Lexical normalisation of exported GIR rows for the TLA+ machines (no interpretation of structure).

Every row gets the same fields so that TLC can read them without testing for presence:
 integers (0 when absent): id, parent, body, then_body, else_body, condition_prebody, update_body, init_body, catch_body,
                           final_body, parameters
 strings ("" when absent): op, name, condition, target, operand, operand2, operator, receiver, field, source, index, array,
                           data_type, default_value, args (JSON list text)
Only attribute names of the documented instruction set (docs/en/03.frontend/3-2.gir.md) are read.
"""
import json

INT_FIELDS = ("body", "then_body", "else_body", "condition_prebody", "update_body", "init_body", "catch_body",
              "final_body", "parameters", "static_init", "init", "methods", "nested", "fields")
STR_FIELDS = ("name", "condition", "target", "operand", "operand2", "operator", "receiver", "field", "source", "index",
              "array", "data_type", "default_value", "receiver_object", "value", "key", "start", "end", "step", "alias")


def as_int(v):
    if isinstance(v, bool):
        return 0
    if isinstance(v, int):
        return v
    if isinstance(v, float) and v == int(v):
        return int(v)
    return 0


def as_str(v):
    if v is None:
        return ""
    if isinstance(v, float) and v == int(v):
        return str(int(v))
    return str(v)


import re as _re
_IDENT = _re.compile(r"^[A-Za-z_$%@][A-Za-z0-9_$%@]*$")
_NOT_VAR = {"True", "False", "None", "true", "false", "null", "nil", "undefined", "this", "self", "%this"}
VAR_FLAGS = ("target", "name", "operand", "operand2", "condition", "receiver", "source", "index", "array", "receiver_object", "field")


def is_var(text):
    """Lexical test: is this operand text a variable token (not a literal)?"""
    return bool(text) and bool(_IDENT.match(text)) and text not in _NOT_VAR


def arg_list(v):
    """positional_args / args are stored as the text of a Python list."""
    if v is None or v == "":
        return []
    if isinstance(v, list):
        return [as_str(x) for x in v]
    try:
        import ast
        x = ast.literal_eval(str(v))
        return [as_str(y) for y in x] if isinstance(x, (list, tuple)) else []
    except (ValueError, SyntaxError):
        return []


def norm_row(r, extra_str=()):
    out = {"id": as_int(r.get("stmt_id")), "parent": as_int(r.get("parent_stmt_id")), "op": as_str(r.get("operation")),
           "line": as_int(r.get("start_row"))}
    for f in INT_FIELDS:
        out[f] = as_int(r.get(f))
    for f in STR_FIELDS + tuple(extra_str):
        out[f] = as_str(r.get(f))
    for f in VAR_FLAGS:
        out[f + "_v"] = is_var(out[f])
    args = arg_list(r.get("positional_args")) + arg_list(r.get("args"))
    out["args"] = args
    out["arg_names"] = [a for a in args if is_var(a)]
    return out


def units_of(gir):
    """Split exported rows into units, preserving order: {unit_id: [rows]}."""
    units, order = {}, []
    for row in gir:
        uid = row.get("unit_id")
        if uid not in units:
            units[uid] = []
            order.append(uid)
        units[uid].append(row)
    return [(u, units[u]) for u in order]


def method_slices(rows):
    """For every method_decl row: the contiguous slice of rows from the declaration to the block_end of its last block.
    (A positional cut of the unit; nesting is left to the specification.)"""
    out = []
    n = len(rows)
    for i, r in enumerate(rows):
        if r.get("operation") != "method_decl":
            continue
        mid = r.get("stmt_id")
        # the declaration's own blocks follow it directly: every following row whose ancestry leads to mid
        j = i + 1
        inside = {mid}
        while j < n:
            x = rows[j]
            if x.get("parent_stmt_id") in inside:
                inside.add(x.get("stmt_id"))
                j += 1
            else:
                break
        out.append((r, rows[i:j]))
    return out


# ------------------------------------------------------------------------------------------ tokens (GIRMachine)
_INT = _re.compile(r"^-?\d+$")
TOK_FIELDS = ("operand", "operand2", "condition", "receiver", "name", "array", "index", "source", "receiver_object",
              "receiver_record", "key", "value", "field")


def token(text):
    """Operand text -> tagged token.  Purely lexical: literals keep their spelling-derived kind, everything else is a name."""
    if text is None or text == "":
        return {"k": "empty", "i": 0, "s": ""}
    t = str(text)
    if _INT.match(t):
        v = int(t)
        if abs(v) < 2 ** 30:
            return {"k": "int", "i": v, "s": ""}
        return {"k": "big", "i": 0, "s": t}
    if len(t) >= 2 and t[0] == t[-1] and t[0] in "\"'":
        # the value of a string literal: escape sequences decoded when the text is a well-formed literal, its raw inside otherwise
        try:
            import ast
            v = ast.literal_eval(t)
            if isinstance(v, str):
                return {"k": "str", "i": 0, "s": v}
        except (ValueError, SyntaxError):
            pass
        return {"k": "str", "i": 0, "s": t[1:-1]}
    if t in ("True", "true"):
        return {"k": "bool", "i": 1, "s": ""}
    if t in ("False", "false"):
        return {"k": "bool", "i": 0, "s": ""}
    if t in ("None", "null", "nil", "undefined"):
        return {"k": "none", "i": 0, "s": ""}
    return {"k": "var", "i": 0, "s": t}


def dict_text(v):
    if v is None or v == "":
        return {}
    try:
        import ast
        x = ast.literal_eval(str(v))
        return x if isinstance(x, dict) else {}
    except (ValueError, SyntaxError):
        return {}


def machine_row(r):
    """norm_row + tokens for the data machine."""
    out = norm_row(r, extra_str=("receiver_record",))
    for f in TOK_FIELDS:
        out[f + "_tok"] = token(r.get(f))
    out["default_tok"] = token(r.get("default_value"))
    out["pos_toks"] = [token(a) for a in arg_list(r.get("positional_args"))]
    out["named_toks"] = [{"name": str(k), "tok": token(v)} for k, v in dict_text(r.get("named_args")).items()]
    attrs = arg_list(r.get("attrs"))
    out["is_tuple"] = "tuple" in attrs
    out["attrs"] = attrs
    out["target_temp"] = out["target"].startswith("%")
    out["supers"] = arg_list(r.get("supers"))
    return out


def temps_of(rows):
    names = set()
    for r in rows:
        for f in ("target", "name"):
            v = r.get(f)
            if isinstance(v, str) and v.startswith("%") and v not in ("%this", "%class", "%unit_init", "%class_sinit"):
                names.add(v)
    return sorted(names)
