"""C07 — every call that can happen at run time is in the computed call graph.

GIRMachine.tla executes the GIR of each call-graph program (all units of the project in one case; branching on choice() explores
both arms) and records every call as (calling method, call statement, called method).  TLC judges each behaviour against what the
same lian run computed: the triple must be an element of some path of semantic_p3/call_paths_p3 (call edge), and a frame for the
callee must have been pushed under that call site (recorded at ComputeFrameStack.add by harness/schedtrace.py).
"""
import json
import os
import shutil
import time

import c01
import callgen as CG
import common as C
import girjson as G

PID = "C07"
SETTINGS = {"source.yaml": "[]\n", "sink.yaml": "[]\n", "propagation.yaml": "[]\n"}


def build(progs, root):
    jobs = []
    for i, p in enumerate(progs):
        entry = "- method_list: [\"%s\"]\n" % (p["start"] or "%unit_init")
        jobs.append(dict(cmd="run", lang=p.get("lang", "python"), files=p["files"], dir=os.path.join(root, "r%04d" % i), settings=dict(SETTINGS, **{"entry.yaml": entry}),
                         flags=["--nomock"], export=["gir", "modules", "call_paths_p3"], pre_hook="schedtrace", post_hook="schedtrace", timeout=600, _p=p))
    return jobs


def cases_of(job, r):
    """one case per entry point of the program (its mains); edges and analysed frames are those of that entry's analysis."""
    p = job["_p"]
    gir = r["exports"].get("gir") or []
    mods = {m.get("unit_id"): m for m in (r["exports"].get("modules") or []) if m.get("unit_id") is not None}
    rows = [x for _, rs in G.units_of(gir) for x in rs]
    mrows = [G.machine_row(x) for x in rows]
    temps = G.temps_of(rows)
    names = {x["stmt_id"]: x.get("name") for x in rows if x.get("operation") == "method_decl"}
    events = (r.get("post") or {}).get("events", [])
    out = []
    for main in p.get("mains") or [p["main"]]:
        main_unit = [u for u, m in mods.items() if os.path.basename(m.get("original_path", "")) == main]
        start_id = 0
        for x in rows:
            if x.get("operation") == "method_decl" and x.get("unit_id") in main_unit and x.get("name") == (p["start"] or "%unit_init"):
                start_id = x["stmt_id"]
        paths = [[tuple(int(v) for v in site) for site in path.get("call_path", [])] for path in (r["exports"].get("call_paths_p3") or [])]
        edges = sorted({site for path in paths if path and path[0][0] == start_id for site in path})
        # frames pushed while this entry was analysed: the events between the push of the entry frame and the next meta push
        pushed, active = set(), False
        for e in events:
            if e["e"] != "push":
                continue
            if e.get("meta"):
                active = False
            elif e.get("caller", -1) < 0:
                active = e["m"] == start_id
            elif active:
                pushed.add((int(e["caller"]), int(e["cs"]), int(e["m"])))
        name = p["name"] if len(p.get("mains") or []) <= 1 else "%s@%s" % (p["name"], main)
        out.append({"name": name, "rows": mrows, "temps": temps, "expected": [], "start": p["start"], "start_id": start_id,
                    "check": "calls", "flows": [], "param_sources": [], "edges": [list(e) for e in edges], "analysed": [list(e) for e in sorted(pushed)],
                    "source": "\n".join("# --- %s\n%s" % kv for kv in sorted(p["files"].items())), "_names": names, "_p": p["name"]})
    return out


def run(tier, seed):
    t0 = time.time()
    v = C.Verdict(PID)
    root = C.scratch("c07")
    progs = CG.universe(tier, seed)
    jobs = build(progs, root)
    res = C.lian_batch(jobs)
    cases = []
    for job, r in zip(jobs, res):
        if r["exit"] != "ok":
            v.violation("lian_failed:%s:%s" % (r["exit"], job["_p"]["name"]), {"program": job["_p"]["name"], "exit": r["exit"], "traceback": (r.get("traceback") or "")[-800:],
                                                                             "files": job["_p"]["files"]})
            continue
        cases += cases_of(job, r)
    tot = c01.run_tlc([{k: x for k, x in c.items() if not k.startswith("_")} for c in cases], root, v)
    by = {c["name"]: c for c in cases}
    seen, n_bad, n_calls, stuck = set(), 0, 0, 0
    for vd in tot["verdicts"]:
        c = by[vd["case"]]
        seen.add(vd["case"])
        n_calls += len(vd.get("calls") or [])
        cl = vd["clause"]
        if cl == "":
            continue
        if cl.startswith("stuck:") or cl == "diverges":
            stuck += 1
            v.machinery_failure("the machine could not execute %s: %s" % (vd["case"], cl))
            continue
        n_bad += 1
        kind, ctx = c["_p"].split("__")
        nm = c["_names"]
        pretty = lambda ts: [[nm.get(t[0], t[0]), t[1], nm.get(t[2], t[2])] for t in ts]
        v.violation("%s:%s:%s" % (cl, kind, ctx), {"program": vd["case"], "clause": cl, "calls_that_happened": pretty(vd.get("calls") or []),
                                                  "missing_edges": pretty(vd.get("missed_edges") or []), "not_analysed": pretty(vd.get("not_analysed") or []),
                                                  "lian_edges": pretty(c["edges"]), "source": c["source"]})
    missing = [c["name"] for c in cases if c["name"] not in seen]
    if missing and not v.machinery:
        v.machinery_failure("%d cases without a verdict, e.g. %s" % (len(missing), missing[:3]))
    if cases and n_calls < 3 * len(cases) and not v.machinery:
        v.machinery_failure("only %d call events in %d programs (vacuous)" % (n_calls, len(cases)))
    rc = v.finish(max_print=40)
    cov = {
        "states": tot["states"], "transitions": tot["transitions"], "traces_validated_against_impl": len(cases),
        "samples": [{"program": c["name"], "edges_of_lian": c["edges"][:6], "source": c["source"]} for c in cases[:2]],
        "programs": len(cases), "behaviours_judged": len(tot["verdicts"]), "call_events": n_calls, "violating_behaviours": n_bad,
        "call_kinds": sorted(CG.KINDS), "contexts": sorted(CG.CONTEXTS), "known_findings_hit": {k: len(x) for k, x in v.hits.items()},
        "repo": C.repo_head(), "exhaustive": tier == "thorough",
        "rule": "a case = one python project (call kind x calling context) run through the full lian pipeline; the machine's call events are the calls "
                "that can happen; edges = elements of call_paths_p3; analysed = frames pushed under (caller, call statement, callee)",
    }
    C.write_evidence(PID, tier, seed, "model_checking", cov, time.time() - t0, violations=len(v.unlisted),
                     assumptions=["GIRMachine's semantics is the one validated against CPython by C01 (inheritance lookup and aliased imports added here)",
                                  "python frontend; imports are from-imports of analysed files", "entry = the unit initialiser of main.py or the configured method main"])
    print("C07: %d programs, %d behaviours, %d call events, %d TLC states, %d violating, %.1fs" % (len(cases), len(tot["verdicts"]), n_calls, tot["states"], n_bad, time.time() - t0))
    shutil.rmtree(root, ignore_errors=True)
    return rc


def replay(path):
    doc = json.load(open(path))["replay"]
    print(doc.get("source", ""))
    print(json.dumps({k: doc[k] for k in doc if k != "source"}, indent=1)[:3000])
    return 0
