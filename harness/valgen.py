"""Value programs for C08/C09: a constant travels through 0..2 connecting constructs; every definition on the way is an event.

Chain(kind, steps): kind "int" starts from `v0 = 3`, kind "str" from `v0 = "ab"`.  Each step consumes the current variable and
defines a new one.  Branches are taken on choice() (unknown to the analysis, both arms are behaviours of the machine); loops run
their body at most once.  Programs are loop-free unless a step name starts with "loop".
"""
import itertools

TOP = ["class Box:", "    def __init__(self, v):", "        self.v = v", "        self.f = 0", "        self.g = 0", "",
       "def ident(z):", "    return z", "",
       "def add2(a, b):", "    c = a + b", "    return c", "",
       "def setf(q, w):", "    q.f = w", "    return q", "",
       "def getf(q):", "    e = q.f", "    return e", "",
       "def pick(a):", "    if choice():", "        return a", "    k = 9", "    return k", "",
       "def picks(a):", "    if choice():", "        return a", "    k = \"z\"", "    return k", "",
       "def mkbox(a):", "    n = Box(a)", "    return n", "",
       "def getinner(q):", "    w = q.v", "    e = w.f", "    return e", "",
       "def wrap(q):", "    h = ident(q)", "    return h", "",
       "def fill(o, w):", "    j = setf(o, w)", "    return 0", "",
       "def lit2():", "    if choice():", "        return 1", "    return 2", "",
       "def via_alias(o, w):", "    q = o", "    if choice():", "        q.f = w", "    else:", "        q.f = 4", "    return 0", "",
       "def alias_exits(o, w):", "    q = o", "    if choice():", "        q.f = w", "        return o", "    q.f = 8", "    return o", "",
       "def plain_arms(o, w):", "    if choice():", "        o.f = w", "    else:", "        o.f = 6", "    return 0", "",
       "def mknest(a):", "    outer = Box(0)", "    inner = Box(0)", "    outer.g = inner", "    inner.f = a", "    return outer", "",
       "def touch2(p, q, w):", "    p.g = q", "    q.f = w", "    return 0", ""]

INT_ONLY = {"const_plus_maybe_unknown", "maybe_unknown_plus_const", "nested_written_after_store", "nested_param_written_after_store", "two_multi_operands", "multi_right_operand", "join_two_reads", "join_alias_reads", "arith_add", "arith_sub_neg", "arith_mul", "arith_zero", "add_call", "two_sites_add", "sub3",
            "callee_alias_two_arms", "callee_alias_two_exits", "callee_param_two_arms", "branch_alias_field", "two_sites_wrap", "two_sites_wrap2", "two_sites_fill", "maybe_receiver"}
STR_ONLY = {"concat", "concat_left", "concat_digits", "repeat"}


def step(name, cur, nv, i, kind="int"):
    """-> list of body lines defining nv from cur; A5/A6 are other constants of the chain's type"""
    A5, A6 = ("5", "6") if kind == "int" else ('"q"', '"r"')
    if name == "copy":
        return ["%s = %s" % (nv, cur)]
    if name == "arith_add":
        return ["%s = %s + 4" % (nv, cur)]
    if name == "arith_sub_neg":
        return ["%s = %s - 8" % (nv, cur)]
    if name == "arith_mul":
        return ["%s = %s * 2" % (nv, cur)]
    if name == "arith_zero":
        return ["t%d = %s - %s" % (i, cur, cur), "%s = t%d + 1" % (nv, i)]
    if name == "concat":
        return ['%s = %s + "k"' % (nv, cur)]
    if name == "concat_left":
        return ['%s = "k" + %s' % (nv, cur)]
    if name == "sub3":
        return ["%s = %s - 3" % (nv, cur)]
    if name == "concat_digits":
        return ['%s = %s + "34"' % (nv, cur)]
    if name == "digits_concat":
        return ['d%d = "12"' % i, 'e%d = d%d + "34"' % (i, i), "%s = %s" % (nv, cur)]
    if name == "repeat":
        return ["%s = %s * 2" % (nv, cur)]
    if name == "maybe_receiver":
        return ["a%d = Box(0)" % i, "b%d = Box(1)" % i, "if choice():", "    o%d = a%d" % (i, i), "else:", "    o%d = b%d" % (i, i), "o%d.f = %s" % (i, cur),
                "u%d = b%d.f" % (i, i), "%s = a%d.f" % (nv, i)]
    if name == "nested_alias_param":
        return ["n%d = Box(0)" % i, "m%d = Box(n%d)" % (i, i), "al%d = n%d" % (i, i), "al%d.f = %s" % (i, cur), "%s = getinner(m%d)" % (nv, i)]
    if name == "two_literal_exits":
        return ["u%d = lit2()" % i, "%s = %s" % (nv, cur)]
    if name == "callee_alias_two_arms":
        return ["o%d = Box(0)" % i, "r%d = via_alias(o%d, %s)" % (i, i, cur), "%s = o%d.f" % (nv, i)]
    if name == "callee_alias_two_exits":
        return ["o%d = Box(0)" % i, "r%d = alias_exits(o%d, %s)" % (i, i, cur), "%s = o%d.f" % (nv, i), "u%d = r%d.f" % (i, i)]
    if name == "callee_param_two_arms":
        return ["o%d = Box(0)" % i, "r%d = plain_arms(o%d, %s)" % (i, i, cur), "%s = o%d.f" % (nv, i)]
    if name == "two_sites_wrap":
        return ["u%d = wrap(11)" % i, "%s = wrap(%s)" % (nv, cur), "w%d = wrap(22)" % i]
    if name == "two_sites_wrap2":
        return ["u%d = wrap(11)" % i, "%s = wrap(%s)" % (nv, cur)]
    if name == "two_sites_fill":
        return ["a%d = Box(0)" % i, "b%d = Box(0)" % i, "r%d = fill(a%d, 5)" % (i, i), "s%d = fill(b%d, %s)" % (i, i, cur), "u%d = a%d.f" % (i, i), "%s = b%d.f" % (nv, i)]
    if name == "ctor_field":
        return ["o%d = Box(%s)" % (i, cur), "%s = o%d.v" % (nv, i)]
    if name == "field":
        return ["o%d = Box(0)" % i, "o%d.f = %s" % (i, cur), "%s = o%d.f" % (nv, i)]
    if name == "field_overwrite":
        return ["o%d = Box(0)" % i, "o%d.f = 1" % i, "o%d.f = %s" % (i, cur), "%s = o%d.f" % (nv, i)]
    if name == "other_field":
        return ["o%d = Box(0)" % i, "o%d.g = %s" % (i, A5), "o%d.f = %s" % (i, cur), "u%d = o%d.g" % (i, i), "%s = o%d.f" % (nv, i)]
    if name == "other_object":
        return ["o%d = Box(0)" % i, "p%d = Box(1)" % i, "p%d.f = %s" % (i, A6), "o%d.f = %s" % (i, cur), "u%d = p%d.f" % (i, i), "%s = o%d.f" % (nv, i)]
    if name == "alias_write":
        return ["o%d = Box(0)" % i, "p%d = o%d" % (i, i), "p%d.f = %s" % (i, cur), "%s = o%d.f" % (nv, i)]
    if name == "alias_read":
        return ["o%d = Box(0)" % i, "p%d = o%d" % (i, i), "o%d.f = %s" % (i, cur), "%s = p%d.f" % (nv, i)]
    if name == "list_elem":
        return ["xs%d = [%s, 1]" % (i, cur), "%s = xs%d[0]" % (nv, i)]
    if name == "list_write":
        return ["xs%d = [0, 1]" % i, "xs%d[1] = %s" % (i, cur), "%s = xs%d[1]" % (nv, i)]
    if name == "ident_call":
        return ["%s = ident(%s)" % (nv, cur)]
    if name == "add_call":
        return ["%s = add2(%s, 2)" % (nv, cur)]
    if name == "two_sites_add":
        return ["u%d = add2(1, 1)" % i, "%s = add2(%s, 2)" % (nv, cur), "w%d = add2(5, 5)" % i]
    if name == "two_sites_ident":
        return ["u%d = ident(7)" % i, "%s = ident(%s)" % (nv, cur), "w%d = ident(8)" % i]
    if name == "param_field":
        return ["o%d = Box(0)" % i, "r%d = setf(o%d, %s)" % (i, i, cur), "%s = o%d.f" % (nv, i)]
    if name == "param_read":
        return ["o%d = Box(0)" % i, "o%d.f = %s" % (i, cur), "%s = getf(o%d)" % (nv, i)]
    if name == "returned_object":
        return ["o%d = mkbox(%s)" % (i, cur), "%s = o%d.v" % (nv, i)]
    if name == "branch":
        return ["if choice():", "    %s = %s" % (nv, cur), "else:", "    %s = %s" % (nv, A5)]
    if name == "branch_one_arm":
        return ["%s = %s" % (nv, A6), "if choice():", "    %s = %s" % (nv, cur)]
    if name == "branch_field":
        return ["o%d = Box(0)" % i, "if choice():", "    o%d.f = %s" % (i, cur), "else:", "    o%d.f = %s" % (i, A6), "%s = o%d.f" % (nv, i)]
    if name == "join_two_reads":        # the object is read twice after the join: the second read must still see both paths
        return ["o%d = Box(0)" % i, "if choice():", "    o%d.f = %s" % (i, cur), "else:", "    o%d.f = %s" % (i, A6), "u%d = o%d.f" % (i, i), "%s = o%d.f" % (nv, i)]
    if name == "join_alias_reads":      # a read through an alias made after the join, then a read through the original name
        return ["o%d = Box(0)" % i, "if choice():", "    o%d.f = %s" % (i, cur), "p%d = o%d" % (i, i), "u%d = p%d.f" % (i, i), "w%d = o%d.f" % (i, i), "%s = p%d.f" % (nv, i)]
    if name == "two_multi_operands":    # both operands of a binary operation carry two values: all four combinations
        return ["if choice():", "    a%d = %s" % (i, cur), "else:", "    a%d = 5" % i, "if choice():", "    b%d = 10" % i, "else:", "    b%d = 20" % i, "%s = a%d + b%d" % (nv, i, i)]
    if name == "multi_right_operand":
        return ["if choice():", "    a%d = %s" % (i, cur), "else:", "    a%d = 5" % i, "%s = 7 - a%d" % (nv, i)]
    if name == "const_plus_maybe_unknown":      # the second operand is a constant on one path and the result of external code on the other
        return ["if choice():", "    b%d = %s" % (i, cur), "else:", "    b%d = ext()" % i, "%s = 2 + b%d" % (nv, i)]
    if name == "maybe_unknown_plus_const":
        return ["if choice():", "    b%d = %s" % (i, cur), "else:", "    b%d = ext()" % i, "%s = b%d + 2" % (nv, i)]
    if name == "nested_written_after_store":    # a callee stores an object in another one, writes the inner one afterwards and returns the outer one
        return ["o%d = mknest(%s)" % (i, cur), "m%d = o%d.g" % (i, i), "%s = m%d.f" % (nv, i)]
    if name == "nested_param_written_after_store":
        return ["p%d = Box(0)" % i, "q%d = Box(0)" % i, "r%d = touch2(p%d, q%d, %s)" % (i, i, i, cur), "m%d = p%d.g" % (i, i), "%s = m%d.f" % (nv, i)]
    if name == "branch_alias_field":
        return ["o%d = Box(0)" % i, "p%d = o%d" % (i, i), "if choice():", "    o%d.f = %s" % (i, cur), "%s = p%d.f" % (nv, i)]
    if name == "two_exits":
        return ["%s = %s(%s)" % (nv, "pick" if kind == "int" else "picks", cur)]
    if name == "loop_once":
        return ["%s = %s" % (nv, A6), "for i%d in range(1):" % i, "    %s = %s" % (nv, cur)]
    raise ValueError(name)


STEPS = ["copy", "arith_add", "arith_sub_neg", "arith_mul", "arith_zero", "concat", "concat_left", "ctor_field", "field", "field_overwrite", "other_field",
         "other_object", "alias_write", "alias_read", "list_elem", "list_write", "ident_call", "add_call", "two_sites_add", "two_sites_ident", "param_field",
         "param_read", "returned_object", "branch", "branch_one_arm", "branch_field", "branch_alias_field", "two_exits", "loop_once",
         "sub3", "concat_digits", "digits_concat", "repeat", "maybe_receiver", "nested_alias_param", "two_literal_exits",
         "callee_alias_two_arms", "callee_alias_two_exits", "callee_param_two_arms", "two_sites_wrap", "two_sites_fill", "two_sites_wrap2",
         "join_two_reads", "join_alias_reads", "two_multi_operands", "multi_right_operand",
         "const_plus_maybe_unknown", "maybe_unknown_plus_const", "nested_written_after_store", "nested_param_written_after_store"]
# two-step chains that are always run (shapes known to need both steps)
CORE_TWO = [("branch", "sub3"), ("branch", "arith_zero"), ("branch", "arith_add"), ("branch", "concat"), ("two_exits", "arith_add"), ("branch", "field"),
            ("branch", "ident_call"), ("field", "branch"), ("arith_sub_neg", "arith_add"), ("arith_sub_neg", "arith_mul"), ("arith_sub_neg", "add_call"), ("alias_write", "param_read"), ("returned_object", "alias_write"), ("branch_one_arm", "add_call"),
            ("two_exits", "two_multi_operands"), ("join_two_reads", "arith_add"), ("branch_field", "join_two_reads")]
C09_EXCLUDED = {"list_elem", "list_write", "loop_once", "const_plus_maybe_unknown", "maybe_unknown_plus_const"}      # arrays are collapsed by design; loops are outside C09


class Chain:
    lang = "python"

    def __init__(self, kind, steps, start=None):
        self.kind, self.steps = kind, list(steps)
        self.start = start
        self.name = "%s__%s" % (kind, "-".join(steps) or "none")
        if start is not None:
            self.name = "lit%d__%s" % (start[0], "-".join(steps) or "none")

    def ok(self):
        for s in self.steps:
            if self.kind == "int" and s in STR_ONLY:
                return False
            if self.kind == "str" and s in INT_ONLY:
                return False
        return True

    def loop_free(self):
        return not any(s.startswith("loop") for s in self.steps)

    def render(self):
        first = self.start[1] if self.start is not None else ("3" if self.kind == "int" else '"ab"')
        body = ["v0 = %s" % first]
        cur = "v0"
        for i, s in enumerate(self.steps):
            nv = "v%d" % (i + 1)
            body += step(s, cur, nv, i, self.kind)
            cur = nv
        body += ["last = %s" % cur]
        return "\n".join(TOP + ["def main():"] + ["    " + x for x in body] + ["    return last", "", "res = main()", ""])


# ------------------------------------------------------------------------------------------ javascript
JS_TOP = ["class Box {", "    constructor(v) {", "        this.v = v;", "        this.f = 0;", "        this.g = 0;", "    }", "}",
          "function ident(z) {", "    return z;", "}",
          "function add2(a, b) {", "    var c = a + b;", "    return c;", "}",
          "function setf(q, w) {", "    q.f = w;", "    return q;", "}",
          "function getf(q) {", "    var e = q.f;", "    return e;", "}",
          "function pick(a) {", "    if (choice()) {", "        return a;", "    }", "    var k = 9;", "    return k;", "}",
          "function picks(a) {", "    if (choice()) {", "        return a;", "    }", "    var k = \"z\";", "    return k;", "}",
          "function mkbox(a) {", "    var n = new Box(a);", "    return n;", "}"]
JS_STEPS = ["copy", "arith_add", "arith_sub_neg", "arith_mul", "sub3", "concat", "concat_left", "ctor_field", "field", "field_overwrite", "other_field", "other_object",
            "alias_write", "alias_read", "list_elem", "ident_call", "add_call", "two_sites_add", "two_sites_ident", "param_field", "param_read", "returned_object",
            "branch", "branch_one_arm", "branch_field", "two_exits"]


def js_step(name, cur, nv, i, kind):
    A5, A6 = ("5", "6") if kind == "int" else ('"q"', '"r"')
    t = {
        "copy": ["var %s = %s;" % (nv, cur)],
        "arith_add": ["var %s = %s + 4;" % (nv, cur)],
        "arith_sub_neg": ["var %s = %s - 8;" % (nv, cur)],
        "arith_mul": ["var %s = %s * 2;" % (nv, cur)],
        "sub3": ["var %s = %s - 3;" % (nv, cur)],
        "concat": ['var %s = %s + "k";' % (nv, cur)],
        "concat_left": ['var %s = "k" + %s;' % (nv, cur)],
        "ctor_field": ["var o%d = new Box(%s);" % (i, cur), "var %s = o%d.v;" % (nv, i)],
        "field": ["var o%d = new Box(0);" % i, "o%d.f = %s;" % (i, cur), "var %s = o%d.f;" % (nv, i)],
        "field_overwrite": ["var o%d = new Box(0);" % i, "o%d.f = 1;" % i, "o%d.f = %s;" % (i, cur), "var %s = o%d.f;" % (nv, i)],
        "other_field": ["var o%d = new Box(0);" % i, "o%d.g = %s;" % (i, A5), "o%d.f = %s;" % (i, cur), "var u%d = o%d.g;" % (i, i), "var %s = o%d.f;" % (nv, i)],
        "other_object": ["var o%d = new Box(0);" % i, "var p%d = new Box(1);" % i, "p%d.f = %s;" % (i, A6), "o%d.f = %s;" % (i, cur), "var u%d = p%d.f;" % (i, i),
                         "var %s = o%d.f;" % (nv, i)],
        "alias_write": ["var o%d = new Box(0);" % i, "var p%d = o%d;" % (i, i), "p%d.f = %s;" % (i, cur), "var %s = o%d.f;" % (nv, i)],
        "alias_read": ["var o%d = new Box(0);" % i, "var p%d = o%d;" % (i, i), "o%d.f = %s;" % (i, cur), "var %s = p%d.f;" % (nv, i)],
        "list_elem": ["var xs%d = [%s, 1];" % (i, cur), "var %s = xs%d[0];" % (nv, i)],
        "ident_call": ["var %s = ident(%s);" % (nv, cur)],
        "add_call": ["var %s = add2(%s, 2);" % (nv, cur)],
        "two_sites_add": ["var u%d = add2(1, 1);" % i, "var %s = add2(%s, 2);" % (nv, cur), "var w%d = add2(5, 5);" % i],
        "two_sites_ident": ["var u%d = ident(7);" % i, "var %s = ident(%s);" % (nv, cur), "var w%d = ident(8);" % i],
        "param_field": ["var o%d = new Box(0);" % i, "var r%d = setf(o%d, %s);" % (i, i, cur), "var %s = o%d.f;" % (nv, i)],
        "param_read": ["var o%d = new Box(0);" % i, "o%d.f = %s;" % (i, cur), "var %s = getf(o%d);" % (nv, i)],
        "returned_object": ["var o%d = mkbox(%s);" % (i, cur), "var %s = o%d.v;" % (nv, i)],
        "branch": ["var %s = null;" % nv, "if (choice()) {", "    %s = %s;" % (nv, cur), "} else {", "    %s = %s;" % (nv, A5), "}"],
        "branch_one_arm": ["var %s = %s;" % (nv, A6), "if (choice()) {", "    %s = %s;" % (nv, cur), "}"],
        "branch_field": ["var o%d = new Box(0);" % i, "if (choice()) {", "    o%d.f = %s;" % (i, cur), "} else {", "    o%d.f = %s;" % (i, A6), "}", "var %s = o%d.f;" % (nv, i)],
        "two_exits": ["var %s = %s(%s);" % (nv, "pick" if kind == "int" else "picks", cur)],
    }
    return t[name]


class JsChain(Chain):
    lang = "javascript"

    def __init__(self, kind, steps):
        Chain.__init__(self, kind, steps)
        self.name = "js%s__%s" % (kind, "-".join(steps) or "none")

    def render(self):
        body = ["var v0 = %s;" % ("3" if self.kind == "int" else '"ab"')]
        cur = "v0"
        for i, st in enumerate(self.steps):
            nv = "v%d" % (i + 1)
            body += js_step(st, cur, nv, i, self.kind)
            cur = nv
        body += ["var last = %s;" % cur]
        return "\n".join(JS_TOP + ["function main() {"] + ["    " + x for x in body] + ["    return last;", "}", "var res = main();", ""])


def js_universe(tier, seed):
    import random
    one = [JsChain(k, c) for k in ("int", "str") for c in ([()] + [(s,) for s in JS_STEPS])]
    two = [JsChain(k, c) for k in ("int", "str") for c in itertools.product(JS_STEPS, repeat=2)]
    one, two = [c for c in one if c.ok()], [c for c in two if c.ok()]
    if tier == "thorough":
        return one + two
    return one + random.Random(seed).sample(two, 30)


# hostile string constants (C08, literal-as-data clause): each replaces the benign "ab"
LITERALS = ['"a\\"b"', "'a\"+f()+\"b'", '"x\\\\"', '"+ - * / ** ( )"', '"12"', '"0"', '"1e3"', '"True"', '"a b"', "\"it's\"", '"%s%d"', '"{}"', '"#"']


def universe(tier, seed):
    import random
    one = [Chain(k, c) for k in ("int", "str") for c in ([()] + [(s,) for s in STEPS])]
    two = [Chain(k, c) for k in ("int", "str") for c in itertools.product(STEPS, repeat=2)]
    lits = [Chain("str", c, start=(j, lit)) for j, lit in enumerate(LITERALS) for c in [(), ("concat",), ("concat_left",), ("field",), ("ident_call",), ("copy", "concat")]]
    one, two = [c for c in one if c.ok()], [c for c in two if c.ok()]
    core2 = [c for c in two if tuple(c.steps) in CORE_TWO]
    if tier == "thorough":
        return one + lits + two
    rest = [c for c in two if c not in core2]
    return one + lits + core2 + random.Random(seed).sample(rest, 70)
