"""Flow-chain programs for C10/C11: source -> 0..2 connecting constructs -> sink, plus decoys (clean data at sinks).
Every program is deterministic and straight enough for one concrete execution to be its only execution."""
import itertools

CONNECTORS = ["assign", "binop", "call_return", "field", "element", "dict", "closure", "global", "tuple", "branch", "loop_once", "augmented",
              "list_append", "field_append", "dict_append", "method_store", "alias_field", "reassign_source", "kwargs_extra", "varargs", "keyword_arg", "kwargs_sink",
              "two_deep_second_call", "two_deep_sink_second_call"]
SOURCES = ["call", "param"]
# rule kind object_call: the source is a method call named by the access path of its receiver
METHOD_SOURCES = ["method", "method_path", "this_path"]
SINKS = ["direct", "callee"]


class Chain:
    lang = "python"

    def __init__(self, source, connectors, sink, split=False, defined=False, multifile=False):
        self.source, self.connectors, self.sink, self.split, self.defined, self.multifile = source, list(connectors), sink, split, defined, multifile
        self.name = "%s__%s__%s%s%s%s" % (source, "_".join(connectors) or "none", sink, "@split" if split else "", ("@defx" if defined == "external_value" else "@def") if defined else "", "@mf" if multifile else "")

    def files(self):
        """single-file layout: {p.py}; multi-file layout: the classes and helper functions live in lib.py and are imported by name"""
        text = self.render()
        if not self.multifile:
            return {"p.py": text}
        import re
        lines = text.split("\n")
        k = next(i for i, ln in enumerate(lines) if ln.startswith("def handler("))
        top, main = lines[:k], lines[k:]
        names = re.findall(r"^(?:def|class) (\w+)", "\n".join(top), flags=re.M)
        head = ["from lib import %s" % ", ".join(names), ""] if names else []
        return {"lib.py": "\n".join(top) + "\n", "p.py": "\n".join(head + main)}

    def render(self):
        top, body = ["G0 = None", "", "class Box:", "    def __init__(self):", "        self.f = None", "        self.items = []", "",
                     "    def put(self, a):", "        self.f = a", ""], []
        n = [0]

        def fresh():
            n[0] += 1
            return "v%d" % n[0]
        cur = "v0"
        if self.source == "call":
            body.append("v0 = source()")
        elif self.source == "method":            # plain receiver variable
            body.append("v0 = p_x.read_src()")
        elif self.source == "method_path":       # receiver reached through fields of an imported name
            top = ["from flask import request", ""] + top
            body.append("v0 = request.query_string.decode_src()")
        elif self.source == "this_path":         # receiver is a field of the object the method runs on
            body.append("v0 = self.conn.recv_src()")
        else:
            body.append("v0 = p_src")
        for i, k in enumerate(self.connectors):
            nv = fresh()
            if k == "assign":
                body.append("%s = %s" % (nv, cur))
            elif k == "binop":
                body.append('%s = %s + "x"' % (nv, cur))
            elif k == "augmented":
                body.append('%s = "y"' % nv)
                body.append("%s += %s" % (nv, cur))
            elif k == "call_return":
                top += ["def ident%d(a):" % i, "    b = a", "    return b", ""]
                body.append("%s = ident%d(%s)" % (nv, i, cur))
            elif k == "field":
                body += ["o%d = Box()" % i, "o%d.f = %s" % (i, cur), "%s = o%d.f" % (nv, i)]
            elif k == "element":
                body += ["xs%d = [0, %s]" % (i, cur), "%s = xs%d[1]" % (nv, i)]
            elif k == "dict":
                body += ['d%d = {"k": %s, "j": 1}' % (i, cur), '%s = d%d["k"]' % (nv, i)]
            elif k == "tuple":
                body += ["t%d = (%s, 1)" % (i, cur), "%s = t%d[0]" % (nv, i)]
            elif k == "closure":
                body += ["def inner%d():" % i, "    return %s" % cur, "%s = inner%d()" % (nv, i)]
            elif k == "global":
                top += ["def setg%d(a):" % i, "    global G0", "    G0 = a", ""]
                body += ["setg%d(%s)" % (i, cur), "%s = G0" % nv]
            elif k == "branch":
                body += ["if 1 > 0:", "    %s = %s" % (nv, cur), "else:", '    %s = "clean"' % nv]
            elif k == "list_append":
                body += ["ls%d = []" % i, "ls%d.append(%s)" % (i, cur), "%s = ls%d[0]" % (nv, i)]
            elif k == "field_append":
                body += ["ob%d = Box()" % i, "ob%d.items.append(%s)" % (i, cur), "%s = ob%d.items[0]" % (nv, i)]
            elif k == "dict_append":
                body += ['dq%d = {"q": []}' % i, 'dq%d["q"].append(%s)' % (i, cur), '%s = dq%d["q"][0]' % (nv, i)]
            elif k == "method_store":
                body += ["om%d = Box()" % i, "om%d.put(%s)" % (i, cur), "%s = om%d.f" % (nv, i)]
            elif k == "alias_field":
                body += ["oa%d = Box()" % i, "ob%d = oa%d" % (i + 50, i), "ob%d.f = %s" % (i + 50, cur), "%s = oa%d.f" % (nv, i)]
            elif k == "kwargs_extra":
                # an extra keyword lands in **opts while a declared parameter (mode) stays unfilled
                top += ["def kw%d(req, mode=None, **opts):" % i, '    r = opts["cmd"]', "    return r", ""]
                body.append("%s = kw%d(1, cmd=%s)" % (nv, i, cur))
            elif k == "kwargs_sink":
                # the extra keyword is read out of **opts and reaches a sink inside the callee
                top += ["def kws%d(req, mode=None, **opts):" % i, '    sink(opts["cmd"])', "    return req", ""]
                body += ["w%d = kws%d(1, cmd=%s)" % (i, i, cur), "%s = %s" % (nv, cur)]
            elif k == "varargs":
                top += ["def va%d(first, *rest):" % i, "    q = rest[0]", "    return q", ""]
                body.append("%s = va%d(1, %s)" % (nv, i, cur))
            elif k == "keyword_arg":
                top += ["def kn%d(req, mode=None, cmd=None):" % i, "    return cmd", ""]
                body.append("%s = kn%d(1, cmd=%s)" % (nv, i, cur))
            elif k == "reassign_source":
                # the same variable is assigned from a source a second time; the second value travels on through its own assignment
                body += ["keep%d = %s" % (i, cur), "sink(keep%d)" % i, "%s = source()" % cur, "%s = %s" % (nv, cur)]
            elif k == "loop_once":
                body += ['%s = "clean"' % nv, "for i%d in range(1):" % i, "    %s = %s" % (nv, cur)]
            elif k == "two_deep_second_call":
                # a forwarding function two calls deep, called first with clean data and then with the tainted value
                top += ["def lg%d(x):" % i, "    return x", "", "def hd%d(p):" % i, "    q = lg%d(p)" % i, "    return q", ""]
                body += ['s%d = hd%d("static")' % (i, i), "%s = hd%d(%s)" % (nv, i, cur)]
            elif k == "two_deep_sink_second_call":
                # the same, with the sink inside the inner function
                top += ["def lgs%d(x):" % i, "    sink(x)", "    return 0", "", "def hds%d(p):" % i, "    w = lgs%d(p)" % i, "    return 0", ""]
                body += ['s%d = hds%d("static")' % (i, i), "t%d = hds%d(%s)" % (i, i, cur), "%s = %s" % (nv, cur)]
            else:
                raise ValueError(k)
            cur = nv
        # decoys: clean data reaches a sink, tainted data reaches a non-sink
        body += ['clean = "c" + "d"', "other(%s)" % cur]
        if self.sink == "direct":
            body += ["sink(%s)" % cur, "sink(clean)"]
        else:
            top += ["def use(a):", "    sink(a)", ""]
            body += ["use(%s)" % cur, "sink(clean)"]
        head = "def handler(p_src):" if self.source == "param" else "def handler(p_x):"
        if self.defined == "external_value":
            # the program's own source returns what external code gives it (a fresh unknown value per call), its sink does nothing
            top = ["def source():", "    return input()", "", "def sink(p):", "    pass", ""] + top
        elif self.defined:
            # source and sink are functions of the analysed program (the rules still go by their names)
            top = ["def source():", "    return \"data\"", "", "def sink(p):", "    return 0", ""] + top
        if self.source == "this_path":
            lines = top + ["class H:", "    def __init__(self, c):", "        self.conn = c", "", "    def handle(self, p_x):"] + ["        " + x for x in body] \
                + ["", "hh = H(None)", 'hh.handle("a")', ""]
            return "\n".join(lines)
        lines = top + [head] + ["    " + x for x in body] + ["", 'handler("a")', ""]
        return "\n".join(lines)


JS_CONNECTORS = ["assign", "binop", "call_return", "field", "element", "dict", "closure", "global", "branch", "loop_once", "augmented",
                 "list_append", "field_append", "method_store", "alias_field", "reassign_source"]


class JsChain(Chain):
    """the same flow chains written in javascript (the connectors that have a counterpart)"""
    lang = "javascript"

    def __init__(self, source, connectors, sink):
        Chain.__init__(self, source, connectors, sink)
        self.name = "js_" + self.name

    def render(self):
        top = ["var G0 = null;", "class Box {", "    constructor() {", "        this.f = null;", "        this.items = [];", "    }",
               "    put(a) {", "        this.f = a;", "    }", "}"]
        body = []
        cur = "v0"
        body.append("var v0 = source();" if self.source == "call" else "var v0 = p_src;")
        for i, k in enumerate(self.connectors):
            nv = "v%d" % (i + 1)
            if k == "assign":
                body.append("var %s = %s;" % (nv, cur))
            elif k == "binop":
                body.append('var %s = %s + "x";' % (nv, cur))
            elif k == "augmented":
                body += ['var %s = "y";' % nv, "%s += %s;" % (nv, cur)]
            elif k == "call_return":
                top += ["function ident%d(a) {" % i, "    var b = a;", "    return b;", "}"]
                body.append("var %s = ident%d(%s);" % (nv, i, cur))
            elif k == "field":
                body += ["var o%d = new Box();" % i, "o%d.f = %s;" % (i, cur), "var %s = o%d.f;" % (nv, i)]
            elif k == "element":
                body += ["var xs%d = [0, %s];" % (i, cur), "var %s = xs%d[1];" % (nv, i)]
            elif k == "dict":
                body += ['var d%d = {"k": %s, "j": 1};' % (i, cur), 'var %s = d%d["k"];' % (nv, i)]
            elif k == "closure":
                body += ["function inner%d() {" % i, "    return %s;" % cur, "}", "var %s = inner%d();" % (nv, i)]
            elif k == "global":
                top += ["function setg%d(a) {" % i, "    G0 = a;", "}"]
                body += ["setg%d(%s);" % (i, cur), "var %s = G0;" % nv]
            elif k == "branch":
                body += ["var %s = null;" % nv, "if (1 > 0) {", "    %s = %s;" % (nv, cur), "} else {", '    %s = "clean";' % nv, "}"]
            elif k == "reassign_source":
                body += ["var keep%d = %s;" % (i, cur), "sink(keep%d);" % i, "%s = source();" % cur, "var %s = %s;" % (nv, cur)]
            elif k == "loop_once":
                body += ['var %s = "clean";' % nv, "for (var i%d = 0; i%d < 1; i%d++) {" % (i, i, i), "    %s = %s;" % (nv, cur), "}"]
            elif k == "list_append":
                body += ["var ls%d = [];" % i, "ls%d.push(%s);" % (i, cur), "var %s = ls%d[0];" % (nv, i)]
            elif k == "field_append":
                body += ["var ob%d = new Box();" % i, "ob%d.items.push(%s);" % (i, cur), "var %s = ob%d.items[0];" % (nv, i)]
            elif k == "method_store":
                body += ["var om%d = new Box();" % i, "om%d.put(%s);" % (i, cur), "var %s = om%d.f;" % (nv, i)]
            elif k == "alias_field":
                body += ["var oa%d = new Box();" % i, "var ob%d = oa%d;" % (i + 50, i), "ob%d.f = %s;" % (i + 50, cur), "var %s = oa%d.f;" % (nv, i)]
            else:
                raise ValueError(k)
            cur = nv
        body += ['var clean = "c" + "d";', "other(%s);" % cur]
        if self.sink == "direct":
            body += ["sink(%s);" % cur, "sink(clean);"]
        else:
            top += ["function use(a) {", "    sink(a);", "}"]
            body += ["use(%s);" % cur, "sink(clean);"]
        head = "function handler(p_src) {" if self.source == "param" else "function handler(p_x) {"
        return "\n".join(top + [head] + ["    " + x for x in body] + ["}", 'handler("a");', ""])


def js_universe(tier, seed):
    import random
    one = [JsChain(s, c, k) for s in SOURCES for c in ([()] + [(x,) for x in JS_CONNECTORS]) for k in SINKS]
    two = [JsChain(s, c, k) for s in SOURCES for c in itertools.product(JS_CONNECTORS, repeat=2) for k in SINKS]
    if tier == "thorough":
        return one + two
    return one + random.Random(seed).sample(two, 30)


def universe(tier, seed):
    import random
    one = [Chain(s, c, k) for s in SOURCES for c in ([()] + [(x,) for x in CONNECTORS]) for k in SINKS]
    two = [Chain(s, c, k) for s in SOURCES for c in itertools.product(CONNECTORS, repeat=2) for k in SINKS]
    # the same chains under a rule set in which every rule follows a same-name rule restricted to another file
    split = [Chain(c.source, c.connectors, c.sink, split=True) for c in one if len(c.connectors) == 0 or c.connectors[0] in ("assign", "field", "call_return", "list_append")]
    defd = [Chain(s, c, k, defined=True) for s in SOURCES for c in [(), ("assign",), ("reassign_source",), ("field",), ("call_return",), ("reassign_source", "assign")] for k in SINKS]
    # multi-file layout: helper functions, classes and the callee that holds the sink are defined in another file
    mf = [Chain(s, c, k, multifile=True) for s in SOURCES for c in [(), ("call_return",), ("field",), ("method_store",), ("two_deep_second_call",), ("kwargs_sink",),
                                                                      ("call_return", "field"), ("alias_field", "call_return")] for k in SINKS]
    mf += [Chain(s, c, k, defined=True, multifile=True) for s in SOURCES for c in [(), ("call_return",)] for k in SINKS]
    meth = [Chain(s, c, k) for s in METHOD_SOURCES for c in [(), ("assign",), ("field",), ("call_return",), ("binop", "assign")] for k in SINKS]
    defx = [Chain(s, c, k, defined="external_value") for s in SOURCES for c in [(), ("assign",), ("reassign_source",), ("reassign_source", "assign"), ("call_return",)] for k in SINKS]
    one = one + defd + defx + meth + mf
    if tier == "thorough":
        return one + split + two
    return one + split + random.Random(seed).sample(two, 60)


SETTINGS = {
    "entry.yaml": "- method_list: [\"%unit_init\"]\n",
    "source.yaml": "- lang: python\n  rules:\n    - operation: call_stmt\n      name: source\n      tag: [\"%target\"]\n"
                   "    - operation: object_call\n      name: p_x.read_src\n      tag: [\"%target\"]\n"
                   "    - operation: object_call\n      name: request.query_string.decode_src\n      tag: [\"%target\"]\n"
                   "    - operation: object_call\n      name: \"%this.conn.recv_src\"\n      tag: [\"%target\"]\n"
                   "    - operation: parameter_decl\n      name: p_src\n",
    "sink.yaml": "- lang: python\n  rules:\n    - operation: call_stmt\n      name: sink\n      target: [\\%arg0]\n      vuln_type: generic\n",
    "propagation.yaml": "[]\n",
}


SETTINGS_SPLIT = {
    "entry.yaml": SETTINGS["entry.yaml"],
    "source.yaml": "- lang: python\n  rules:\n"
                   "    - operation: call_stmt\n      name: source\n      unit_name: elsewhere.py\n      tag: [\"%target\"]\n"
                   "    - operation: call_stmt\n      name: source\n      unit_name: p.py\n      tag: [\"%target\"]\n"
                   "    - operation: parameter_decl\n      name: p_src\n      unit_name: elsewhere.py\n"
                   "    - operation: parameter_decl\n      name: p_src\n      unit_name: p.py\n",
    "sink.yaml": "- lang: python\n  rules:\n"
                 "    - operation: call_stmt\n      name: sink\n      unit_name: elsewhere.py\n      target: [\\%arg1]\n      vuln_type: generic\n"
                 "    - operation: call_stmt\n      name: sink\n      unit_name: p.py\n      target: [\\%arg0]\n      vuln_type: generic\n",
    "propagation.yaml": "[]\n",
}

SETTINGS_JS = {k: v.replace("lang: python", "lang: javascript") for k, v in SETTINGS.items()}
