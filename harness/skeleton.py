"""Control skeletons: language-independent statement trees enumerated exhaustively by size and depth,
and their renderings in the supported frontends.  Used by C04 (CFG), C06 (reaching definitions) and others.

A skeleton is a tuple tree:
  ("s",)                         a simple statement
  ("if", then, else|None)        then/else are lists of skeletons
  ("while", body)   ("for", body)   ("forin", body)   ("dowhile", body)   ("whileelse", body, else)
  ("break",) ("continue",) ("return",)
  ("try", body, n_handlers, else|None, finally|None)
  ("switch", [case bodies], default|None)
  ("def",)  ("class",)           nested declarations (one statement for the enclosing method)
"""
import itertools

LOOPS = ("while", "for", "forin", "dowhile")


def size(sk):
    k = sk[0]
    if k in ("s", "d", "break", "continue", "return", "def", "class", "goto", "label"):
        return 1
    if k == "if":
        return 1 + sum(size(x) for x in sk[1]) + sum(size(x) for x in (sk[2] or []))
    if k in LOOPS:
        return 1 + sum(size(x) for x in sk[1])
    if k == "whileelse":
        return 1 + sum(size(x) for x in sk[1]) + sum(size(x) for x in sk[2])
    if k == "try":
        return 1 + sum(size(x) for x in sk[1]) + sk[2] + sum(size(x) for x in (sk[3] or [])) + sum(size(x) for x in (sk[4] or []))
    if k == "switch":
        return 1 + sum(1 + sum(size(x) for x in b) for b in sk[1]) + (1 + sum(size(x) for x in sk[2]) if sk[2] is not None else 0)
    raise ValueError(k)


def blocks(n, depth, in_loop, kinds, nonempty=True):
    """All statement lists of total size exactly n."""
    if n == 0:
        return [[]] if not nonempty else []
    out = []
    for first in range(1, n + 1):
        for st in stmts(first, depth, in_loop, kinds):
            for rest in blocks(n - first, depth, in_loop, kinds, nonempty=False):
                # nothing after an unconditional jump in the same block (unreachable code is not generated)
                if st[0] in ("break", "continue", "return") and rest:
                    continue
                out.append([st] + rest)
    return out


def stmts(n, depth, in_loop, kinds):
    """All single statements of size exactly n."""
    out = []
    if n == 1:
        if "s" in kinds:
            out.append(("s",))
        for dk in sorted(k for k in kinds if k.startswith("d:")):
            out.append(("d", dk[2:]))
        if "return" in kinds:
            out.append(("return",))
        if in_loop and "break" in kinds:
            out.append(("break",))
        if in_loop and "continue" in kinds:
            out.append(("continue",))
        if "def" in kinds:
            out.append(("def",))
        if "class" in kinds:
            out.append(("class",))
        return out
    if depth == 0:
        return out
    m = n - 1
    if "if" in kinds:
        for a in range(1, m + 1):
            for tb in blocks(a, depth - 1, in_loop, kinds):
                if m - a == 0:
                    out.append(("if", tb, None))
                else:
                    for eb in blocks(m - a, depth - 1, in_loop, kinds):
                        out.append(("if", tb, eb))
    for lk in LOOPS:
        if lk in kinds:
            for b in blocks(m, depth - 1, True, kinds):
                out.append((lk, b))
    if "whileelse" in kinds and m >= 2:
        for a in range(1, m):
            for b in blocks(a, depth - 1, True, kinds):
                for e in blocks(m - a, depth - 1, in_loop, kinds):
                    out.append(("whileelse", b, e))
    if "try" in kinds and m >= 2:
        # body >= 1, handlers h >= 1 (each with a one-statement body counted in h), optional else / finally
        for body_n in range(1, m):
            for h in (1, 2):
                rest = m - body_n - h
                if rest < 0:
                    continue
                for bb in blocks(body_n, depth - 1, in_loop, kinds):
                    if rest == 0:
                        out.append(("try", bb, h, None, None))
                    else:
                        for fb in blocks(rest, depth - 1, in_loop, kinds):
                            out.append(("try", bb, h, None, fb))
                            out.append(("try", bb, h, fb, None))
    if "switch" in kinds and m >= 2:
        # two cases (1 + body each) and optionally a default
        for a in range(1, m - 2):
            b = m - 2 - a
            if b < 1:
                continue
            for ba in blocks(a, depth - 1, in_loop, kinds):
                for bb in blocks(b, depth - 1, in_loop, kinds):
                    out.append(("switch", [ba, bb], None))
        for a in range(1, m - 1):
            d = m - 2 - a
            if d < 1:
                continue
            for ba in blocks(a, depth - 1, in_loop, kinds):
                for bd in blocks(d, depth - 1, in_loop, kinds):
                    out.append(("switch", [ba], bd))
                    if "switch_default_first" in kinds:
                        out.append(("switch", [ba], bd, "first"))      # the default clause written before the cases
    return out


def goto_shapes():
    """forward gotos: over an if/else whose arms both return (the label is reachable through the goto only), over plain statements,
    out of a loop, into the arm of an if, unconditional (dead code in between), two gotos to one label, two labels"""
    G = lambda l: ("if", [("goto", l)], None)  # noqa: E731
    return [
        [G("L1"), ("if", [("return",)], [("return",)]), ("label", "L1"), ("s",), ("return",)],
        [("s",), G("L1"), ("s",), ("label", "L1"), ("s",)],
        [("while", [("s",), G("L1")]), ("s",), ("label", "L1"), ("s",), ("return",)],
        [("if", [("goto", "L1")], [("s",)]), ("if", [("s",), ("label", "L1"), ("s",)], None), ("s",)],
        [("s",), ("goto", "L1"), ("s",), ("label", "L1"), ("s",)],
        [G("L1"), ("s",), G("L1"), ("s",), ("label", "L1"), ("s",)],
        [G("L2"), G("L1"), ("s",), ("label", "L1"), ("s",), ("label", "L2"), ("s",)],
        [("if", [("if", [("goto", "L1")], None), ("s",)], [("goto", "L1")]), ("s",), ("label", "L1"), ("return",)],
        [("for", [G("L1"), ("s",)]), ("label", "L1"), ("s",)],
        [("dowhile", [("s",), G("L1")]), ("s",), ("label", "L1"), ("s",)],
    ]


def enumerate_methods(max_size, depth, kinds):
    """All method bodies (statement lists) up to max_size."""
    out = []
    for n in range(1, max_size + 1):
        out += blocks(n, depth, False, kinds)
    return out


def features(body):
    fs = set()

    def walk(b):
        for st in b:
            fs.add(st[0])
            if st[0] == "if":
                walk(st[1])
                walk(st[2] or [])
            elif st[0] in LOOPS:
                walk(st[1])
            elif st[0] == "whileelse":
                walk(st[1])
                walk(st[2])
            elif st[0] == "try":
                walk(st[1])
                walk(st[3] or [])
                walk(st[4] or [])
                if st[3]:
                    fs.add("try_else")
                if st[4]:
                    fs.add("try_finally")
            elif st[0] == "switch":
                for x in st[1]:
                    walk(x)
                if st[2] is not None:
                    walk(st[2])
                    fs.add("switch_default")
                    if len(st) > 3 and st[3] == "first":
                        fs.add("switch_default_first")
    walk(body)
    return fs


# ------------------------------------------------------------------------------------------ renderers
DATA = {  # data statements over two variables
    "ax": "x = %d", "ay": "y = %d", "yx": "y = x", "xy": "x = y", "ux": "s(x)", "uy": "s(y)", "inc": "x = x + %d", "cx": "c = x",
    "ac": "c = %d", "yc": "y = c", "cond": "x = y if c > %d else c", "pass": "pass",
}


class Py:
    name = "python"
    ext = ".py"

    def data(self, kind):
        t = DATA[kind]
        return t % self.uid() if "%d" in t else t
    kinds = {"s", "if", "while", "whileelse", "forin", "break", "continue", "return", "try", "switch", "def", "class"}
    fallthrough = False
    switch_break = False

    def method(self, name, body):
        self.n = 0
        lines = ["def %s(c, xs):" % name]
        if getattr(self, "data_mode", False):
            lines += ["    x = 0", "    y = 0"]
        self.block(body, 1, lines)
        return "\n".join(lines) + "\n"

    def uid(self):
        self.n += 1
        return self.n

    def block(self, b, ind, lines):
        pad = "    " * ind
        if not b:
            lines.append(pad + "pass")
        for st in b:
            k = st[0]
            if k == "s":
                lines.append(pad + "s(%d)" % self.uid())
            elif k == "d":
                lines.append(pad + self.data(st[1]))
            elif k == "return":
                lines.append(pad + ("return x" if getattr(self, "data_mode", False) else "return c"))
            elif k == "break":
                lines.append(pad + "break")
            elif k == "continue":
                lines.append(pad + "continue")
            elif k == "def":
                lines.append(pad + "def inner%d(q):" % self.uid())
                lines.append(pad + "    return q")
            elif k == "class":
                lines.append(pad + "class Inner%d:" % self.uid())
                lines.append(pad + "    z = 1")
            elif k == "if":
                lines.append(pad + "if %s > %d:" % ("y" if getattr(self, "data_mode", False) else "c", self.uid()))
                self.block(st[1], ind + 1, lines)
                if st[2] is not None:
                    lines.append(pad + "else:")
                    self.block(st[2], ind + 1, lines)
            elif k == "while":
                lines.append(pad + "while %s < %d:" % ("x" if getattr(self, "data_mode", False) else "c", self.uid()))
                self.block(st[1], ind + 1, lines)
            elif k == "forin":
                lines.append(pad + "for e%d in xs:" % self.uid())
                self.block(st[1], ind + 1, lines)
            elif k == "whileelse":
                lines.append(pad + "while c < %d:" % self.uid())
                self.block(st[1], ind + 1, lines)
                lines.append(pad + "else:")
                self.block(st[2], ind + 1, lines)
            elif k == "try":
                lines.append(pad + "try:")
                self.block(st[1], ind + 1, lines)
                for h in range(st[2]):
                    lines.append(pad + "except E%d:" % (h + 1))
                    lines.append(pad + "    s(%d)" % self.uid())
                if st[3] is not None:
                    lines.append(pad + "else:")
                    self.block(st[3], ind + 1, lines)
                if st[4] is not None:
                    lines.append(pad + "finally:")
                    self.block(st[4], ind + 1, lines)
            elif k == "switch":
                lines.append(pad + "match c:")
                for i, cb in enumerate(st[1]):
                    lines.append(pad + "    case %d:" % (i + 1))
                    self.block(cb, ind + 2, lines)
                if st[2] is not None:
                    lines.append(pad + "    case _:")
                    self.block(st[2], ind + 2, lines)
            else:
                raise ValueError(k)


class CLike:
    """JavaScript / TypeScript / Java / C / PHP / Go share most of the surface syntax."""
    kinds = {"s", "if", "while", "for", "dowhile", "break", "continue", "return", "switch"}
    fallthrough = True
    switch_break = True
    semi = ";"

    def uid(self):
        self.n += 1
        return self.n

    def var(self, v):
        return v

    def cond(self, op):
        return "%s %s %d" % (self.var("c"), op, self.uid())

    def block(self, b, ind, lines):
        pad = "    " * ind
        for st in b:
            k = st[0]
            if k == "s":
                lines.append(pad + "s(%d)%s" % (self.uid(), self.semi))
            elif k == "return":
                lines.append(pad + "return %s%s" % (self.var("c"), self.semi))
            elif k == "goto":
                lines.append(pad + "goto %s%s" % (st[1], self.semi))
            elif k == "label":
                lines.append("%s:" % st[1])
            elif k == "break":
                lines.append(pad + "break" + self.semi)
            elif k == "continue":
                lines.append(pad + "continue" + self.semi)
            elif k == "if":
                lines.append(pad + "if (%s) {" % self.cond(">"))
                self.block(st[1], ind + 1, lines)
                if st[2] is not None:
                    lines.append(pad + "} else {")
                    self.block(st[2], ind + 1, lines)
                lines.append(pad + "}")
            elif k == "while":
                lines.append(pad + "while (%s) {" % self.cond("<"))
                self.block(st[1], ind + 1, lines)
                lines.append(pad + "}")
            elif k == "dowhile":
                lines.append(pad + "do {")
                self.block(st[1], ind + 1, lines)
                lines.append(pad + "} while (%s)%s" % (self.cond("<"), self.semi))
            elif k == "for":
                self.for_loop(st, ind, lines)
            elif k == "forin":
                self.forin_loop(st, ind, lines)
            elif k == "try":
                self.try_stmt(st, ind, lines)
            elif k == "switch":
                lines.append(pad + "switch (%s) {" % self.var("c"))
                dfirst = len(st) > 3 and st[3] == "first"
                if dfirst:
                    lines.append(pad + "    default:")
                    self.block(st[2], ind + 2, lines)
                for i, cb in enumerate(st[1]):
                    lines.append(pad + "    case %d:" % (i + 1))
                    self.block(cb, ind + 2, lines)
                if st[2] is not None and not dfirst:
                    lines.append(pad + "    default:")
                    self.block(st[2], ind + 2, lines)
                lines.append(pad + "}")
            elif k == "def":
                self.nested_def(ind, lines)
            elif k == "class":
                self.nested_class(ind, lines)
            else:
                raise ValueError(k)

    def for_loop(self, st, ind, lines):
        pad = "    " * ind
        i = "i%d" % self.uid()
        lines.append(pad + "for (%s = 0; %s < %s; %s++) {" % (self.decl(i), self.var(i), self.var("c"), self.var(i)))
        self.block(st[1], ind + 1, lines)
        lines.append(pad + "}")

    def decl(self, i):
        return "int " + i


class Js(CLike):
    name = "javascript"
    ext = ".js"
    kinds = CLike.kinds | {"forin", "try", "def", "class"}

    def method(self, name, body):
        self.n = 0
        lines = ["function %s(c, xs) {" % name]
        self.block(body, 1, lines)
        lines.append("}")
        return "\n".join(lines) + "\n"

    def decl(self, i):
        return "let " + i

    def forin_loop(self, st, ind, lines):
        pad = "    " * ind
        lines.append(pad + "for (const e%d of xs) {" % self.uid())
        self.block(st[1], ind + 1, lines)
        lines.append(pad + "}")

    def try_stmt(self, st, ind, lines):
        pad = "    " * ind
        lines.append(pad + "try {")
        self.block(st[1], ind + 1, lines)
        lines.append(pad + "} catch (e%d) {" % self.uid())
        lines.append(pad + "    s(%d);" % self.uid())
        if st[4] is not None:
            lines.append(pad + "} finally {")
            self.block(st[4], ind + 1, lines)
        lines.append(pad + "}")

    def nested_def(self, ind, lines):
        pad = "    " * ind
        lines.append(pad + "function inner%d(q) { return q; }" % self.uid())

    def nested_class(self, ind, lines):
        pad = "    " * ind
        lines.append(pad + "class Inner%d { }" % self.uid())


class Ts(Js):
    name = "typescript"
    ext = ".ts"

    def method(self, name, body):
        self.n = 0
        lines = ["function %s(c: number, xs: number[]) {" % name]
        self.block(body, 1, lines)
        lines.append("}")
        return "\n".join(lines) + "\n"


class Java(CLike):
    name = "java"
    ext = ".java"
    kinds = CLike.kinds | {"forin", "try"}

    def method(self, name, body):
        self.n = 0
        lines = ["    static int %s(int c, int[] xs) {" % name]
        self.block(body, 2, lines)
        if not body or body[-1][0] != "return":
            lines.append("        return 0;")
        lines.append("    }")
        return "\n".join(lines) + "\n"

    def forin_loop(self, st, ind, lines):
        pad = "    " * ind
        lines.append(pad + "for (int e%d : xs) {" % self.uid())
        self.block(st[1], ind + 1, lines)
        lines.append(pad + "}")

    def try_stmt(self, st, ind, lines):
        pad = "    " * ind
        lines.append(pad + "try {")
        self.block(st[1], ind + 1, lines)
        for h in range(st[2]):
            lines.append(pad + "} catch (E%d e%d) {" % (h + 1, self.uid()))
            lines.append(pad + "    s(%d);" % self.uid())
        if st[4] is not None:
            lines.append(pad + "} finally {")
            self.block(st[4], ind + 1, lines)
        lines.append(pad + "}")

    def wrap(self, methods):
        return "class K {\n" + "".join(methods) + "}\n"


class Cc(CLike):
    name = "c"
    ext = ".c"
    kinds = CLike.kinds | {"goto", "label"}

    def method(self, name, body):
        self.n = 0
        lines = ["int %s(int c, int *xs) {" % name]
        self.block(body, 1, lines)
        if not body or body[-1][0] != "return":
            lines.append("    return 0;")
        lines.append("}")
        return "\n".join(lines) + "\n"


class Php(CLike):
    name = "php"
    ext = ".php"
    kinds = CLike.kinds | {"forin", "try"}

    def var(self, v):
        return "$" + v

    def decl(self, i):
        return "$" + i

    def method(self, name, body):
        self.n = 0
        lines = ["function %s($c, $xs) {" % name]
        self.block(body, 1, lines)
        lines.append("}")
        return "\n".join(lines) + "\n"

    def forin_loop(self, st, ind, lines):
        pad = "    " * ind
        lines.append(pad + "foreach ($xs as $e%d) {" % self.uid())
        self.block(st[1], ind + 1, lines)
        lines.append(pad + "}")

    def try_stmt(self, st, ind, lines):
        pad = "    " * ind
        lines.append(pad + "try {")
        self.block(st[1], ind + 1, lines)
        for h in range(st[2]):
            lines.append(pad + "} catch (E%d $e%d) {" % (h + 1, self.uid()))
            lines.append(pad + "    s(%d);" % self.uid())
        if st[4] is not None:
            lines.append(pad + "} finally {")
            self.block(st[4], ind + 1, lines)
        lines.append(pad + "}")

    def wrap(self, methods):
        return "<?php\n" + "".join(methods)


class Go(CLike):
    name = "go"
    ext = ".go"
    kinds = {"s", "if", "while", "for", "forin", "break", "continue", "return", "switch"}
    fallthrough = False
    switch_break = True
    semi = ""

    def method(self, name, body):
        self.n = 0
        lines = ["func %s(c int, xs []int) int {" % name]
        self.block(body, 1, lines)
        if not body or body[-1][0] != "return":
            lines.append("    return 0")
        lines.append("}")
        return "\n".join(lines) + "\n"

    def block(self, b, ind, lines):
        pad = "    " * ind
        for st in b:
            k = st[0]
            if k == "if":
                lines.append(pad + "if %s {" % self.cond(">"))
                self.block(st[1], ind + 1, lines)
                if st[2] is not None:
                    lines.append(pad + "} else {")
                    self.block(st[2], ind + 1, lines)
                lines.append(pad + "}")
            elif k == "while":
                lines.append(pad + "for %s {" % self.cond("<"))
                self.block(st[1], ind + 1, lines)
                lines.append(pad + "}")
            elif k == "for":
                i = "i%d" % self.uid()
                lines.append(pad + "for %s := 0; %s < c; %s++ {" % (i, i, i))
                self.block(st[1], ind + 1, lines)
                lines.append(pad + "}")
            elif k == "forin":
                lines.append(pad + "for _, e%d := range xs {" % self.uid())
                self.block(st[1], ind + 1, lines)
                lines.append(pad + "}")
            elif k == "switch":
                lines.append(pad + "switch c {")
                dfirst = len(st) > 3 and st[3] == "first"
                if dfirst:
                    lines.append(pad + "default:")
                    self.block(st[2], ind + 1, lines)
                for i, cb in enumerate(st[1]):
                    lines.append(pad + "case %d:" % (i + 1))
                    self.block(cb, ind + 1, lines)
                if st[2] is not None and not dfirst:
                    lines.append(pad + "default:")
                    self.block(st[2], ind + 1, lines)
                lines.append(pad + "}")
            else:
                CLike.block(self, [st], ind, lines)

    def wrap(self, methods):
        return "package main\n\n" + "".join(methods)


RENDERERS = [Py(), Js(), Ts(), Java(), Cc(), Php(), Go()]


def render_unit(r, bodies, prefix="m"):
    """One source file holding one method per body; returns (text, [method names])."""
    names, parts = [], []
    for i, b in enumerate(bodies):
        nm = "%s%04d" % (prefix, i)
        names.append(nm)
        parts.append(r.method(nm, b) + "\n")
    # the first method of every C-like unit is parameterless and starts with a do-while (state shared between the analyses of successive methods shows
    # up in the methods that follow it); it is not judged itself
    if "dowhile" in r.kinds and r.name != "go":
        pre = r.method("zz_pre", [("dowhile", [("s",)])])
        head = pre.split("\n", 1)[0]
        pre = pre.replace(head, head[:head.index("(")] + "() {", 1)
        glob = {"java": "    static int c;\n", "c": "int c;\n"}.get(r.name, "")
        parts.insert(0, glob + pre + "\n")
    text = r.wrap(parts) if hasattr(r, "wrap") else "".join(parts)
    return text, names


def supported(r, body):
    return features(body) - {"try_else", "try_finally", "switch_default", "switch_default_first"} <= r.kinds and \
        not ("try_else" in features(body) and r.name != "python") and not ("switch_default_first" in features(body) and r.name == "python")


def size_of_body(b):
    return sum(size(x) for x in b)
