"""C03 — emitted GIR is structurally well-formed for every input in every language (trace validation by FlattenTrace.tla)."""
import json
import os
import random
import re
import shutil
import time

import common as C
import corpus

PID = "C03"
DECL_EXTRA = {"import_stmt", "from_import_stmt", "export_stmt", "type_alias_decl", "package_stmt"}
NOT_BODY = {"stmt_id", "parent_stmt_id", "start_row", "start_col", "end_row", "end_col", "unit_id", "original_stmt", "operation"}
BATCH = 40


def where_of(tb):
    """Innermost frame inside lian of a traceback: 'file.py:function'."""
    frames = re.findall(r'File "([^"]+)", line \d+, in (\S+)', tb or "")
    for f, fn in reversed(frames):
        if "/lian/" in f:
            return "%s:%s" % (os.path.basename(f), fn)
    return "?"


def exc_line(tb):
    lines = [x for x in (tb or "").strip().splitlines() if x.strip()]
    return lines[-1][:160] if lines else ""


def universe(tier, seed):
    """[(lang, tag, text)] — fixed enumeration; the quick tier takes the whole corpus plus a seeded sample of the mutants."""
    rng = random.Random(seed)
    out = []
    for lang in corpus.LANG_EXT:
        files = corpus.corpus_files(lang, include_real_cases=100 if tier == "thorough" else 0)
        muts = []
        for p in files:
            data = corpus.read(p)
            t = corpus.text_of(data)
            tag = os.path.relpath(p, os.path.join(C.REPO, "tests")).replace(os.sep, "__")
            if t is not None:
                out.append((lang, tag, t))
            if "/real_cases/" in p:
                continue
            for mtag, mdata in (corpus.mutants_deep(data) if tier == "thorough" else corpus.mutants(data)):
                mt = corpus.text_of(mdata)
                if mt is not None and mt.strip():
                    muts.append((lang, tag + "@" + mtag, mt))
        if tier == "quick":
            muts = rng.sample(muts, min(len(muts), 60))
        out += muts
        # valid programs with unusual literals (escapes that are not valid UTF-8, raw / template / text-block strings, numeric forms)
        out += [(lang, "stress__" + tag, text) for tag, text in corpus.literal_stress(lang)]
    return out


def witness_items():
    """Minimal failing inputs of the listed findings: always part of the explored universe (regression core)."""
    out = []
    d = os.path.join(C.ROOT, "witnesses", PID)
    if os.path.isdir(d):
        for n in sorted(os.listdir(d)):
            with open(os.path.join(d, n)) as f:
                w = json.load(f)
            out.append((w["lang"], w["tag"] + "#" + n, w["source"]))
    return out


def project_jobs(items, root, stem):
    """Pack items of one language into multi-file projects."""
    jobs = []
    by_lang = {}
    for it in items:
        by_lang.setdefault(it[0], []).append(it)
    for lang, its in by_lang.items():
        for k in range(0, len(its), BATCH):
            chunk = its[k:k + BATCH]
            files = {}
            names = {}
            for i, (_, tag, text) in enumerate(chunk):
                fn = "u%04d%s" % (i, corpus.LANG_EXT[lang])
                files[fn] = text
                names["u%04d" % i] = tag
            name = "%s_%s_%04d" % (stem, lang, k)
            jobs.append(dict(cmd="lang", lang=lang, files=files, dir=os.path.join(root, name), export=["gir", "modules"],
                             flags=["--nomock"], timeout=600, _name=name, _names=names, _lang=lang, _chunk=chunk))
    return jobs


def to_project(job, res, body_attrs):
    """Result of one lian run -> the record FlattenTrace walks."""
    gir = res["exports"].get("gir") or []
    mods = {m.get("unit_id"): m for m in (res["exports"].get("modules") or []) if m.get("unit_id") is not None}
    units, order = {}, []
    for row in gir:
        uid = row.get("unit_id")
        if uid not in units:
            units[uid] = []
            order.append(uid)
        units[uid].append(row)
    # an attribute name is body-valued when somewhere it holds the id of a block whose parent is that very statement
    # (a chance collision of e.g. a line number with a block id does not satisfy the ownership test)
    owner = {r["stmt_id"]: r.get("parent_stmt_id") for r in gir if r.get("operation") == "block_start"}
    for r in gir:
        if r.get("operation") in ("block_start", "block_end"):
            continue
        for a, v in r.items():
            if a not in NOT_BODY and isinstance(v, int) and not isinstance(v, bool) and owner.get(v, -1) == r.get("stmt_id"):
                body_attrs.add(a)
    out_units = []
    for uid in order:
        rows = []
        for r in units[uid]:
            op = r.get("operation", "?")
            bodies = [v for a, v in r.items() if a in body_attrs and isinstance(v, int) and not isinstance(v, bool)
                      and op not in ("block_start", "block_end")]
            rows.append({"op": op, "id": r.get("stmt_id", -1), "parent": r.get("parent_stmt_id", -1), "bodies": bodies,
                         "decl": op.endswith("_decl") or op in DECL_EXTRA, "name": str(r.get("name", ""))})
        sym = str(mods.get(uid, {}).get("symbol_name", uid))
        out_units.append({"name": job["_names"].get(sym, sym), "rows": rows})
    exit_ = res["exit"]
    if exit_.startswith("SystemExit"):
        # lian's own error_and_quit: the phase chose to stop; an input that makes lian give up is not an unhandled exception,
        # but "No target file found"/"No files found" only arise for empty projects, which the universe does not contain
        exit_ = "quit"
    return {"name": job["_name"], "lang": job["_lang"], "units": out_units, "exit": "ok" if exit_ == "ok" else exit_,
            "where": where_of(res.get("traceback")), "message": exc_line(res.get("traceback")),
            "stderr": (res.get("stderr") or "")[-300:]}


def run(tier, seed):
    t0 = time.time()
    v = C.Verdict(PID)
    root = C.scratch("c03")
    items = universe(tier, seed) + witness_items()
    jobs = project_jobs(items, root, "p")
    res = C.lian_batch(jobs)
    body_attrs = set()
    # learn the body-valued attribute names from all runs first
    for job, r in zip(jobs, res):
        to_project(job, r, body_attrs)
    projects = []
    singles = []
    for job, r in zip(jobs, res):
        if r["exit"] == "ok":
            projects.append(to_project(job, r, body_attrs))
        else:
            singles += [(job["_lang"], it) for it in job["_chunk"]]
    # projects that did not end normally are re-run file by file so that every file gets its own verdict
    sjobs = []
    for i, (lang, it) in enumerate(singles):
        fn = "u0000" + corpus.LANG_EXT[lang]
        name = "s_%s_%05d" % (lang, i)
        sjobs.append(dict(cmd="lang", lang=lang, files={fn: it[2]}, dir=os.path.join(root, name), export=["gir", "modules"],
                          flags=["--nomock"], timeout=300, _name=name, _names={"u0000": it[1]}, _lang=lang, _chunk=[it]))
    sres = C.lian_batch(sjobs) if sjobs else []
    for job, r in zip(sjobs, sres):
        to_project(job, r, body_attrs)
    for job, r in zip(sjobs, sres):
        p = to_project(job, r, body_attrs)
        p["file"] = job["_chunk"][0][1]
        projects.append(p)
    tf = os.path.join(root, "projects.json")
    with open(tf, "w") as f:
        json.dump({"projects": projects}, f)
    n_rows = sum(len(u["rows"]) for p in projects for u in p["units"])
    n_units = sum(len(p["units"]) for p in projects)
    r = C.tlc("FlattenTrace", "FlattenTrace.cfg", env={"TRACE_FILE": tf}, workers=1, timeout=3000, heap="8g")
    bad = []
    if r.error or r.violation:
        v.machinery_failure("trace validation failed to run: %s" % (r.error or r.violation)[:1500])
    else:
        bad = [json.loads(x) for x in r.printed]
        expect = sum(sum(len(u["rows"]) + 1 for u in p["units"]) + 2 for p in projects)
        if not bad and r.distinct != expect:
            v.machinery_failure("trace walk incomplete: %d states, expected %d" % (r.distinct, expect))
    by_name = {p["name"]: p for p in projects}
    for b in bad:
        p = by_name[b["project"]]
        if b["clause"].startswith("phase_ended_with_"):
            sig = "crash:%s:%s:%s" % (p["lang"], p["exit"], p["where"])
            rep = {"lang": p["lang"], "file": p.get("file"), "exit": p["exit"], "where": p["where"], "message": p["message"]}
        else:
            sig = "%s:%s:%s" % (b["clause"], p["lang"], b["at"].get("op", "unit") if isinstance(b["at"], dict) else "unit")
            rep = {"lang": p["lang"], "unit": b["unit"], "at": b["at"], "project": p["name"]}
        src = [it for it in items if it[1] == (p.get("file") or b.get("unit"))]
        if src:
            rep["source"] = src[0][2][:4000]
            rep["file"] = src[0][1]
        v.violation(sig, rep)
    rc = v.finish(max_print=40)
    by_lang = {}
    for lang, tag, _ in items:
        by_lang.setdefault(lang, [0, 0])[1 if "@" in tag else 0] += 1
    cov = {
        "states": r.distinct, "transitions": r.generated,
        "traces_validated_against_impl": n_units,
        "samples": [{"unit": p["units"][0]["name"], "lang": p["lang"], "rows": p["units"][0]["rows"][:8]} for p in projects if p["units"]][:2],
        "files": len(items), "files_by_language_corpus_mutant": by_lang, "gir_rows": n_rows, "lian_runs": len(jobs) + len(sjobs),
        "projects_rerun_file_by_file": len(singles), "body_valued_attributes_seen": sorted(body_attrs),
        "violating": len(bad), "known_findings_hit": {k: len(x) for k, x in v.hits.items()}, "repo": C.repo_head(),
        "exhaustive": False,
        "rule": "a trace is one unit (file) of one lian `lang` run: its emitted rows in order, judged row by row; universe = repository "
                "corpora in 7 languages + deterministic byte-level mutants (line deletion/duplication, truncation, transposition, insertions)",
    }
    C.write_evidence(PID, tier, seed, "model_checking", cov, time.time() - t0, violations=len(v.unlisted),
                     assumptions=["rows are read from frontend/gir.bundle* in stored order", "body-valued attributes = attribute names that "
                                  "name a block somewhere in the run", "inputs that are not valid UTF-8 are outside the universe (open() fails before lian sees them)",
                                  "an exit requested by lian itself (error_and_quit) is not an unhandled exception but is reported as clause phase_ended_with_quit"])
    print("C03: %d files, %d units, %d rows, %d TLC states, %d violating, %.1fs" % (len(items), n_units, n_rows, r.distinct, len(bad), time.time() - t0))
    shutil.rmtree(root, ignore_errors=True)
    return rc


def replay(path):
    with open(path) as f:
        doc = json.load(f)["replay"]
    root = C.scratch("c03_replay")
    lang = doc["lang"]
    job = dict(cmd="lang", lang=lang, files={"u0000" + corpus.LANG_EXT[lang]: doc["source"]}, dir=os.path.join(root, "r"),
               export=["gir", "modules"], flags=["--nomock"], _name="replay", _names={"u0000": doc.get("file", "replay")}, _lang=lang, _chunk=[])
    res = C.lian_batch([job])[0]
    print(res["exit"], where_of(res.get("traceback")), exc_line(res.get("traceback")))
    ba = set()
    to_project(job, res, ba)
    p = to_project(job, res, ba)
    tf = os.path.join(root, "projects.json")
    with open(tf, "w") as f:
        json.dump({"projects": [p]}, f)
    r = C.tlc("FlattenTrace", "FlattenTrace.cfg", env={"TRACE_FILE": tf}, workers=1)
    v = C.Verdict(PID)
    for x in r.printed:
        b = json.loads(x)
        print(b)
        if b["clause"].startswith("phase_ended_with_"):
            v.violation("crash:%s:%s:%s" % (lang, p["exit"], p["where"]), b)
        else:
            v.violation("%s:%s:%s" % (b["clause"], lang, b["at"].get("op", "unit")), b)
    return v.finish()
