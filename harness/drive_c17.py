"""C17 driver: real EventManager with stub handlers; registrations form a tree, notify calls are the leaves.

usage: drive_c17.py <out_dir> <tier> <seed>   |   drive_c17.py --replay <history.json>
Also: drive_c17.py --default-table <out_file>  (logs the default registration table as the model sees it)
"""
import builtins
import itertools
import json
import random
import sys
from types import SimpleNamespace

if not hasattr(builtins, "profile"):
    builtins.profile = lambda f: f

from lian.config.constants import EVENT_KIND  # noqa: E402
from lian.events.event_manager import EventManager  # noqa: E402
from lian.events.handler_template import EventData  # noqa: E402
from tree import Forest, merge  # noqa: E402

# two event kinds without default handlers
KINDS = {1: EVENT_KIND.GIR_DATA_MODEL_GENERATED, 2: EVENT_KIND.P2STATE_BUILTIN_FUNCTION_BEFORE}
# the two model languages are real names one of which contains the other: matching must be by equality, whatever form the registration took
LANG = {"py": "java", "js": "javascript", "%": "%"}


class Token:
    def __init__(self, k):
        self.k = k


class Recorder:
    def __init__(self):
        self.reset()

    def reset(self):
        self.invoked, self.rets, self.seen, self.outs = [], [], [], []


def tok(x):
    return x.k if isinstance(x, Token) else -7


def make_handler(hid, ret, rec, w=False):
    def handler(data):
        rec.invoked.append(hid)
        rec.seen.append(tok(data.in_data))
        if ret != 0 or w:
            data.out_data = Token(hid)
        rec.outs.append(tok(data.out_data))
        rec.rets.append(ret)
        return None if ret == -1 else ret
    handler.__name__ = "stub%d" % hid
    return handler


def new_manager():
    return EventManager(SimpleNamespace(event_handlers=[], debug=False))


def registry_view(em):
    """Per modelled event kind: the ids of the stubs in list order."""
    out = {}
    for k, kind in KINDS.items():
        out[str(k)] = [int(h.__name__[4:]) for _, h in em.event_handlers[kind] if h.__name__.startswith("stub")]
    return out


class Scenario:
    """Re-executable: a list of register ops on a fresh manager."""

    def __init__(self):
        self.em = new_manager()
        self.rec = Recorder()
        self.count = 0

    def register(self, ev, langs, ret, how):
        if how == "again" and getattr(self, "last", None) is not None:
            # the callable registered last is registered once more (another entry of the registry with the same handler)
            hid, ret, w, h = self.last
            how = "list"
        else:
            self.count += 1
            hid = self.count
            w = ret == 100          # 100: declines (returns UNPROCESSED) after having written out_data
            ret = 0 if w else ret
            h = make_handler(hid, ret, self.rec, w)
            if how == "again":
                how = "list"
        self.last = (hid, ret, w, h)
        real_langs = [LANG[x] for x in langs]
        if how == "set":
            arg = set(real_langs)
        elif how == "str" and len(real_langs) == 1:
            arg = real_langs[0]
        else:
            arg = real_langs
        self.em.register(KINDS[ev], h, arg)
        return {"op": "register", "id": hid, "ev": ev, "langs": list(langs), "ret": ret, "w": w, "how": how,
                "lists": registry_view(self.em)}

    def notify(self, ev, lang):
        self.rec.reset()
        data = EventData(LANG[lang], KINDS[ev], Token(0))
        try:
            ret = self.em.notify(data)
        except Exception:
            # notify must return the union of the flags; an exception escaping it is recorded as the impossible word -1, which no
            # union equals, so the contract rejects the step (the handlers invoked up to that point are judged as usual)
            ret = -1
        return {"op": "notify", "ev": ev, "lang": lang, "invoked": list(self.rec.invoked), "rets": list(self.rec.rets),
                "seen": list(self.rec.seen), "outs": list(self.rec.outs), "ret": int(ret),
                "final_in": tok(data.in_data), "final_out": tok(data.out_data)}


def build(regs):
    s = Scenario()
    for r in regs:
        if r[0] == "notify":
            s.notify(r[1], r[2])
        else:
            s.register(*r)
    return s


def interleaved(forest, alphabet, depth, evs, langs=("py", "js")):
    """All sequences of register and notify calls up to `depth` on one evolving manager."""
    counter = [0]

    def rec(parent, hist, d):
        ops = [("notify", e, lg) for e in evs for lg in langs] + [(e, ls, r) for (e, ls, r) in alphabet]
        # the same callable once more, for another language set and for the same one
        if any(h[0] != "notify" for h in hist):
            ops += [(evs[0], ls, "again") for ls in (("js",), ("py",), ("%",))]
        for op in ops:
            s = build(hist)
            if op[0] == "notify":
                ev = s.notify(op[1], op[2])
                item = op
            elif op[2] == "again":
                ev = s.register(op[0], op[1], 0, "again")
                item = (op[0], op[1], 0, "again")
                k = forest.add(parent, ev, d)
                if d < depth:
                    rec(k, hist + [item], d + 1)
                else:
                    forest.leaves += 1
                continue
            else:
                counter[0] += 1
                how = how_for(op[1], counter[0])
                ev = s.register(op[0], op[1], op[2], how)
                item = (op[0], op[1], op[2], how)
            k = forest.add(parent, ev, d)
            if d < depth:
                rec(k, hist + [item], d + 1)
            else:
                forest.leaves += 1
            if d == 1:
                forest.maybe_flush()

    rec(0, [], 1)


LANGSETS_ALL = [("py",), ("js",), ("%",), ("py", "js"), ("js", "%"), ("py", "%"), ()]
LANGSETS_4 = [("py",), ("js",), ("%",), ("py", "js")]
RETS_ALL = [-1, 100] + list(range(16))
RETS_6 = [-1, 0, 100, 1, 2, 12]
RETS_4 = [-1, 100, 1, 3]


def how_for(langs, i):
    # exercise the three accepted spellings of the language argument
    if len(langs) == 1 and i % 3 == 0:
        return "str"
    if i % 3 == 1:
        return "set"
    return "list"


def explore(forest, alphabet, depth, evs, langs=("py", "js")):
    """All registration sequences up to `depth`; after every prefix, notify for every (event kind, language)."""
    counter = [0]

    def rec(parent, regs, d):
        s = build(regs)
        for e in evs:
            for lg in langs:
                ev = s.notify(e, lg)
                forest.add(parent, ev, d)
                forest.leaves += 1
        if d > depth:
            return
        for (e, ls, r) in alphabet:
            counter[0] += 1
            how = how_for(ls, counter[0])
            s2 = build(regs)
            ev = s2.register(e, ls, r, how)
            k = forest.add(parent, ev, d)
            rec(k, regs + [(e, ls, r, how)], d + 1)
            if d == 1:
                forest.maybe_flush()

    rec(0, [], 1)


def chains(forest, count, length, rng):
    alphabet = list(itertools.product([1, 2], LANGSETS_ALL, RETS_ALL))
    for _ in range(count):
        s = Scenario()
        parent = 0
        for d in range(1, length + 1):
            if rng.random() < 0.6:
                e, ls, r = rng.choice(alphabet)
                ev = s.register(e, ls, r, rng.choice(["list", "set", "str"]))
            else:
                ev = s.notify(rng.choice([1, 2]), rng.choice(["py", "js"]))
            parent = forest.add(parent, ev, d)
        forest.leaves += 1
        forest.maybe_flush()


def default_table():
    """The default registrations, in model vocabulary (which handlers, which languages, which order)."""
    em = new_manager()
    out = []
    for kind, lst in em.event_handlers.items():
        for langs, h in lst:
            out.append({"ev": int(kind), "langs": list(langs), "name": getattr(h, "__name__", str(h))})
    return out


def main():
    out_dir, tier, seed = sys.argv[1], sys.argv[2], int(sys.argv[3])
    rng = random.Random(seed)
    forest = Forest(out_dir, "c17", max_nodes=40000)
    fam = []

    def family(name, alphabet, depth, evs):
        before = forest.total
        explore(forest, alphabet, depth, evs)
        forest.flush()
        fam.append({"family": name, "handlers<=": depth, "alphabet": len(alphabet), "exhaustive": True,
                    "nodes": forest.total - before})

    a_full = list(itertools.product([1, 2], LANGSETS_ALL, RETS_ALL))          # 238
    a_mid = list(itertools.product([1, 2], LANGSETS_4, RETS_6))              # 48
    a_small = list(itertools.product([1], LANGSETS_4, RETS_4))               # 16
    if tier == "quick":
        family("full alphabet", a_full, 1, [1, 2])
        family("4 language sets x 6 returns x 2 kinds", a_mid, 2, [1, 2])
        family("4 language sets x 4 returns x 1 kind", a_small, 3, [1])
    else:
        family("full alphabet", a_full, 2, [1, 2])
        family("4 language sets x 6 returns x 2 kinds", a_mid, 3, [1, 2])
        family("4 language sets x 4 returns x 1 kind", a_small, 4, [1])
    a_tiny = list(itertools.product([1], [("py",), ("%",), ("py", "js")], [100, 1, 2]))   # 9
    before = forest.total
    interleaved(forest, a_tiny, 4 if tier == "quick" else 5, [1])
    forest.flush()
    fam.append({"family": "interleaved register/notify on one manager, 3 language sets x {declines-after-writing, SUCCESS, STOP}",
                "ops<=": 4 if tier == "quick" else 5, "alphabet": len(a_tiny) + 2, "exhaustive": True, "nodes": forest.total - before})
    before = forest.total
    n_chain, length = (200, 12) if tier == "quick" else (3000, 16)
    chains(forest, n_chain, length, rng)
    forest.flush()
    fam.append({"family": "seeded chains, full alphabet", "chains": n_chain, "length": length, "nodes": forest.total - before})
    print(json.dumps({"files": forest.files, "nodes": forest.total, "leaves": forest.leaves, "maxdepth": forest.maxdepth,
                      "families": fam, "default_table": default_table()}))


if __name__ == "__main__":
    if sys.argv[1] == "--replay":
        doc = json.load(open(sys.argv[2]))
        s = Scenario()
        evs = []
        for h in doc["history"]:
            if h["op"] == "register":
                evs.append(s.register(h["ev"], tuple(h["langs"]), 100 if h.get("w") else h["ret"], h.get("how", "list")))
            else:
                evs.append(s.notify(h["ev"], h["lang"]))
        print(json.dumps(evs))
    elif sys.argv[1] == "--default-table":
        print(json.dumps(default_table()))
    else:
        main()
