"""C17 — event handlers run in registration order under the documented blocking rules."""
import json
import os

import patterna as A
from tree import load_history

PID = "C17"
HERE = os.path.dirname(os.path.abspath(__file__))
DRIVER = os.path.join(HERE, "drive_c17.py")
FIELDS = ("op", "ev", "langs", "ret", "w", "how", "lang")


def short(h):
    if h["op"] == "register":
        return "reg(k%d,%s,%s%s)" % (h["ev"], "+".join(h["langs"]) or "none", h["ret"], "w" if h.get("w") else "")
    return "notify(k%d,%s)" % (h["ev"], h["lang"])


def sig(clause, hist):
    return "%s:%s" % (clause, ";".join(short(h) for h in hist))


def samples(files):
    out = []
    for path, n in files[-2:]:
        h = load_history(path, n)
        out.append(" ; ".join(short(x) + ("->invoked=%s ret=%s seen=%s" % (x["invoked"], x["ret"], x["seen"]) if x["op"] == "notify" else "")
                              for x in h))
    return out


def run(tier, seed):
    mc = [("MC_EventManager", "MC_EventManager.cfg")]
    if tier == "thorough":
        mc += [("MC_EventManager", "MC_EventManager_big.cfg"), ("MC_EventManager", "MC_EventManager_all.cfg")]
    return A.run_component(
        PID, tier, seed, DRIVER, "EventManagerTrace", "EventManagerTrace.cfg", mc, [], sig, samples,
        assumptions=["a handler that returns nothing (None) contributes no flag but its data is handed on, as the code and the "
                     "default handlers do", "any return word other than UNPROCESSED contributes SUCCESS",
                     "stub handlers write out_data when they return a processed word; the 'w' variant also writes before declining; the data the requester reads after notify is judged unless a declining handler wrote last", "TLC, CommunityModules Json"],
        impl_name="EventManager (notify loop)",
        rule="tree nodes are register/notify calls on the real EventManager with recording stub handlers; every notify is judged "
             "by the contract operators (which handlers, order, data seen, stop point, returned flags); a trace = one root-to-leaf history")


def replay(path):
    return A.replay_component(PID, path, DRIVER, "EventManagerTrace", "EventManagerTrace.cfg", sig, FIELDS,
                              show=("invoked", "rets", "seen", "outs", "final_out"))
