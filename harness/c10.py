"""C10 — taint analysis reports every explicit source-to-sink flow.

GIRMachine.tla executes the GIR of each flow-chain program with a tag set per value (tags = source statements; operators union
tags; fields, elements, closures and globals carry tags through heap and scopes); every pair (source statement, sink statement)
observed at the designated sink argument must be among the flows lian reports (taint/taint_data_flow.json).
"""
import json
import os
import shutil
import time

import c01
import common as C
import girjson as G
import taintgen as T

PID = "C10"


def build(chains, root):
    jobs = []
    for i, ch in enumerate(chains):
        js = ch.lang == "javascript"
        jobs.append(dict(cmd="run", lang=ch.lang, files={"p.js": ch.render()} if js else ch.files(), dir=os.path.join(root, "r%04d" % i),
                         settings=T.SETTINGS_JS if js else (T.SETTINGS_SPLIT if ch.split else T.SETTINGS),
                         flags=["--nomock"], export=["gir", "taint"], timeout=900, _chain=ch))
    return jobs


def case_of(job, r):
    ch = job["_chain"]
    gir = r["exports"].get("gir") or []
    rows = [x for _, rs in G.units_of(gir) for x in rs]
    flows = [[int(f["source_stmt_id"]), int(f["sink_stmt_id"])] for f in (r["exports"].get("taint") or [])]
    params = [x["stmt_id"] for x in rows if x.get("operation") == "parameter_decl" and x.get("name") == "p_src"]
    # rule kind object_call: the method calls named *_src are the configured sources
    stmts = [x["stmt_id"] for x in rows if x.get("operation") == "object_call_stmt" and str(x.get("field") or "").endswith("_src")]
    return {"name": ch.name, "rows": [G.machine_row(x) for x in rows], "temps": G.temps_of(rows), "expected": [], "start": "",
            "check": "taint", "flows": flows, "param_sources": params, "stmt_sources": stmts, "source": "\n".join("# --- %s\n%s" % kv for kv in sorted(ch.files().items())) if ch.lang == "python" else ch.render()}


def run(tier, seed):
    t0 = time.time()
    v = C.Verdict(PID)
    root = C.scratch("c10")
    chains = T.universe(tier, seed) + T.js_universe(tier, seed)
    jobs = build(chains, root)
    res = C.lian_batch(jobs)
    cases = []
    for job, r in zip(jobs, res):
        if r["exit"] != "ok":
            v.violation("lian_failed:%s:%s" % (r["exit"], job["_chain"].name), {"chain": job["_chain"].name, "exit": r["exit"],
                                                                               "traceback": (r.get("traceback") or "")[-800:], "source": job["_chain"].render()})
            continue
        cases.append(case_of(job, r))
    tot = c01.run_tlc(cases, root, v)
    by = {c["name"]: c for c in cases}
    n_bad, n_nontrivial, stuck = 0, 0, 0
    for vd in tot["verdicts"]:
        c = by[vd["case"]]
        if vd.get("observed"):
            n_nontrivial += 1
        if vd["clause"] == "":
            continue
        if vd["clause"].startswith("stuck:") or vd["clause"] == "diverges":
            stuck += 1
            v.machinery_failure("the machine could not execute %s: %s" % (vd["case"], vd["clause"]))
            continue
        n_bad += 1
        src, conns, snk = vd["case"].replace("@split", "").split("__")
        v.violation("flow_missed:%s_source:%s:%s_sink" % (src, conns, snk), {"chain": vd["case"], "missed": vd.get("missed"), "observed_by_machine": vd.get("observed"),
                                                                              "reported_by_lian": c["flows"], "source": c["source"]})
    if n_nontrivial < len(cases) // 2 and not v.machinery:
        v.machinery_failure("only %d of %d chain programs let tainted data reach a sink in the machine (vacuous)" % (n_nontrivial, len(cases)))
    rc = v.finish(max_print=40)
    cov = {
        "states": tot["states"], "transitions": tot["transitions"], "traces_validated_against_impl": len(cases),
        "samples": [{"chain": c["name"], "source": c["source"], "flows_reported": c["flows"]} for c in cases[:2]],
        "chains": len(cases), "chains_where_taint_reaches_a_sink": n_nontrivial, "missed": n_bad,
        "source_kinds": T.SOURCES, "connectors": T.CONNECTORS, "sink_kinds": T.SINKS,
        "known_findings_hit": {k: len(x) for k, x in v.hits.items()}, "repo": C.repo_head(), "exhaustive": tier == "thorough",
        "rule": "a case = one flow-chain program (source kind x <=2 connecting constructs x sink placement) run through the full lian pipeline; the "
                "machine's tagged execution gives the (source, sink) pairs that must be reported",
    }
    C.write_evidence(PID, tier, seed, "model_checking", cov, time.time() - t0, violations=len(v.unlisted),
                     assumptions=["explicit flows only", "chain programs are deterministic: their single execution is the execution quantified over",
                                  "GIRMachine's semantics is the one validated against CPython by C01", "single-file programs, python frontend"])
    print("C10: %d chains (%d with taint at a sink), %d TLC states, %d missed, %.1fs" % (len(cases), n_nontrivial, tot["states"], n_bad, time.time() - t0))
    shutil.rmtree(root, ignore_errors=True)
    return rc


def replay(path):
    doc = json.load(open(path))["replay"]
    print(doc["source"])
    print(json.dumps({k: doc[k] for k in doc if k != "source"})[:2000])
    return 0
