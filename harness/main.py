"""Entry point: ./check <property id> [--tier quick|thorough] [--replay <file>]"""
import argparse
import importlib
import os
import sys
import traceback

sys.path.insert(0, os.path.dirname(os.path.abspath(__file__)))
import common as C  # noqa: E402


def main():
    ap = argparse.ArgumentParser()
    ap.add_argument("pid")
    ap.add_argument("--tier", default=os.environ.get("VERIF_TIER", "quick"), choices=["quick", "thorough"])
    ap.add_argument("--replay")
    ap.add_argument("--selftest", action="store_true")
    a = ap.parse_args()
    seed = C.seed_from_env()
    os.makedirs(C.OUT, exist_ok=True)
    try:
        mod = importlib.import_module(a.pid.lower())
        if a.replay:
            rc = mod.replay(a.replay)
        elif a.selftest:
            rc = mod.selftest()
        else:
            rc = mod.run(a.tier, seed)
    except C.MachineryError as e:
        print("MACHINERY-FAILURE: property=%s %s" % (a.pid, e))
        rc = 2
    except Exception:
        traceback.print_exc()
        print("MACHINERY-FAILURE: property=%s unhandled exception in the harness" % a.pid)
        rc = 2
    sys.exit(rc)


if __name__ == "__main__":
    main()
