"""C11 — every reported taint flow is justified by rules and by a data dependence (TaintRules.tla)."""
import json
import os
import random
import shutil
import time
import concurrent.futures as cf

import common as C
import girjson as G
import taintgen as T

PID = "C11"


def rule(kind, operation, name, lang="python", unit_name="", line=0, arg=-1):
    return {"kind": kind, "operation": operation, "name": name, "lang": lang, "unit_name": unit_name, "line": line, "arg": arg}


def yaml_rules(rules, kind):
    groups = {}
    for r in rules:
        if r["kind"] == kind:
            groups.setdefault(r["lang"], []).append(r)
    if not groups:
        return "[]\n"
    out = []
    for lang, rs in groups.items():
        out.append("- lang: %s\n  rules:" % lang)
        for r in rs:
            out.append("    - operation: %s\n      name: %s" % (r["operation"], r["name"]))
            if kind == "source" and r["operation"] == "call_stmt":
                out.append('      tag: ["%target"]')
            if kind == "sink":
                out.append("      target: [\\%%arg%d]\n      vuln_type: generic" % r["arg"])
            if r["unit_name"]:
                out.append("      unit_name: %s" % r["unit_name"])
            if r["line"]:
                out.append("      line_num: %d" % r["line"])
    return "\n".join(out) + "\n"


SRC_CALL = rule("source", "call_stmt", "source")
SRC_PARAM = rule("source", "parameter_decl", "p_src")
SNK0 = rule("sink", "call_stmt", "sink", arg=0)
CONFIGS = {
    "full": [SRC_CALL, SRC_PARAM, SNK0],
    "no_sources": [SNK0],
    "no_sinks": [SRC_CALL, SRC_PARAM],
    "nothing": [],
    "sink_arg1": [SRC_CALL, SRC_PARAM, rule("sink", "call_stmt", "sink", arg=1)],
    "both_positions": [SRC_CALL, SRC_PARAM, SNK0, rule("sink", "call_stmt", "sink", arg=1)],          # same callee, two rules that differ in the target only
    "both_positions_rev": [SRC_CALL, SRC_PARAM, rule("sink", "call_stmt", "sink", arg=1), SNK0],
    "other_language": [dict(r, lang="java") for r in (SRC_CALL, SRC_PARAM, SNK0)],
    "other_unit": [dict(r, unit_name="other.py") for r in (SRC_CALL, SRC_PARAM, SNK0)],
    "other_line": [dict(SRC_CALL, line=999), dict(SRC_PARAM, line=999), SNK0],
    "extended": [SRC_CALL, SRC_PARAM, SNK0, rule("source", "call_stmt", "source2"), rule("sink", "call_stmt", "sink2", arg=0),
                 rule("source", "call_stmt", "source", lang="java"), rule("sink", "call_stmt", "println", lang="java", arg=0)],
}


def key(r):
    return tuple(sorted(r.items()))


def subset_configs(configs, name):
    mine = {key(r) for r in configs[name]}
    return [n for n, rs in configs.items() if n != name and {key(r) for r in rs} < mine]


SPECIAL = {
    "tainted_in_other_argument": 'def handler(p_x):\n    v0 = source()\n    sink("k", v0)\n    sink(v0, "k")\n\nhandler("a")\n',
    "unrelated_object": "class Box:\n    def __init__(self):\n        self.f = None\n        self.g = None\n\ndef handler(p_x):\n    v0 = source()\n"
                        "    o1 = Box()\n    o2 = Box()\n    o1.f = v0\n    x = o2.g\n    y = o1.g\n    sink(x)\n    sink(y)\n    sink(o1.f)\n\nhandler(\"a\")\n",
    "unrelated_variable": 'def handler(p_x):\n    v0 = source()\n    w = "clean"\n    z = w + "x"\n    sink(z)\n    sink2(v0)\n    v1 = source2()\n    sink(v1)\n\nhandler("a")\n',
    "overwritten": 'def handler(p_x):\n    v0 = source()\n    v0 = "clean"\n    sink(v0)\n\nhandler("a")\n',
    "two_sources_two_sinks": 'def handler(p_src):\n    a = source()\n    b = p_src\n    sink(a)\n    c = b + "x"\n    sink(c)\n\nhandler("a")\n',
    "two_sources_containers": 'class Box:\n    def __init__(self):\n        self.f = None\n\ndef handler(p_x):\n    t = source()\n    d = {"k": t}\n    xs = [t, 1]\n'
                              '    o = Box()\n    o.f = t\n    u = source2()\n    w = u + "x"\n    sink(d)\n    sink(xs)\n    sink(o)\n    sink2(w)\n    q = source2()\n    sink2(q)\n\nhandler("a")\n',
    "later_source_earlier_container": 'def handler(p_x):\n    d = {"k": 1}\n    a = source()\n    d["k"] = a\n    b = source2()\n    e = [b]\n    sink(d)\n    sink2(e)\n    c = source()\n    sink2(c)\n\nhandler("a")\n',
    # methods whose name is the name of a plain-function rule: audit.sink(v) / r.source() are not the functions the rules name
    "method_named_like_a_function_rule": 'class Audit:\n    def sink(self, x):\n        return 0\n\n    def source(self):\n        return "d"\n\n'
                                         'def handler(p_x):\n    v0 = source()\n    r = Audit()\n    w = r.sink(v0)\n    z = ext.sink(v0)\n    u = r.source()\n    sink2(u)\n    k = "c"\n    sink(k)\n\nhandler("a")\n',
    "parameter_named_like_a_call_rule": 'def handler(source, sink):\n    sink(source)\n    v = sink\n    sink(v)\n\nhandler("a", print)\n',
}
PY_FLOW = 'def handler(p_x):\n    v0 = source()\n    sink(v0)\n\nhandler("a")\n'
JAVA_FLOW = 'public class Main {\n    public static void main(String[] args) {\n        String v0 = source();\n        sink(v0);\n    }\n}\n'
C_FLOW = 'int main() {\n    char *v0 = source();\n    sink(v0);\n    return 0;\n}\n'
ENTRY_MAIN = '- method_list: ["%unit_init"]\n- lang: java\n  method_list: ["main"]\n- lang: c\n  method_list: ["main"]\n'
JS_FLOW = 'function handler(p_x) {\n    var v0 = source();\n    sink(v0);\n}\nhandler("a");\n'
PROJECTS = {
    "two_files": {"files": {"a.py": PY_FLOW, "b.py": PY_FLOW.replace("v0", "w0")}, "lang": "python",
                  "configs": {"only_a": [dict(SRC_CALL, unit_name="a.py"), SNK0], "sink_only_b": [SRC_CALL, dict(SNK0, unit_name="b.py")],
                              "a_and_b": [dict(SRC_CALL, unit_name="a.py"), dict(SRC_CALL, unit_name="b.py"), SNK0]}},
    "suffix_names": {"files": {"handler.py": PY_FLOW, "old_handler.py": PY_FLOW.replace("v0", "w0"), "dler.py": PY_FLOW.replace("v0", "u0")}, "lang": "python",
                     "configs": {"source_only_handler": [dict(SRC_CALL, unit_name="handler.py"), SNK0],
                                 "sink_only_handler": [SRC_CALL, dict(SNK0, unit_name="handler.py")],
                                 "both_only_dler": [dict(SRC_CALL, unit_name="dler.py"), dict(SNK0, unit_name="dler.py")],
                                 "param_only_handler": [dict(SRC_PARAM, unit_name="handler.py"), SNK0]}},
    "two_languages": {"files": {"p.py": PY_FLOW, "q.js": JS_FLOW}, "lang": "python,javascript",
                      "configs": {"python_rules": [SRC_CALL, SNK0],
                                  "javascript_rules": [dict(SRC_CALL, lang="javascript"), dict(SNK0, lang="javascript")],
                                  "mixed_rules": [SRC_CALL, dict(SNK0, lang="javascript")],
                                  "both": [SRC_CALL, SNK0, dict(SRC_CALL, lang="javascript"), dict(SNK0, lang="javascript")]}},
    # language names that are substrings of one another ("java" in "javascript", "c" in "javascript")
    "substring_language_names": {"files": {"Main.java": JAVA_FLOW, "app.js": JS_FLOW, "prog.c": C_FLOW}, "lang": "java,javascript,c", "entry": ENTRY_MAIN,
                                 "configs": {"javascript_rules": [dict(SRC_CALL, lang="javascript"), dict(SNK0, lang="javascript")],
                                             "java_rules": [dict(SRC_CALL, lang="java"), dict(SNK0, lang="java")],
                                             "c_rules": [dict(SRC_CALL, lang="c"), dict(SNK0, lang="c")],
                                             "java_source_javascript_sink": [dict(SRC_CALL, lang="java"), dict(SNK0, lang="javascript")],
                                             "all_three": [dict(r, lang=l) for l in ("java", "javascript", "c") for r in (SRC_CALL, SNK0)]}},
}
# program-specific rule sets (line numbers are 1-based source lines of that program)
OWN_CONFIGS = {
    "special:tainted_in_other_argument": {
        "sink_position_by_line": [SRC_CALL, dict(SNK0, line=3), rule("sink", "call_stmt", "sink", arg=1, line=4)],
        "sink_position_by_line_swapped": [SRC_CALL, dict(SNK0, line=4), rule("sink", "call_stmt", "sink", arg=1, line=3)],
        "source_on_other_line": [dict(SRC_CALL, line=3), SNK0],
        "source_on_its_line": [dict(SRC_CALL, line=2), SNK0],
    },
}


def programs(tier, seed):
    chains = [c for c in T.universe("quick", 0) if len(c.connectors) <= 1]
    if tier == "quick":
        chains = random.Random(seed).sample(chains, 10)
    progs = [("chain:" + c.name, c.files(), "python", {}) for c in chains]
    progs += [("special:" + n, {"p.py": s}, "python", OWN_CONFIGS.get("special:" + n, {})) for n, s in SPECIAL.items()]
    progs += [("project:" + n, p["files"], p["lang"], dict(p["configs"], _entry=p.get("entry"))) for n, p in PROJECTS.items()]
    return progs


def lang_of(fn):
    return {"py": "python", "js": "javascript", "java": "java", "c": "c"}[fn.rsplit(".", 1)[1]]


def run(tier, seed):
    t0 = time.time()
    v = C.Verdict(PID)
    root = C.scratch("c11")
    progs = programs(tier, seed)
    jobs = []
    for pi, (pname, files, lang, own) in enumerate(progs):
        own = dict(own)
        entry = own.pop("_entry", None) or "- method_list: [\"%unit_init\"]\n"
        configs = dict(CONFIGS, **own)
        for cname, rules in configs.items():
            st = {"entry.yaml": entry, "propagation.yaml": "[]\n",
                  "source.yaml": yaml_rules(rules, "source"), "sink.yaml": yaml_rules(rules, "sink")}
            jobs.append(dict(cmd="run", lang=lang, files=files, dir=os.path.join(root, "r%03d_%s" % (pi, cname)), settings=st,
                             flags=["--nomock"], export=["gir", "modules", "taint"], timeout=900, _p=pname, _c=cname, _rules=rules, _configs=configs,
                             _src="\n".join("# --- %s\n%s" % kv for kv in sorted(files.items()))))
    res = C.lian_batch(jobs)
    cases, index = [], {}
    for job, r in zip(jobs, res):
        if r["exit"] != "ok":
            v.violation("lian_failed:%s:%s" % (r["exit"], job["_c"]), {"program": job["_p"], "config": job["_c"], "exit": r["exit"],
                                                                      "traceback": (r.get("traceback") or "")[-800:]})
            continue
        unit_file = {m["unit_id"]: os.path.basename(m["original_path"]) for m in (r["exports"].get("modules") or [])
                     if m.get("unit_id") is not None and m.get("original_path")}
        rows = []
        for uid, rs in G.units_of(r["exports"].get("gir") or []):
            fn = unit_file.get(uid, "?")
            rows += [dict(G.machine_row(x), file=fn, lang=lang_of(fn)) for x in rs]
        flows = [[int(f["source_stmt_id"]), int(f["sink_stmt_id"])] for f in (r["exports"].get("taint") or [])]
        index[(job["_p"], job["_c"])] = len(cases) + 1
        cases.append({"name": "%s@%s" % (job["_p"], job["_c"]), "rows": rows, "rules": job["_rules"], "flows": flows, "subset_runs": [],
                      "_p": job["_p"], "_c": job["_c"], "_configs": job["_configs"], "source": job["_src"]})
    for cs in cases:
        cs["subset_runs"] = [index[(cs["_p"], s)] for s in subset_configs(cs["_configs"], cs["_c"]) if (cs["_p"], s) in index]
    tf = os.path.join(root, "cases.json")
    with open(tf, "w") as f:
        json.dump({"cases": [{k: x for k, x in cs.items() if not k.startswith("_") and k != "source"} for cs in cases]}, f)
    r = C.tlc("TaintRules", "TaintRules.cfg", env={"CASES": tf}, workers=8, timeout=3000, heap="8g")
    n_bad, n_flows = 0, 0
    if r.error or r.violation:
        v.machinery_failure("TaintRules run failed: %s" % (r.error or r.violation)[:2500])
    else:
        verdicts = [json.loads(x) for x in r.printed]
        if len(verdicts) != len(cases):
            v.machinery_failure("%d cases, %d verdicts" % (len(cases), len(verdicts)))
        by = {cs["name"]: cs for cs in cases}
        for vd in verdicts:
            n_flows += len(vd["flows"])
            if vd["clause"]:
                n_bad += 1
                cs = by[vd["case"]]
                kind = cs["_p"].split(":")[0]
                v.violation("%s:%s:%s" % (vd["clause"], cs["_c"], cs["_p"] if kind in ("special", "project") else "chain"),
                            {"case": vd["case"], "offending": vd["offending"], "reported": vd["flows"], "upper": vd["upper"], "rules": cs["rules"], "source": cs["source"]})
        full_with_flow = sum(1 for vd in verdicts if vd["case"].endswith("@full") and vd["flows"])
        if full_with_flow == 0 and not v.machinery:
            v.machinery_failure("no flow was reported under the full rule set (vacuous)")
    rc = v.finish(max_print=30)
    cov = {
        "states": r.distinct, "transitions": r.generated, "traces_validated_against_impl": len(cases),
        "samples": [{"case": cs["name"], "rules": cs["rules"], "flows": cs["flows"]} for cs in cases[:2]],
        "programs": len(progs), "rule_configurations": sorted({cs["_c"] for cs in cases}), "runs": len(cases), "reported_flows_judged": n_flows,
        "project_flows": {cs["name"]: len(cs["flows"]) for cs in cases if cs["_p"].startswith("project:")},
        "monotonicity_pairs": sum(len(cs["subset_runs"]) for cs in cases), "violating_runs": n_bad,
        "known_findings_hit": {k: len(x) for k, x in v.hits.items()}, "repo": C.repo_head(), "exhaustive": False,
        "rule": "a case = one lian run (program x rule configuration); TLC computes the flow-insensitive closure for the case's rules and judges each reported flow",
    }
    C.write_evidence(PID, tier, seed, "model_checking", cov, time.time() - t0, violations=len(v.unlisted),
                     assumptions=["the closure is field-based, name-based (variables of different functions with the same name are merged) and treats calls to "
                                  "unknown functions as propagating every argument to the result: an over-approximation of any data dependence",
                                  "rule match = operation, name, language, unit name, line as written in the rule files"])
    print("C11: %d programs, %d rule configurations, %d runs, %d flows judged, %d TLC states, %d violating, %.1fs" % (
        len(progs), len({cs["_c"] for cs in cases}), len(cases), n_flows, r.distinct, n_bad, time.time() - t0))
    shutil.rmtree(root, ignore_errors=True)
    return rc


def replay(path):
    doc = json.load(open(path))["replay"]
    print(doc["source"])
    print(json.dumps({k: doc[k] for k in doc if k != "source"})[:2500])
    return 0
