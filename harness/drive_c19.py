"""C19 driver: run the real PathManager through history trees and log every call.

Runs under /venv/bin/python with /repo/src on sys.path.  Output: forest files for PathStoreTrace.tla.
usage: drive_c19.py <out_dir> <tier> <seed>
"""
import builtins
import copy
import itertools
import json
import random
import sys

if not hasattr(builtins, "profile"):
    builtins.profile = lambda f: f

import lian.common_structs as cs  # noqa: E402
from tree import Forest  # noqa: E402

BAD = 0


# the real call sites behind the model's sites: 1 and 2 are one call statement with two callees (a polymorphic call), 3 shares the
# statement id with them but sits in another caller - sites are told apart by the whole triple, not by one component
TRIPLES = {1: (5, 15, 21), 2: (5, 15, 22), 3: (6, 15, 23)}
KEY_OF = {v: k for k, v in TRIPLES.items()}


def site(k):
    """Model site k -> a real CallSite.  0 is the invalid site (a negative id)."""
    if k == BAD:
        return cs.CallSite(7, -1, 8)
    if k in TRIPLES:
        return cs.CallSite(*TRIPLES[k])
    return cs.CallSite(k, 10 + k, 20 + k)


def key_of(s):
    if s.has_negative():
        return BAD
    return KEY_OF.get((s.caller_id, s.call_stmt_id, s.callee_id), s.caller_id)


SITE_BACK = {}


def mk_path(p):
    return cs.CallPath(tuple(site(k) for k in p))


def back(cp):
    out = []
    for s in cp.path:
        out.append(key_of(s))
    return out


def project(pm):
    """Reader's view and the trie's shape, in model vocabulary."""
    paths = sorted(back(p) for p in pm.paths)
    tpaths = sorted(back(p) for p in pm.trie.paths)
    nodes, term = [], []

    def walk(node, prefix):
        nodes.append(list(prefix))
        if node.is_terminal:
            term.append(list(prefix))
        for elem, child in node.children.items():
            walk(child, prefix + [key_of(elem)])
    walk(pm.trie.root, [])
    return paths, tpaths, sorted(nodes), sorted(term)


def apply(pm, op, p):
    cp = mk_path(p)
    if op == "add":
        res = pm.add_path(cp)
    elif op == "remove":
        res = pm.remove_path(cp)
    else:
        res = pm.path_exists(cp)
    paths, tpaths, nodes, term = project(pm)
    return {"op": op, "path": list(p), "res": bool(res), "paths": paths, "tpaths": tpaths,
            "trie": nodes, "term": term}


def all_paths(sites, maxlen):
    out = []
    for n in range(1, maxlen + 1):
        out.extend(itertools.product(sites, repeat=n))
    return [list(p) for p in out]


def universe(name):
    if name == "tiny":       # one branching point: enough for sibling/prefix interplay, deep histories
        return dict(sites=[1, 2], add=[[1], [1, 1], [1, 2], [1, 1, 1]], never=[2], maxlen=3, exists_last=True)
    if name == "small":      # 2 sites, len <= 2, one invalid path
        return dict(sites=[1, 2], add=all_paths([1, 2], 2) + [[0]], never=[2, 2], maxlen=2)
    if name == "mid":        # 2 sites, len <= 3, four invalid paths
        return dict(sites=[1, 2], add=all_paths([1, 2], 3) + [[0], [1, 0], [0, 2], [1, 2, 0]], never=[2, 2, 2], maxlen=3)
    if name == "wide":       # 3 sites, len <= 4 (the alphabet named by the property), six invalid paths
        return dict(sites=[1, 2, 3], add=all_paths([1, 2, 3], 4) + [[0], [1, 0], [0, 1], [1, 2, 0], [1, 0, 3, 2], [1, 2, 3, 0]],
                    never=[3, 3, 3, 3], maxlen=4)
    raise ValueError(name)


def canonical_first(p):
    """Restricted-growth: sites appear in order of first occurrence (used only to prune the first step of 'wide')."""
    nxt = 1
    for k in p:
        if k == BAD:
            continue
        if k > nxt:
            return False
        if k == nxt:
            nxt += 1
    return True


def ops_for(u, offered, last=True):
    """add over the whole alphabet; remove/exists over everything offered so far plus one path never offered."""
    ops = [("add", p) for p in u["add"]]
    targets = [list(t) for t in sorted(offered)] + [u["never"]]
    ops += [("remove", p) for p in targets]
    if last or not u.get("exists_last"):
        ops += [("exists", p) for p in targets]
    return ops


def explore(forest, u, depth, first_filter=None):
    def rec(pm, parent, offered, d):
        for op, p in ops_for(u, offered, d == depth):
            if d == 1 and first_filter and not first_filter(op, p):
                continue
            child = copy.deepcopy(pm)
            ev = apply(child, op, p)
            k = forest.add(parent, ev, d)
            if d < depth:
                rec(child, k, offered | ({tuple(p)} if op == "add" else set()), d + 1)
            else:
                forest.leaves += 1
            if d == 1:
                pass
        return
    # top level: flush between first-op subtrees
    pm0 = cs.PathManager()
    for op, p in ops_for(u, set(), depth == 1):
        if first_filter and not first_filter(op, p):
            continue
        child = copy.deepcopy(pm0)
        ev = apply(child, op, p)
        k = forest.add(0, ev, 1)
        if depth > 1:
            rec(child, k, ({tuple(p)} if op == "add" else set()), 2)
        else:
            forest.leaves += 1
        forest.maybe_flush()


def chains(forest, u, count, length, rng):
    """Seeded long histories inside the same family (biased towards prefix-related paths)."""
    for _ in range(count):
        pm = cs.PathManager()
        parent = 0
        offered = []
        for d in range(1, length + 1):
            r = rng.random()
            if r < 0.55 or not offered:
                if offered and rng.random() < 0.6:
                    b = rng.choice(offered)
                    c = rng.random()
                    if c < 0.4 and len(b) > 1:
                        p = b[:rng.randrange(1, len(b))]
                    elif c < 0.8 and len(b) < u["maxlen"]:
                        p = b + [rng.choice(u["sites"]) for _ in range(rng.randrange(1, u["maxlen"] - len(b) + 1))]
                    else:
                        p = list(b)
                else:
                    p = rng.choice(u["add"])
                op = "add"
                offered.append(list(p))
            else:
                op = "remove" if r < 0.85 else "exists"
                p = rng.choice(offered)
            ev = apply(pm, op, p)
            parent = forest.add(parent, ev, d)
        forest.leaves += 1
        forest.maybe_flush()


def replay(history):
    """Re-run one history (list of {op, path}) on the real object; return the events."""
    pm = cs.PathManager()
    return [apply(pm, h["op"], h["path"]) for h in history]


def main():
    out_dir, tier, seed = sys.argv[1], sys.argv[2], int(sys.argv[3])
    rng = random.Random(seed)
    summary = {"families": []}
    forest = Forest(out_dir, "c19", max_nodes=50000)
    plan = {
        "quick": [("tiny", 5, None), ("small", 4, None), ("mid", 3, None)],
        "thorough": [("tiny", 7, None), ("small", 5, None), ("mid", 4, None),
                     ("wide", 3, lambda op, p: op == "add" and canonical_first(p))],
    }[tier]
    for name, depth, flt in plan:
        before = forest.total
        explore(forest, universe(name), depth, flt)
        summary["families"].append({"universe": name, "depth": depth, "exhaustive": True,
                                    "first_op_canonical_only": flt is not None, "nodes": forest.total - before})
    before = forest.total
    n_chain, length = (150, 10) if tier == "quick" else (1500, 12)
    chains(forest, universe("wide"), n_chain, length, rng)
    summary["families"].append({"universe": "wide", "chains": n_chain, "length": length, "seeded": True,
                                "nodes": forest.total - before})
    forest.flush()
    summary["files"] = forest.files
    summary["nodes"] = forest.total
    summary["leaves"] = forest.leaves
    summary["maxdepth"] = forest.maxdepth
    print(json.dumps(summary))


if __name__ == "__main__":
    if len(sys.argv) > 1 and sys.argv[1] == "--replay":
        hist = json.load(open(sys.argv[2]))["history"]
        print(json.dumps(replay(hist)))
    else:
        main()
