"""Regenerates /verif/MANIFEST.json from the table below (keeps the file schema-valid at all times)."""
import json
import os
import sys

ROOT = os.path.dirname(os.path.dirname(os.path.abspath(__file__)))

CHECKS = {
    "C19": dict(
        category="model_checking",
        technique="TLA+ contract (PathStore) + implementation model (PathTrieImpl) refinement in TLC; trace validation of exhaustive history trees on the real PathManager",
        text="TLC proves the contract's clauses and PathTrieImpl => PathStore for all histories at small constants; every call of "
             "exhaustively enumerated history trees on the real PathManager (plus seeded long histories) is judged by the contract in "
             "PathStoreTrace, and the logged trie shape is compared with the model so the refinement argument transfers to the code.",
        note="Trusts TLC/CommunityModules Json, CallSite equality as implemented, and the driver's projection of the trie; bounded "
             "histories (2 sites/len<=3 to depth 4-5, 3 sites/len<=4 to depth 3, chains to length 12).",
        design_ref="5/C19", engine="PathStore"),
}

CHECKS["C16"] = dict(
    category="model_checking",
    technique="TLA+ contract (DataModel: queries defined as scans) + cache model (DataModelImpl) checked in TLC; trace validation of exhaustive history trees on the real DataModel; a second contract (BlockView.tla: statement sequence + open range, every query an operator over a scan of the visible statements) validates operation trees on the real GIRBlockViewer",
    text="TLC proves that the cache model answers every query from the current rows for all histories at small constants (and exhibits "
         "the two pinned-code deviations as negative controls); every call of exhaustively enumerated history trees on the real "
         "DataModel (query -> mutation -> query is inside every depth>=3 tree) is judged by the contract in DataModelTrace: the pandas "
         "frame after each mutation must be the contract's table and each query result must be the scan of it.",
    note="Trusts pandas as ground truth for the frame, TLC/Json; tables of <=4 rows, 2 columns (float + string), values {missing,1,2}; "
         "exhaustive to depth 3 (quick) / 4 (thorough) plus seeded chains to length 14.",
    design_ref="5/C16", engine="DataModel")

CHECKS["C17"] = dict(
    category="model_checking",
    technique="TLA+ contract operators + notify-loop model checked in TLC for every bounded registry; trace validation of exhaustive register/notify trees on the real EventManager",
    text="TLC checks the notify loop against the contract (which handlers, in which order, what each sees, where dispatch stops, "
         "which flags come back) for every registry of <=2-3 handlers over the full return alphabet; the same contract operators judge "
         "every notify of exhaustively enumerated registration trees executed on the real EventManager with recording stubs.",
    note="Trusts TLC/Json and the stub handlers; None counts as processed for data hand-off (code and default handlers rely on it); "
         "two event kinds without default handlers; <=4 handlers.",
    design_ref="5/C17", engine="EventManager")

CHECKS["C15"] = dict(
    category="model_checking",
    technique="TLA+ contract (Loader) + implementation model (LoaderImpl: LRUs, active bundle, index, files) checked in TLC over a grid of capacities; trace validation (LoaderTrace) of exhaustive history trees on real loader classes, every history closed by export / export_indexing / restore / get-all, and of the loader histories recorded from real analyses run under lowered row limits and cache capacities (content tokens = digests of rows and objects; contract-only mode), plus comparison of what the analysis saves across loader configurations",
    text="TLC proves on LoaderImpl that every get answers the latest save and that a synced restore loses nothing, for all histories "
         "at small constants over the grid item-cache x bundle-cache x MAX_ROWS (two pinned-code deviations are negative controls); "
         "exhaustive save/get/export/export_indexing/restore trees run on real ScopeHierarchyLoader, UnitGIRLoader and CFGLoader objects "
         "and every get - in the saving loader and in a fresh loader restored from the files - is judged by the contract, while the "
         "logged LRU orders, index, counters are compared with the model after every call.",
    note="Trusts TLC/Json, pandas/feather for reading files back; three loader families built on GeneralLoader with synthetic items of 0-2 rows; "
         "zero-row item == absent item; restore only when synced; write failure probe: export of an unserialisable bundle must raise or print.",
    design_ref="5/C15", engine="Loader")

CHECKS["C18"] = dict(
    category="model_checking",
    technique="TLA+ design model of workspace preparation (Workspace.tla) explored by TLC over all placements; strace-recorded file-system traces of real runs validated by WorkspaceTrace.tla",
    text="TLC explores the step-by-step model of set_workspace_dir / manage_directory / the copy walk for every placement of workspace "
         "vs input (disjoint, nested either way, identical, default and custom names, pre-populated, with/without --force) against the "
         "clauses of C18, with the two pinned-code deviations as negative controls; every placement is also materialised on disk, lian runs "
         "under strace -f, and each mutating system call and each before/after snapshot difference is judged by the trace specification.",
    note="Trusts strace, the harness's path tokenisation/symlink resolution, TLC/Json; python inputs and the lang sub-command; "
         "MPLCONFIGDIR cache allowlisted.",
    design_ref="5/C18", engine="Workspace")

CHECKS["C03"] = dict(
    category="model_checking",
    technique="TLA+ trace specification (FlattenTrace) walked by TLC over the GIR rows emitted by real `lang` runs on corpora and deterministic byte-level mutants in 7 languages",
    text="Every unit emitted by the real language phase is a trace: FlattenTrace keeps the block stack, the last statement per nesting "
         "level with the blocks it names, the ids seen and the id ranges of finished units, and judges each row (unique ids, disjoint unit "
         "ranges, balanced and properly nested blocks, parents, body attributes naming exactly their own blocks, no executable statement "
         "outside a method, one ordered unit initialiser) and the way the phase ended (no unhandled exception).",
    note="Universe: repository corpora (python, javascript, typescript, java, go, c, php) and a fixed family of mutants (quick: corpus + seeded "
         "sample of 60 mutants per language; thorough: ~30k files); invalid UTF-8 excluded; body-valued attributes recognised by ownership; "
         "nine crash sites on malformed input are listed known findings with witnesses.",
    design_ref="5/C03", engine="FlattenTrace")

CHECKS["C04"] = dict(
    category="model_checking",
    technique="executable TLA+ control semantics of GIR (GIRControl) run by TLC over the GIR rows and the CFG that the real lian run produced for exhaustively enumerated control skeletons in 7 frontends",
    text="GIRControl interprets the flattened GIR that the current frontends emitted (block structure, compound statements, loops with "
         "init/prebody/update, break/continue/return, try/catch/else/finally, switch, nested declarations) with every test, case selection "
         "and raise as a nondeterministic choice (loops <= 2 iterations); lian's CFG for the same method is a constant of the case and every "
         "step of every behaviour must be one of its edges, including the step to the exit node.",
    note="Skeletons: exhaustive to size 3 (quick) / 4 (thorough) x 7 languages plus construct-specific exhaustive families (switch, try, "
         "for/do-while with jumps) and a seeded sample of the next size; semantics of GIR control as documented in 3-2.gir.md (assumptions in the "
         "evidence file); three construct classes are listed known findings.",
    design_ref="5/C04", engine="GIRControl")

CHECKS["C14"] = dict(
    category="exploration",
    technique="deterministic TLA+ specification of the id discipline (Pipeline.tla) validating every run's trace with TLC + differential runs under a fixed set of schedules (hash seeds, locations, repetitions, prior runs)",
    text="Each project is analysed end to end in separate processes under a fixed set of schedules; Pipeline.tla - a specification with one "
         "behaviour per input - must accept the module/statement id trace of every run, and every output file (feather tables decoded, "
         "workspace path replaced), the exit status and the order of analysed methods must equal the base schedule's.",
    note="A hyperproperty over runs: the verdict rests on a finite set of schedules (seeds 0-4, two locations, with/without a previous run, "
         "with/without --enable-p2 in the thorough tier); iteration orders CPython does not exhibit for these seeds are not explored.",
    design_ref="5/C14, 6", engine="Pipeline")

CHECKS["C06"] = dict(
    category="model_checking",
    technique="GIRControl (TLA+ GIR semantics with a last-definition history variable) explored by TLC over all paths with loops <= 1 iteration + ReachingDefs.tla (classical fixpoint over lian's CFG, computed by TLC) against lian's in_symbol_bits",
    text="Soundness: along every path of the GIR semantics the last executed definition of each used variable must be among the definitions "
         "lian stores as reaching that statement (stmt_status_p3). Precision: TLC computes the classical reaching-definitions fixpoint over "
         "lian's own CFG; lian's sets must be contained in it and equal to it on loop-free methods. Exhaustive python methods over two "
         "variables with branches, loops, break/continue, early returns.",
    note="Definitions identified by (name, statement); python frontend; loops are a listed known finding (loop headers are never revisited), so the "
         "verdict currently rests on the loop-free half of the family for anything beyond that finding.",
    design_ref="5/C06", engine="GIRControl")

CHECKS["C01"] = dict(
    category="translation_validation",
    technique="executable TLA+ operational semantics of GIR (GIRMachine, concrete mode) run by TLC on the GIR the real python frontend emitted; outputs compared with CPython for every program and argument vector",
    text="GIRMachine gives the documented meaning of the GIR instructions (names and scopes, closures, calls with positional/keyword/default "
         "binding, classes with fields and methods, lists/tuples/dicts, loops with break/continue and condition pre-statements) as a "
         "small-step machine; TLC executes the rows emitted by the current frontend for hand-written construct programs (one per lowering "
         "handler) and a grammar-generated family, each called with 8 argument vectors, and the printed values must equal CPython's.",
    note="The semantics is a reading of docs 3-2 validated by the same comparison (a wrong rule shows up as a disagreement); integers < 2^30, "
         "scalar outputs; programs the reference run rejects are skipped and counted.",
    design_ref="5/C01", engine="GIRMachine")

CHECKS["C02"] = dict(
    category="translation_validation",
    technique="GIRMachine (TLA+ operational semantics of GIR) run by TLC on the GIR emitted by each of the seven frontends for renderings of the same core program; outputs compared with the program's reference semantics; the same renderings analysed in one multi-language workspace must yield identical GIR per unit",
    text="Core-language programs (ints, locals, arithmetic, comparisons, if/else, while, counted for, break/continue, functions, calls, return, "
         "int arrays) are rendered in python, javascript, typescript, java, c, go and php; every rendering goes through the real frontend and "
         "the one common GIR semantics; its outputs must equal the reference run, and a row the common semantics cannot execute (operation or "
         "operand column outside the shared instruction set) is reported by name.",
    note="Reference semantics of a core program = its Python rendering under CPython (tied to GIR by C01); records/objects and strings are not yet "
         "generated; go and typescript are listed known findings (vocabulary), so they are currently fully masked.",
    design_ref="5/C02", engine="GIRMachine")

CHECKS["C20"] = dict(
    category="model_checking",
    technique="TLA+ specification of entry selection (EntryPoints.tla): TLC checks the scan/start model against the declarative Selected() for every subset of a rule pool, and judges one real lian run per rule subset (entry table, methods P3 started from, reported flows)",
    text="Selected(R) is defined declaratively from the rule fields (language, unit name, unit path, method list); the operational model of "
         "rule loading, unit scanning and entry starting is model-checked against it for all 2^10 rule subsets; real runs of lian on a "
         "three-file two-language project with a local source->sink flow in every python method are recorded per rule subset and judged by "
         "the same definition: entry table = Selected, started = Selected, flow reported iff its method is reachable from a selected entry.",
    note="Names chosen so that substring and exact matching coincide; quick: singletons + fixed pairs + 30 seeded subsets; thorough: all subsets up to "
         "size 3 + 120 larger ones; 42 further runs spread the same rule sets over several rule files (python-entry.yaml, webapp-entry.yaml + "
         "java-entry.yaml, a sub-directory file): the configuration is the union of every *entry.yaml below the settings directory; "
         "relies on the call-source fix ced863b for the flow clause.",
    design_ref="5/C20", engine="EntryPoints")

CHECKS["C11"] = dict(
    category="model_checking",
    technique="TLA+ specification of rule matching and of the flow-insensitive, context-insensitive, field-based taint closure (TaintRules.tla); TLC computes the closure per recorded lian run (program x rule set) and judges every reported flow, plus monotonicity between recorded runs",
    text="One case per real lian run: GIR rows, the run's rule set, the reported flows. RuleMatches (operation, name, language, unit name, line) "
         "must hold for the source and the sink statement of every reported flow; the flow must be inside Upper, the fixpoint TLC computes by "
         "sweeping the rows (one sweep per step) with the sink's rule-designated argument position; for runs of the same program whose rule sets "
         "are ordered by inclusion the flow sets must be ordered the same way.",
    note="Upper is deliberately coarse (names merged across functions, unknown callees propagate every argument): it only refutes fabricated flows. "
         "Programs: flow chains of length <= 1, special programs (other argument position, unrelated object/variable, overwritten, parameter named like a "
         "rule), a two-file and a two-language project; 20 rule configurations incl. empty, other language/unit/line, per-line sink positions, extended sets.",
    design_ref="5/C11", engine="TaintRules")

CHECKS["C10"] = dict(
    category="model_checking",
    technique="GIRMachine (TLA+ GIR semantics) extended with a taint tag set per value, run by TLC on the GIR of flow-chain programs; observed (source, sink) pairs must be in lian's reported flows; sources by call, parameter and object_call rules (external receivers and statement sources modelled in the machine), single- and multi-file layouts",
    text="Every value of the machine carries the set of source statements it depends on (operators union tags; fields, elements, dict entries, "
         "closures, globals, parameters and returns carry them through heap and scopes). Flow-chain programs - source kind x up to two connecting "
         "constructs x sink placement, with decoys - go through the full lian pipeline; each pair observed at the designated sink argument must be "
         "reported in taint_data_flow.json.",
    note="Single-file deterministic python and javascript programs (one execution each), explicit flows only, call and parameter sources, call sinks (direct and in a "
         "callee), 26 connectors incl. containers mutated by library methods, packed parameters, re-assignment from a source, program-defined source/sink functions, a split rule set; "
         "exhaustive to chain length 2 in the thorough tier; closures, loop-carried values and a variable re-assigned from an external source are listed known findings.",
    design_ref="5/C10", engine="GIRMachine")

CHECKS["C13"] = dict(
    category="model_checking",
    technique="TLA+ design model of the schedulers (Scheduler.tla: frame stack, per-call-site counter, path store, cut-off rule) model-checked by TLC for every small call graph - bounds as invariants, termination as a liveness property; trace validation (SchedulerTrace.tla) of real runs on parameterised adversarial families recorded by run-time wrapping of the schedulers; growth of the abstract state space between sizes and peak memory as further work measures",
    text="TLC proves for every assignment of callee sets to the call statements of 2-3 methods, and every visiting order, that the top-down "
         "scheduler terminates and that pushes, interruptions, decisions and stack depth stay inside explicit bounds in the number of call sites. "
         "Real runs (recursion, mutual recursion, self-application, call chains with 2-3 call sites per link, diamonds, nested loops, cyclic imports, "
         "cyclic object graphs, empty callees, taint feedback loops, hostile constants; with and without --enable-p2; n swept) are recorded at the "
         "schedulers' linearisation points and walked by TLC: the same bounds, with the run's own iteration constants, must hold at every event, "
         "the decision at every call statement must be the one the model's cut-off rule computes (drift otherwise), and a run that exceeds its "
         "event or wall-clock budget diverges.",
    note="Time per scheduler step is not modelled (only the wall-clock budget catches a step that never returns); bounds evaluated with slack factor 2; "
         "python families; the statement loop is abstracted to its visit bound (its order is C06's business); bottom-up phase: at most one push per method.",
    design_ref="5/C13", engine="Scheduler")

CHECKS["C07"] = dict(
    category="model_checking",
    technique="GIRMachine (executable TLA+ semantics of GIR) run by TLC on the GIR of call-graph projects, recording every call as (caller, call statement, callee); each behaviour is judged by TLC against the same run's call_paths_p3 and the frames the top-down scheduler pushed (recorded by run-time wrapping)",
    text="Call kind (direct, constructor, method, inherited through 2 and 3 levels, overriding, self-call of an inherited method, callback, nested callback, returned "
         "function, function stored in a field / list / dict / variable, closure, nested definition, cross-module by from-import, alias, class, chain and inherited) x "
         "calling context (top level, function, configured entry, branch on an unknown condition, loops, recursion, mutual recursion, two call sites), plus projects "
         "with 3 and 5 entry points converging on one deep call site. The machine executes all units of the project in one case (branches on choice() are "
         "separate behaviours); every call triple must be an element of a path of call_paths_p3 that starts at the entry in use, and a frame for the callee must "
         "have been pushed under that call site while that entry was analysed.",
    note="Python projects (23 kinds x 8 contexts, multi-file) and javascript programs (14 kinds x 5 contexts); the semantics is the one C01 validates against CPython, extended here "
         "with inheritance lookup, aliased from-imports, constructors of other languages and a start method by id; functions returned by value are a listed known finding (C07-F1).",
    design_ref="5/C07", engine="GIRMachine")

CHECKS["C08"] = dict(
    category="model_checking",
    technique="GIRMachine (executable TLA+ semantics of GIR) run by TLC on the GIR of value programs, recording every definition as an event with a two-level snapshot of the value; the Covers predicate of the specification judges every event of every behaviour against the abstract states of the same lian run (s2space_p3 joined with stmt_status_p3, read by lian's newest-copy rule)",
    text="Value programs: an int or string constant travels through up to two of 42 connecting constructs (arithmetic incl. negative and zero results, "
         "concatenation, repetition, digit strings, objects and fields, overwrites, other field / other object, aliases, lists, calls with one and two "
         "parameters, two call sites, parameter writes and reads, returned objects, callees with two arms / two exits writing through aliases, branches on "
         "an unknown condition, a receiver that may be one of two objects, nested objects, one-iteration loops), plus 13 hostile string literals (quotes, "
         "backslashes, operator characters, digit strings) through concatenation, fields and calls. Each behaviour of the machine (branches on choice() are "
         "explored) yields its definition events; an event is covered by a regular state with the same value, by a state of the object's allocation site "
         "whose fields and elements cover the snapshot recursively, or by an unknown state.",
    note="Python and javascript value chains, one entry; allocation site = statement of the first state carrying a state id; a symbol's states are read with lian's own rule (newest copy "
         "of each state id leaving the statement); None is not judged; array elements position-insensitive. Four open findings (may-alias receiver, nested object via alias, "
         "callee alias after a join, loop-carried values) and two repaired defects of the constant folder are in known_findings.json.",
    design_ref="5/C08", engine="GIRMachine")

CHECKS["C09"] = dict(
    category="model_checking",
    technique="the definition events of all behaviours of GIRMachine (TLC explores both arms of every unknown branch) are united per definition point; ValueExact.tla, checked by TLC, judges that the regular abstract values lian recorded for the point (s2space_p3, newest-copy rule) are among them and that no unknown state appears on a constant program; the other half of exactness (no value of a path is missing) is GIRMachine's Covers judgement on the same behaviours",
    text="Loop-free integer value programs (the C08 family without arrays, loops, may-alias receivers): overwrites, other field / other object, aliases, "
         "parameter writes and reads, helpers called from two and three sites with different arguments directly and through a wrapper, callees with two arms and two "
         "exits, branches, constant arithmetic over branch-dependent operands. For every definition point (statement, name, and field of a defined object) the set "
         "of values over all paths is computed by the specification's machine; a regular abstract value outside it is an overwritten value retained, a value of "
         "another field / object / call site, or a wrong operand combination.",
    note="Contexts of a callee are united, so call-site sensitivity is judged at the call statements (distinct per site); a statement that uses one variable as both "
         "operands is out of scope (the property asks for operand combinations). Two open findings: sensitivity lost below call depth one (C09-F1) and old field values kept "
         "after a callee's write (C09-F2).",
    design_ref="5/C09", engine="GIRMachine")

CHECKS["C05"] = dict(
    category="model_checking",
    technique="declarative TLA+ specification of lexical scoping (Scope.tla: python LEGB with global/nonlocal and class-scope skipping, javascript let/var/parameter scoping with hoisting) and of import resolution (Imports.tla: own declarations, from / alias / wildcard / module / package imports, re-export chains, shadowing); TLC computes the selected declaration for every read of every exhaustively enumerated scope configuration and judges what lian bound it to; python's symtable and node are second oracles for the specification",
    text="Every tree of <= 4 scopes (module, functions, classes; blocks for javascript) x every declaration kind per scope (none, assignment, parameter, global, nonlocal / "
         "let, var, parameter) with a read of the name in every scope is rendered to source and analysed by lian; the declaration each read was bound to (s2space_p1 "
         "symbol_id -> declaring statement -> scope) must be the one Resolve selects, must never sit in a sibling or inner scope, and must be `unresolved` exactly "
         "when no declaration is visible. 32 import projects (from, alias, wildcard, module, package, re-export through one and two hops and under an alias, local "
         "and later-import shadowing, missing and external names; importer enumerated first and last) are judged by Imports.tla the same way.",
    note="One name per configuration, reads after the declarations of their scope, `global` only when the module declares the name. Resolve agreed with symtable on all "
         "2357 python and with node (values observed at run time) on all 5638 javascript configurations of the thorough tier. Six open findings (class scope visible "
         "from nested code, global in a nested function, javascript block scoping, wildcard / aliased re-export / repeated imports).",
    design_ref="5/C05", engine="Scope")

CHECKS["C12"] = dict(
    category="exploration",
    technique="TLA+ specification of the edit operations (Edits.tla): the program is a sequence of line tokens, the edits are actions, the state carries where every original line is and what every entity is called, so the specification predicts the observables after any edit sequence; TLC enumerates all sequences up to a bound and checks the edit model's own invariants; every reached state is replayed on real source text through lian and compared with the prediction",
    text="Edits: blank line, comment, no-op statement (before five representative lines), consistent renaming of a function or of a local together with exactly the "
         "occurrences bound to it, swapping adjacent independent definitions, moving a definition into another file and importing it (twice: a two-hop re-export chain). "
         "Observables predicted from the unedited run: taint flows by (file, source line, sink line), call edges by names, bindings by (use line, name, declaration line). "
         "Seeds: a python program (wrapped source, helper, sink in a callee, a local named like an unresolved global read elsewhere) and its javascript counterpart; "
         "multi-file states are analysed under two names of the main file.",
    note="Level exploration: the relation between runs is replayed, TLC decides the edit model (NoLineLost, OrderKeptInsideDefs, FreshNames) and supplies the sequences and the "
         "predictions. Sequences of <= 2 edits (quick: all single edits, all double moves, 100 sampled pairs) / <= 3 (thorough: all pairs, 1500 sampled triples).",
    design_ref="5/C12", engine="Edits")

NOT_YET = {
}

ENGINES = [
    dict(name="Edits", path="specs/Edits.tla harness/c12.py harness/lianrun.py",
         serves_properties=["C12"], kind_free_text="TLA+ model of meaning-preserving edits as exhaustive generator of edit sequences with predicted observables, replayed through lian"),
    dict(name="Scope", path="specs/Scope.tla specs/Imports.tla harness/c05.py harness/lianrun.py",
         serves_properties=["C05"], kind_free_text="declarative TLA+ scoping and import rules evaluated by TLC over exhaustively enumerated configurations, judged against lian's bindings"),
    dict(name="Scheduler", path="specs/Scheduler.tla specs/SchedulerTrace.tla specs/StmtWorklist.tla specs/MC_StmtWorklist.tla specs/WorklistTrace.tla harness/c13.py harness/schedtrace.py harness/schedgen.py harness/lianrun.py",
         serves_properties=["C13"], kind_free_text="TLA+ design model (safety bounds + liveness) + trace spec over recorded scheduler events, TLC"),
    dict(name="TaintRules", path="specs/TaintRules.tla harness/c11.py harness/taintgen.py harness/girjson.py harness/lianrun.py",
         serves_properties=["C11"], kind_free_text="TLA+ rule-match predicate and taint closure, TLC as fixpoint engine over recorded runs"),
    dict(name="EntryPoints", path="specs/EntryPoints.tla harness/c20.py harness/c20_post.py",
         serves_properties=["C20"], kind_free_text="TLA+ contract + operational model + trace validation of runs, TLC"),
    dict(name="GIRMachine", path="specs/GIRMachine.tla harness/c01.py harness/c02.py harness/c07.py harness/c08.py harness/c09.py specs/ValueExact.tla harness/c10.py harness/valgen.py harness/pygen.py harness/coregen.py harness/callgen.py harness/taintgen.py harness/schedtrace.py harness/girjson.py harness/lianrun.py",
         serves_properties=["C01", "C02", "C07", "C08", "C09", "C10"], kind_free_text="executable TLA+ operational semantics of GIR, TLC as interpreter"),
    dict(name="Pipeline", path="specs/Pipeline.tla harness/c14.py harness/c14_digest.py",
         serves_properties=["C14"], kind_free_text="deterministic TLA+ spec as trace validator + differential runs"),
    dict(name="GIRControl", path="specs/GIRControl.tla specs/ReachingDefs.tla harness/c04.py harness/c06.py harness/skeleton.py harness/girjson.py harness/lianrun.py",
         serves_properties=["C04", "C06"], kind_free_text="executable TLA+ semantics of GIR control flow, TLC as interpreter/explorer"),
    dict(name="FlattenTrace", path="specs/FlattenTrace.tla harness/c03.py harness/corpus.py harness/lianrun.py",
         serves_properties=["C03"], kind_free_text="TLA+ trace spec over emitted GIR rows, TLC"),
    dict(name="Workspace", path="specs/Workspace.tla specs/WorkspaceTrace.tla harness/c18.py",
         serves_properties=["C18"], kind_free_text="TLA+ design model + trace spec over strace events, TLC"),
    dict(name="Loader", path="specs/Loader.tla specs/LoaderImpl.tla specs/LoaderTrace.tla harness/c15.py harness/drive_c15.py",
         serves_properties=["C15"], kind_free_text="TLA+ contract + implementation model + trace spec, TLC"),
    dict(name="EventManager", path="specs/EventManager.tla specs/EventManagerTrace.tla harness/c17.py harness/drive_c17.py",
         serves_properties=["C17"], kind_free_text="TLA+ contract + loop model + trace spec, TLC"),
    dict(name="DataModel", path="specs/DataModel.tla specs/DataModelImpl.tla specs/DataModelTrace.tla harness/c16.py harness/drive_c16.py",
         serves_properties=["C16"], kind_free_text="TLA+ contract + cache model + trace spec, TLC"),
    dict(name="PathStore", path="specs/PathStore.tla specs/PathTrieImpl.tla specs/PathStoreTrace.tla harness/c19.py harness/drive_c19.py",
         serves_properties=["C19"], kind_free_text="TLA+ contract + implementation model + trace spec, TLC"),
]


def main():
    props = [json.loads(l)["id"] for l in open(os.path.join(ROOT, "properties.jsonl"))]
    checks = []
    for pid in props:
        if pid not in CHECKS:
            continue
        c = CHECKS[pid]
        checks.append({
            "property_id": pid,
            "quick_cmd": "./check %s --tier quick" % pid,
            "thorough_cmd": "./check %s --tier thorough" % pid,
            "evidence_file": "/verif/evidence/%s.json" % pid,
            "replay_cmd_template": "./check %s --replay {path}" % pid,
            "engine": c["engine"],
            "level_claimed": {"category": c["category"], "text": c["text"], "design_ref": c["design_ref"]},
            "level_note": c["note"],
            "technique": c["technique"],
        })
    na = [{"property_id": pid, "reason": NOT_YET.get(pid, "check not built yet in this round; the design for it is in DESIGN.md section 5")}
          for pid in props if pid not in CHECKS]
    hooks_path = os.path.join(ROOT, "harness", "hooks.json")
    hooks = json.load(open(hooks_path)) if os.path.exists(hooks_path) else {}
    m = {
        "version": 1,
        "setup_cmd": "./setup.sh",
        "hooks": {
            "guard": "LIAN_VERIF_TRACE",
            "enable": "LIAN_VERIF_TRACE=1 in the environment of the lian process (checks set it themselves); no build step, lian is imported from /repo/src",
            "baseline_off_cmd": "cd /repo && /venv/bin/python -m pytest -ra -q -p no:cacheprovider --timeout=900 --continue-on-collection-errors",
            "source_commits": hooks.get("source_commits", []),
            "add_only": True,
        },
        "engines": ENGINES,
        "checks": checks,
        "not_applicable": na,
        "notes": "All checks: ./check <id> --tier quick|thorough; VERIF_SEED respected; exit 0 held / 1 VIOLATION / 2 machinery failure. "
                 "Known findings: /verif/known_findings.json.  Design: /verif/DESIGN.md.",
    }
    with open(os.path.join(ROOT, "MANIFEST.json"), "w") as f:
        json.dump(m, f, indent=1)
    try:
        import jsonschema
        jsonschema.validate(m, json.load(open("/root/.vp/MANIFEST.schema.json")))
        print("MANIFEST.json valid; %d checks, %d not_applicable" % (len(checks), len(na)))
    except ImportError:
        print("MANIFEST.json written (jsonschema not available)")


if __name__ == "__main__":
    sys.exit(main())
