import functools
LOG = []
def install(M, job):
    from lian.config import config
    from lian.util import loader as L
    config.MAX_ROWS = int(job["max_rows"])
    G = L.GeneralLoader
    o = G.get_item_by_id
    @functools.wraps(o)
    def get_item_by_id(self, _id):
        r = o(self, _id)
        if isinstance(r, list) and "defined_states" in self.bundle_path_summary:
            b = self.item_id_to_bundle_id.get(_id)
            LOG.append({"id": str(_id), "bundle": b, "path": self.bundle_path_summary[-30:], "saved_rows": SAVED.get((id(self), _id))})
        return r
    G.get_item_by_id = get_item_by_id
    os_ = G.save
    SAVED = {}
    @functools.wraps(os_)
    def save(self, _id, c):
        r = os_(self, _id, c)
        try:
            SAVED[(id(self), _id)] = len(self.flatten_item_when_saving(_id, c))
        except Exception as e:
            SAVED[(id(self), _id)] = str(e)
        return r
    G.save = save
def collect(lian, job):
    return LOG
