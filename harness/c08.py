"""C08 — abstract values cover every value a variable actually takes; C09 — and are exact on loop-free code.

GIRMachine.tla (check = "values") executes the GIR of each value program and records every definition as an event
[statement, name, snapshot of the value] (objects by allocation site with their fields and elements, two levels).  The abstract
states lian computed for the same run (semantic_p3/s2space_p3, joined with stmt_status_p3's defined symbol per statement and
analysis context) travel in the case; at the end of every behaviour TLC judges `Covers` for every event (C08).
For C09 the events of all behaviours of a program are united per (statement, name) and ValueExact.tla judges that the regular
abstract values are among them and that no unknown state is present.
"""
import ast
import json
import os
import shutil
import time

import c01
import common as C
import girjson as G
import valgen as VG

PID = "C08"
SETTINGS = {"entry.yaml": "- method_list: [\"%unit_init\"]\n", "source.yaml": "[]\n", "sink.yaml": "[]\n", "propagation.yaml": "[]\n"}


def jlist(v):
    if v is None or v == "":
        return []
    if isinstance(v, list):
        return v
    try:
        return json.loads(v)
    except (ValueError, TypeError):
        try:
            return list(ast.literal_eval(str(v)))
        except (ValueError, SyntaxError):
            return []


def jdict(v):
    if not v:
        return {}
    if isinstance(v, dict):
        return v
    try:
        x = json.loads(v)
    except (ValueError, TypeError):
        try:
            x = ast.literal_eval(str(v))
        except (ValueError, SyntaxError):
            return {}
    return x if isinstance(x, dict) else {}


def flat(xs):
    out = []
    for x in xs:
        if isinstance(x, (list, tuple, set)):
            out += flat(x)
        else:
            try:
                out.append(int(x))
            except (TypeError, ValueError):
                pass
    return out


def as_int_text(v):
    try:
        f = float(v)
        if f == int(f) and abs(f) < 2 ** 30:
            return int(f)
    except (TypeError, ValueError, OverflowError):
        pass
    return None


def decode_alt(sv):
    """lian keeps string constants as source text without the quotes; the same value with escapes decoded is accepted too."""
    try:
        return sv.encode("latin-1", "backslashreplace").decode("unicode_escape")
    except Exception:  # noqa
        return sv


def abstract_tables(space, status, entry_id, used_names=None):
    """-> (abs, states) in the vocabulary of GIRMachine.Covers"""
    rows = [r for r in space if r.get("method_id") == entry_id]
    by_index = {int(r["index"]): r for r in rows}
    n = (max(by_index) + 1) if by_index else 0
    first_stmt_of_state = {}
    for i in sorted(by_index):
        r = by_index[i]
        if r.get("symbol_or_state", 0) != 0 and r.get("state_id") is not None:
            first_stmt_of_state.setdefault(r["state_id"], int(r.get("stmt_id", 0)))
    states = []
    for i in range(n):
        r = by_index.get(i)
        st = {"k": "other", "i": 0, "s": "", "s2": "", "site": 0, "fields": [], "elems": [], "sid": int(r.get("state_id", -1) or -1) if r is not None else -1}
        if r is not None and r.get("symbol_or_state", 0) != 0:
            ty, dt, val = r.get("state_type"), str(r.get("data_type") or ""), r.get("value")
            sval = "" if val is None else str(val)
            if ty in (2, 4) or ty is None:
                st["k"] = "unknown"
            elif dt == "%int" or (dt in ("%float",) and as_int_text(sval) is not None):
                iv = as_int_text(sval)
                st.update(k="int" if iv is not None else "other", i=iv or 0)
            elif dt == "%string":
                st.update(k="str", s=sval, s2=decode_alt(sval))
            elif dt == "%bool":
                st.update(k="bool", i=1 if sval in ("True", "true", "1") else 0)
            elif dt in ("%null", "%none"):
                st["k"] = "none"
            elif dt == "%method_decl":
                st.update(k="fun", i=as_int_text(sval) or 0)
            elif dt == "%class_decl":
                st.update(k="cls", i=as_int_text(sval) or 0)
            else:
                # an object / array / record state: identified by the statement that created the first state with this state id
                st.update(k="obj", site=first_stmt_of_state.get(r.get("state_id"), int(r.get("stmt_id", 0))))
                fields = []
                for fname, idxs in jdict(r.get("fields")).items():
                    ix = flat(idxs if isinstance(idxs, list) else [idxs])
                    for alias in (str(fname), "s:" + str(fname), "i:" + str(fname)):
                        fields.append({"name": alias, "idx": ix})
                st["fields"] = fields
                st["elems"] = sorted(set(flat(jlist(r.get("array"))) + flat(jlist(r.get("tangping_elements")))))
        states.append(st)
    # defined symbol per statement and context.  A symbol lists the state copies it had when the statement ran; the value a reader sees is the
    # newest copy of each state id that leaves the statement (out_state_bits) - lian's own reading rule (collect_newest_states_by_state_indexes).
    def newest_map(srow):
        nm = {}
        for b in jlist(srow.get("out_state_bits")):
            if isinstance(b, dict) and "index" in b and "state_id" in b and 0 <= int(b["index"]) < n:
                nm.setdefault(int(b["state_id"]), set()).add(int(b["index"]))
        return nm

    def resolve(idx, nm):
        out = set()
        for x in idx:
            sid = states[x]["sid"] if 0 <= x < n else -1
            out |= nm.get(sid) or {x}
        return sorted(out)
    abs_, seen = [], set()
    for srow in status:
        d = srow.get("defined_symbol")
        if d is None or int(d) < 0 or int(d) not in by_index:
            continue
        sym = by_index[int(d)]
        if sym.get("symbol_or_state", 0) != 0:
            continue
        key = (int(srow["stmt_id"]), str(sym.get("name")))
        nm = newest_map(srow)
        idx = [x for x in sorted(set(flat(jlist(sym.get("states"))))) if 0 <= x < n]
        abs_.append({"s": key[0], "n": key[1], "idx": resolve(idx, nm), "nm": [{"sid": k, "idx": sorted(x)} for k, x in sorted(nm.items())]})
        seen.add(key)
    # The per-context status table keeps one row per (context hash, statement): when a callee is analysed twice under the same last call site the
    # second analysis replaces the first there, but the symbols of both analyses stay in the space.  Every symbol row of a statement whose name is
    # not also an operand of that statement is a definition of it, and counts (with the newest-copy map of the statement's stored row, if any).
    nm_of_stmt = {}
    for srow in status:
        nm_of_stmt.setdefault(int(srow["stmt_id"]), newest_map(srow))
    listed = {(a["s"], a["n"], tuple(a["idx"])) for a in abs_}
    for r in rows:
        if r.get("symbol_or_state", 0) != 0:
            continue
        sid, name = int(r.get("stmt_id", 0)), str(r.get("name"))
        if name in (used_names or {}).get(sid, ()):
            continue
        nm = nm_of_stmt.get(sid, {})
        idx = resolve([x for x in sorted(set(flat(jlist(r.get("states"))))) if 0 <= x < n], nm)
        if (sid, name, tuple(idx)) in listed:
            continue
        listed.add((sid, name, tuple(idx)))
        abs_.append({"s": sid, "n": name, "idx": idx, "nm": [{"sid": k, "idx": sorted(x)} for k, x in sorted(nm.items())]})
    return abs_, states


def build(chains, root):
    jobs = []
    for i, ch in enumerate(chains):
        js = ch.lang == "javascript"
        jobs.append(dict(cmd="run", lang=ch.lang, files={"p.js" if js else "p.py": ch.render()}, dir=os.path.join(root, "r%04d" % i), settings=SETTINGS, flags=["--nomock"],
                         export=["gir", "s2space_p3", "stmt_status_p3"], timeout=600, _chain=ch))
    return jobs


def case_of(job, r):
    ch = job["_chain"]
    gir = r["exports"].get("gir") or []
    rows = [x for _, rs in G.units_of(gir) for x in rs]
    entry = [x["stmt_id"] for x in rows if x.get("operation") == "method_decl" and x.get("name") == "%unit_init"]
    used = {}
    for x in rows:
        names = {str(x.get(f)) for f in ("operand", "operand2", "name", "receiver_object", "source", "array", "index", "condition", "receiver") if x.get(f)}
        if x.get("operation") in ("field_write", "array_write"):
            names -= {str(x.get("receiver_object")), str(x.get("array"))}      # the receiver is what these statements define
        if x.get("operation") == "parameter_decl":
            names = set()
        names |= set(G.arg_list(x.get("positional_args")))
        used[x["stmt_id"]] = names
    abs_, states = abstract_tables(r["exports"].get("s2space_p3") or [], r["exports"].get("stmt_status_p3") or [], entry[0] if entry else -1, used)
    return {"name": ch.name, "rows": [G.machine_row(x) for x in rows], "temps": G.temps_of(rows), "expected": [], "start": "", "start_id": 0,
            "check": "values", "flows": [], "param_sources": [], "edges": [], "analysed": [], "abs": abs_, "states": states, "source": ch.render(),
            "_lines": {x["stmt_id"]: int(x.get("start_row", 0)) + 1 for x in rows}}


def collect(tier, seed, v, root, keep=None):
    """-> (cases, verdicts, totals): shared by C08 and C09."""
    chains = VG.universe(tier, seed) + VG.js_universe(tier, seed)
    if keep is not None:
        chains = [c for c in chains if keep(c.name)]
    jobs = build(chains, root)
    res = C.lian_batch(jobs)
    cases = []
    for job, r in zip(jobs, res):
        if r["exit"] != "ok":
            v.violation("lian_failed:%s:%s" % (r["exit"], job["_chain"].name), {"chain": job["_chain"].name, "exit": r["exit"],
                                                                               "traceback": (r.get("traceback") or "")[-800:], "source": job["_chain"].render()})
            continue
        cases.append(case_of(job, r))
    tot = c01.run_tlc([{k: x for k, x in c.items() if not k.startswith("_")} for c in cases], root, v)
    return chains, cases, tot


def show(d):
    v = d["v"]
    if v["t"] == "ref":
        return "%s := object allocated at statement %s with fields %s" % (d["n"], v["site"], sorted((f[0], f[1].get("i") if f[1]["t"] in ("int", "bool") else f[1].get("s") or f[1]["t"]) for f in v["fields"]))
    return "%s := %s" % (d["n"], v["i"] if v["t"] in ("int", "bool", "fun", "cls") else repr(v["s"]))


def signature(case_name, d, lines):
    kind, steps = case_name.split("__")
    return "value_not_covered:%s:%s" % (kind, steps)       # kind: int | str | lit<j> | jsint | jsstr


def run(tier, seed):
    t0 = time.time()
    v = C.Verdict(PID)
    root = C.scratch("c08")
    chains, cases, tot = collect(tier, seed, v, root)
    by = {c["name"]: c for c in cases}
    seen, n_bad, n_defs = set(), 0, 0
    for vd in tot["verdicts"]:
        c = by[vd["case"]]
        seen.add(vd["case"])
        n_defs += len(vd.get("defs") or [])
        cl = vd["clause"]
        if cl == "":
            continue
        if cl.startswith("stuck:") or cl == "diverges":
            v.machinery_failure("the machine could not execute %s: %s" % (vd["case"], cl))
            continue
        n_bad += 1
        unc = vd.get("uncovered") or []
        v.violation(signature(vd["case"], unc, c["_lines"]),
                    {"chain": vd["case"], "uncovered": [{"line": c["_lines"].get(d["s"]), "statement": d["s"], "event": show(d),
                                                         "abstract_states": [dict(c["states"][i], index=i) for a in c["abs"] if a["s"] == d["s"] and a["n"] == d["n"] for i in a["idx"]][:6]}
                                                        for d in unc[:6]], "source": c["source"]})
    missing = [c["name"] for c in cases if c["name"] not in seen]
    if missing and not v.machinery:
        v.machinery_failure("%d cases without a verdict, e.g. %s" % (len(missing), missing[:3]))
    if cases and n_defs < 5 * len(cases) and not v.machinery:
        v.machinery_failure("only %d definition events in %d programs (vacuous)" % (n_defs, len(cases)))
    rc = v.finish(max_print=40)
    cov = {
        "states": tot["states"], "transitions": tot["transitions"], "traces_validated_against_impl": len(cases),
        "samples": [{"chain": c["name"], "source": c["source"]} for c in cases[:2]],
        "programs": len(cases), "behaviours_judged": len(tot["verdicts"]), "definition_events_judged": n_defs, "violating_behaviours": n_bad,
        "steps": VG.STEPS, "hostile_literals": VG.LITERALS, "known_findings_hit": {k: len(x) for k, x in v.hits.items()}, "repo": C.repo_head(),
        "exhaustive": tier == "thorough",
        "rule": "a case = one value program (start constant x <=2 connecting constructs) run through the full lian pipeline; every definition event of every "
                "behaviour of the machine must be covered by the abstract states of its statement and name (all analysis contexts united)",
    }
    C.write_evidence(PID, tier, seed, "model_checking", cov, time.time() - t0, violations=len(v.unlisted),
                     assumptions=["GIRMachine's semantics is the one validated against CPython by C01", "an allocation site = the statement of the first state carrying a state id",
                                  "array elements are compared position-insensitively", "None values are not judged", "single-file python programs, one entry (%unit_init)"])
    print("C08: %d programs, %d behaviours, %d definition events, %d TLC states, %d violating, %.1fs" % (
        len(cases), len(tot["verdicts"]), n_defs, tot["states"], n_bad, time.time() - t0))
    shutil.rmtree(root, ignore_errors=True)
    return rc


def replay(path):
    doc = json.load(open(path))["replay"]
    print(doc.get("source", ""))
    print(json.dumps({k: doc[k] for k in doc if k != "source"}, indent=1)[:4000])
    return 0
