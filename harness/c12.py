"""C12 — results are invariant under meaning-preserving edits (Edits.tla).

TLC enumerates every sequence of edits (blank line, comment, no-op statement, rename, reordering of independent definitions, moving a
definition into another file) up to a bound over a seed program and prints, for every reachable state, the edited program as line tokens
together with the observables the specification predicts (flows by line, call edges by name, bindings by line).  The harness writes each
state out as real source text, runs lian on it and compares what lian reports with the prediction.
"""
import json
import os
import random
import re
import shutil
import time

import common as C
import taintgen as T

PID = "C12"

SEEDS = {
    "py_flow_calls": {
        "lang": "python", "main": "main.py", "lib": "lib_moved.py",
        "text": [
            "def source_wrap():",            # 1
            "    t = source()",
            "    return t",
            "",
            "def helper(v):",                # 5
            "    w = v",
            "    return w",
            "",
            "def show(m):",                  # 9
            "    sink(m)",
            "    return 0",
            "",
            "def producer():",               # 13   a local named like a global that another function reads unresolved
            "    payload = source()",
            "    return 0",
            "",
            "def consumer():",               # 17
            "    sink(payload)",
            "    return 0",
            "",
            "def handler():",                # 21
            "    a = source_wrap()",
            "    b = helper(a)",
            "    sink(b)",
            "    d = show(b)",
            "    c = \"clean\"",
            "    sink(c)",
            "    e = producer()",
            "    f = consumer()",
            "    return d",
            "",
            "handler()",                     # 32
        ],
        "defs": [{"name": "source_wrap", "first": 1, "last": 3, "movable": True}, {"name": "helper", "first": 5, "last": 7, "movable": True},
                 {"name": "show", "first": 9, "last": 11, "movable": True}, {"name": "producer", "first": 13, "last": 15, "movable": False},
                 {"name": "consumer", "first": 17, "last": 19, "movable": False}, {"name": "handler", "first": 21, "last": 30, "movable": False}],
        "names": ["helper", "source_wrap", "handler", "a", "b", "v", "payload"],
        # a local is renamed together with exactly the occurrences bound to it: the lines of its function
        "scope": {"a": [21, 30], "b": [21, 30], "v": [5, 7], "payload": [13, 15]},
        "edit_lines": [1, 6, 9, 24, 32],
        "comment": "# note", "noop": "pass", "import": "from %s import %s", "lib2": "lib2_moved.py",
    },
    # a dotted plain import (rewritten textually by the python pre-processing) next to identifiers that embed the dotted name as a substring
    "py_dotted_import": {
        "lang": "python", "main": "main.py", "lib": "lib_moved.py",
        "text": [
            "import os.path",                # 1
            "",
            "def load():",                   # 3
            "    t = source()",
            "    return t",
            "",
            "def handler():",                # 7
            "    videos = load()",
            "    sink(videos)",
            "    target = videos.path",
            "    sink(target)",
            "    ros = os.path.sep",
            "    sink(ros)",
            "    return ros",
            "",
            "handler()",                     # 16
        ],
        "defs": [{"name": "load", "first": 3, "last": 5, "movable": True}, {"name": "handler", "first": 7, "last": 14, "movable": False}],
        "names": ["load", "handler", "videos", "ros"],
        "scope": {"videos": [7, 14], "ros": [7, 14]},
        "edit_lines": [3, 10, 16],
        "comment": "# note", "noop": "pass", "import": "from %s import %s", "lib2": "lib2_moved.py",
    },
    # php: the inserted comment is a block comment that holds a URL (// inside /* */), and the program has another block comment further down
    "php_flow_calls": {
        "lang": "php", "main": "main.php", "lib": "lib_moved.php",
        "text": [
            "<?php",                          # 1
            "function source_wrap() {",      # 2
            "    $t = source();",
            "    return $t;",
            "}",
            "function helper($v) {",         # 6
            "    $w = $v;",
            "    return $w;",
            "}",
            "function handler() {",          # 10
            "    $a = source_wrap();",
            "    $b = helper($a);",
            "    sink($b);",
            "    /* tail of the handler */",
            "    return $b;",
            "}",
            "handler();",                    # 17
        ],
        "defs": [{"name": "source_wrap", "first": 2, "last": 5, "movable": False}, {"name": "helper", "first": 6, "last": 9, "movable": False},
                 {"name": "handler", "first": 10, "last": 16, "movable": False}],
        "names": ["helper", "source_wrap", "handler", "a", "b", "v"],
        "edit_lines": [2, 7, 10, 13, 17],
        "comment": "/* see http://example.com/x */", "noop": ";", "import": "", "lib2": "lib2_moved.php",
        "flows_optional": True,      # lian reports no taint flow for this php program; call edges and bindings are the observables
    },
    "js_flow_calls": {
        "lang": "javascript", "main": "main.js", "lib": "lib_moved.js",
        "text": [
            "function source_wrap() {",      # 1
            "    var t = source();",
            "    return t;",
            "}",
            "function helper(v) {",          # 5
            "    var w = v;",
            "    return w;",
            "}",
            "function handler() {",          # 9
            "    var a = source_wrap();",
            "    var b = helper(a);",
            "    sink(b);",
            "    var c = \"clean\";",
            "    sink(c);",
            "    return b;",
            "}",
            "handler();",                    # 17
        ],
        "defs": [{"name": "source_wrap", "first": 1, "last": 4, "movable": False}, {"name": "helper", "first": 5, "last": 8, "movable": False},
                 {"name": "handler", "first": 9, "last": 16, "movable": False}],
        "names": ["helper", "source_wrap", "handler", "a", "b", "v"],
        "edit_lines": [1, 6, 9, 12, 17],
        "comment": "// note", "noop": ";", "import": "", "lib2": "lib2_moved.js",
    },
}
SETTINGS = {
    "entry.yaml": "- method_list: [\"%unit_init\"]\n",
    "source.yaml": "- lang: \"%\"\n  rules:\n    - operation: call_stmt\n      name: source\n      tag: [\"%target\"]\n",
    "sink.yaml": "- lang: \"%\"\n  rules:\n    - operation: call_stmt\n      name: sink\n      target: [\\%arg0]\n      vuln_type: generic\n",
    "propagation.yaml": "[]\n",
}


def observe(seed, r, files):
    """lian's observables of one run in the vocabulary of Edits.tla: flows [[file, line], [file, line]], calls [caller, callee], binds [[file, line], name, [file, line]]."""
    fileno = {seed["main"]: 1, seed["lib"]: 2, seed["lib2"]: 3}
    mods = {m["unit_id"]: fileno.get(os.path.basename(m.get("original_path", "")), 0) for m in (r["exports"].get("modules") or []) if m.get("unit_id") is not None}
    gir = r["exports"].get("gir") or []
    row = {x["stmt_id"]: x for x in gir}
    flows = sorted({((fileno.get(os.path.basename(f["source_file_path"]), 0), int(f["source_line"])), (fileno.get(os.path.basename(f["sink_file_path"]), 0), int(f["sink_line"])))
                    for f in (r["exports"].get("taint") or [])})
    mname = {x["stmt_id"]: x.get("name") for x in gir if x.get("operation") == "method_decl"}
    calls = sorted({(mname.get(int(s[0]), "?"), mname.get(int(s[2]), "?")) for p in (r["exports"].get("call_paths_p3") or []) for s in p.get("call_path", [])})
    binds = set()
    for s in r["exports"].get("s2space_p1") or []:
        nm, sid, st = s.get("name"), s.get("symbol_id"), row.get(s.get("stmt_id"))
        if nm is None or sid is None or sid < 0 or st is None or st.get("operation") in ("variable_decl", "parameter_decl", "method_decl"):
            continue
        d = row.get(sid)
        if d is None or d.get("name") != nm or st.get("start_row") is None or d.get("start_row") is None:
            continue
        binds.add(((mods.get(st.get("unit_id"), 0), int(st["start_row"]) + 1), nm, (mods.get(d.get("unit_id"), 0), int(d["start_row"]) + 1)))
    return flows, calls, sorted(binds)


def materialise(seed, st):
    """state of Edits.tla -> {file: text}"""
    ren = st["ren"]
    scope = seed.get("scope", {})

    def rn(text, l=None):
        for old, new in ren.items():
            if old != new and (old not in scope or (l is not None and scope[old][0] <= l <= scope[old][1])):
                text = re.sub(r"\b%s\b" % re.escape(old), new, text)
        return text

    def line(tok):
        pad = " " * int(tok["ind"])
        if tok["k"] == "o":
            return rn(seed["text"][tok["l"] - 1], tok["l"])
        if tok["k"] == "b":
            return ""
        if tok["k"] == "c":
            return pad + seed["comment"]
        if tok["k"] == "n":
            return pad + seed["noop"]
        if tok["k"] == "i":
            return seed["import"] % (seed["lib"].rsplit(".", 1)[0], rn(tok["name"]))
        if tok["k"] == "j":
            return seed["import"] % (seed["lib2"].rsplit(".", 1)[0], rn(tok["name"]))
        raise ValueError(tok)
    files = {seed["main"]: "\n".join(line(t) for t in st["prog"]) + "\n"}
    if st["lib"]:
        files[seed["lib"]] = "\n".join(line(t) for t in st["lib"]) + "\n"
    if st.get("lib2"):
        files[seed["lib2"]] = "\n".join(line(t) for t in st["lib2"]) + "\n"
    return files


def job_for(seed, files, d, i):
    return dict(cmd="run", lang=seed["lang"], files=files, dir=os.path.join(d, "r%05d" % i), settings=SETTINGS, flags=["--nomock"],
                export=["gir", "modules", "taint", "call_paths_p3", "s2space_p1"], timeout=600)


def norm(x):
    """JSON round trip of observables (tuples -> lists) for comparison with TLC's sets."""
    return sorted(json.loads(json.dumps(x)))


def run(tier, seed_no):
    t0 = time.time()
    v = C.Verdict(PID)
    root = C.scratch("c12")
    rng = random.Random(seed_no)
    tot_states, tot_gen, n_runs, n_bad, n_seq = 0, 0, 0, 0, 0
    samples = []
    for sname, seed in SEEDS.items():
        # 1. the unedited program: lian's observables are the constants of the specification
        base_files = {seed["main"]: "\n".join(seed["text"]) + "\n"}
        r0 = C.lian_batch([job_for(seed, base_files, os.path.join(root, sname + "_base"), 0)])[0]
        if r0["exit"] != "ok":
            v.violation("lian_failed:%s:base:%s" % (sname, r0["exit"]), {"seed": sname, "exit": r0["exit"], "traceback": (r0.get("traceback") or "")[-800:]})
            continue
        flows, calls, binds = observe(seed, r0, base_files)
        names = set(seed["names"])
        binds = [b for b in binds if b[1] in names]
        if (not flows and not seed.get("flows_optional")) or not calls or not binds:
            v.machinery_failure("seed %s: lian reports no flow / call / binding on the unedited program (vacuous): %s %s %s" % (sname, flows, calls, binds))
            continue
        n = len(seed["text"])
        doc = {"n": n, "max_edits": 2 if tier == "quick" else 3, "indent": [len(t) - len(t.lstrip()) for t in seed["text"]],
               "blank_ok": seed["edit_lines"], "noop_ok": seed["edit_lines"], "defs": seed["defs"], "names": seed["names"],
               "flows": [[f[0][1], f[1][1]] for f in flows], "calls": [list(c) for c in calls], "binds": [[b[0][1], b[1], b[2][1]] for b in binds]}
        pf = os.path.join(root, sname + "_program.json")
        with open(pf, "w") as f:
            json.dump(doc, f)
        cfg = os.path.join(root, sname + "_Edits.cfg")
        C.write_cfg(cfg, spec="Spec", invariants=["NoLineLost", "OrderKeptInsideDefs", "FreshNames"], constraints=["EmitConstraint"])
        r = C.tlc("Edits", cfg, name="c12_" + sname, env={"PROGRAM": pf}, workers=4, timeout=3000, heap="6g")
        if not r.ok:
            v.machinery_failure("Edits.tla on %s: %s" % (sname, (r.violation or r.error or "")[:2000]))
            continue
        tot_states += r.distinct
        tot_gen += r.generated
        states = [json.loads(t) for t in r.printed]
        n_seq += len(states)
        # distinct programs (different edit orders can give the same text); keep one edit history per program
        by_prog = {}
        for st in states:
            if not st["hist"]:
                continue
            key = C.digest([st["prog"], st["lib"], st.get("lib2"), st["ren"]])
            by_prog.setdefault(key, st)
        todo = sorted(by_prog.values(), key=lambda s: (len(s["hist"]), json.dumps(s["hist"])))
        ones = [s for s in todo if len(s["hist"]) == 1]
        more = [s for s in todo if len(s["hist"]) > 1]
        if tier == "quick":
            twice = [s for s in more if [h[0] for h in s["hist"]] == ["m", "m"]]
            rest = [s for s in more if s not in twice]
            todo = ones + twice + rng.sample(rest, min(len(rest), 100))
        else:
            two = [s for s in more if len(s["hist"]) == 2]
            three = [s for s in more if len(s["hist"]) == 3]
            todo = ones + two + rng.sample(three, min(len(three), 1500))
        # a program spread over several files is analysed under two names of the main file: units are numbered in the enumeration order of the
        # directory, and which of importer and re-exporting file comes first must not matter
        plan = []
        for st in todo:
            mains = [seed["main"]]
            if seed["lang"] == "python" and any(h[0] == "m" for h in st["hist"]):
                mains = ["aa_" + seed["main"], "zz_" + seed["main"]]
            for mn in mains:
                plan.append((st, dict(seed, main=mn)))
        jobs = [job_for(sd, materialise(sd, st), os.path.join(root, sname), i) for i, (st, sd) in enumerate(plan)]
        res = C.lian_batch(jobs)
        n_runs += len(jobs)
        for (st, sd), job, rr in zip(plan, jobs, res):
            hist = "+".join(str(h[0]) for h in st["hist"])
            label = ";".join("%s%s" % (h[0], h[1]) for h in st["hist"])
            if rr["exit"] != "ok":
                n_bad += 1
                v.violation("lian_failed_after_edit:%s:%s" % (sname, hist), {"seed": sname, "edits": st["hist"], "exit": rr["exit"], "traceback": (rr.get("traceback") or "")[-800:],
                                                                           "files": job["files"]})
                continue
            f2, c2, b2 = observe(sd, rr, job["files"])
            cur = {st["ren"].get(x, x) for x in names}
            b2 = [b for b in b2 if b[1] in cur]
            got = {"flows": norm(f2), "calls": norm(c2), "binds": norm(b2)}
            want = {"flows": norm(st["flows"]), "calls": norm(st["calls"]), "binds": norm(st["binds"])}
            if len(samples) < 2:
                samples.append({"seed": sname, "edits": st["hist"], "predicted": want})
            for what in ("flows", "calls", "binds"):
                if got[what] != want[what]:
                    n_bad += 1
                    v.violation("%s_changed:%s:%s" % (what, sname, hist), {"seed": sname, "edits": st["hist"], "edit_label": label, "what": what, "predicted": want[what], "reported": got[what],
                                                                         "files": job["files"]})
                    break
    rc = v.finish(max_print=40)
    cov = {
        "evaluations": n_runs, "distinct_nontrivial": n_runs, "rule": "an evaluation = one edited program (state of Edits.tla reached by an edit sequence) run through the full lian "
        "pipeline and compared with the observables the specification predicts from the unedited run",
        "edit_sequences_enumerated_by_tlc": n_seq, "tlc_states": tot_states, "tlc_transitions": tot_gen, "seeds": sorted(SEEDS), "violating": n_bad,
        "max_edits": 2 if tier == "quick" else 3, "samples": samples, "known_findings_hit": {k: len(x) for k, x in v.hits.items()}, "repo": C.repo_head(),
    }
    C.write_evidence(PID, tier, seed_no, "exploration", cov, time.time() - t0, violations=len(v.unlisted),
                     assumptions=["edits are inserted before five representative lines of each seed", "each entity is renamed at most once per sequence",
                                  "python and javascript seeds; moving a definition to another file only for python (from-import)"])
    print("C12: %d edit sequences enumerated (%d TLC states), %d edited programs run, %d differing, %.1fs" % (n_seq, tot_states, n_runs, n_bad, time.time() - t0))
    shutil.rmtree(root, ignore_errors=True)
    return rc


def replay(path):
    doc = json.load(open(path))["replay"]
    for fn, text in (doc.get("files") or {}).items():
        print("# ---- %s\n%s" % (fn, text))
    print(json.dumps({k: doc[k] for k in doc if k != "files"}, indent=1)[:3000])
    return 0
