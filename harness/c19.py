"""C19 — the call-path store keeps exactly the maximal paths."""
import json
import os

import patterna as A
from tree import load_history

PID = "C19"
HERE = os.path.dirname(os.path.abspath(__file__))
DRIVER = os.path.join(HERE, "drive_c19.py")


def sig(clause, hist):
    ops = ";".join("%s%s" % (h["op"], json.dumps(h["path"], separators=(",", ":"))) for h in hist)
    return "%s:%s" % (clause, ops)


def samples(files):
    out = []
    with open(files[0][0]) as f:
        n = len(json.load(f)["nodes"])
    for k in (n, min(4, n)):
        out.append(" ; ".join("%s%s->%s stored=%s" % (h["op"], json.dumps(h["path"], separators=(",", ":")), h["res"],
                                                      json.dumps(h["paths"], separators=(",", ":")))
                              for h in load_history(files[0][0], k)))
    return out


def run(tier, seed):
    mc = [("PathStore", "MC_PathStore.cfg"), ("PathTrieImpl", "MC_PathTrieImpl.cfg")]
    if tier == "thorough":
        mc += [("PathStore", "MC_PathStore_big.cfg"), ("PathTrieImpl", "MC_PathTrieImpl_big.cfg")]
    return A.run_component(
        PID, tier, seed, DRIVER, "PathStoreTrace", "PathStoreTrace.cfg", mc,
        [("PathTrieImpl", "MC_PathTrieImpl_pinned.cfg")], sig, samples,
        assumptions=["CallSite equality/hash as implemented",
                     "paths of length >= 1 (the analysis never stores the empty path)", "TLC, CommunityModules Json"],
        impl_name="PathTrieImpl",
        rule="every node of the history tree is one call on the real PathManager judged by PathStore; "
             "a trace = one root-to-leaf history")


def replay(path):
    return A.replay_component(PID, path, DRIVER, "PathStoreTrace", "PathStoreTrace.cfg", sig, ("op", "path"),
                              show=("res", "paths"))
