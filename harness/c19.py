"""C19 — the call-path store keeps exactly the maximal paths."""
import json
import os
import time

import common as C
import patterna as A

PID = "C19"
HERE = os.path.dirname(os.path.abspath(__file__))


def sig(clause, hist):
    ops = ";".join("%s%s" % (h["op"], json.dumps(h["path"], separators=(",", ":"))) for h in hist)
    return "%s:%s" % (clause, ops)


def drive(out_dir, tier, seed, v):
    p = C.run_py(os.path.join(HERE, "drive_c19.py"), [out_dir, tier, seed], timeout=7200)
    if p.returncode != 0:
        v.machinery_failure("driver failed: " + p.stderr[-1500:])
        return None
    return json.loads(p.stdout.strip().splitlines()[-1])


def run(tier, seed):
    t0 = time.time()
    v = C.Verdict(PID)
    out_dir = C.scratch("c19")
    mc = A.model_check(
        [("PathStore", "MC_PathStore.cfg"), ("PathTrieImpl", "MC_PathTrieImpl.cfg")] +
        ([("PathStore", "MC_PathStore_big.cfg"), ("PathTrieImpl", "MC_PathTrieImpl_big.cfg")] if tier == "thorough" else []),
        v, neg_controls=[("PathTrieImpl", "MC_PathTrieImpl_pinned.cfg")])
    summary = drive(out_dir, tier, seed, v)
    tot = dict(states=0, transitions=0, nodes=0, bad=[], drift=[])
    samples = []
    if summary:
        files = [(os.path.abspath(p), n) for p, n in summary["files"]]
        tot = A.validate_forests(files, "PathStoreTrace", "PathStoreTrace.cfg", v, sig)
        A.drift_note(tot, v, "PathTrieImpl")
        with open(files[0][0]) as f:
            doc = json.load(f)
        # two sample histories: the deepest chain and the first exhaustive leaf
        from tree import load_history
        for k in (len(doc["nodes"]), min(4, len(doc["nodes"]))):
            samples.append(" ; ".join("%s%s->%s stored=%s" % (h["op"], json.dumps(h["path"], separators=(",", ":")), h["res"],
                                                                  json.dumps(h["paths"], separators=(",", ":")))
                                          for h in load_history(files[0][0], k)))
    rc = v.finish()
    cov = {
        "states": tot["states"] + sum(m["distinct"] for m in mc),
        "transitions": tot["transitions"] + sum(m["generated"] for m in mc),
        "traces_validated_against_impl": (summary or {}).get("leaves", 0),
        "samples": samples or ["none"],
        "spec_level_runs": mc,
        "trace_tree_nodes": tot["nodes"],
        "trace_states": tot["states"],
        "history_families": (summary or {}).get("families"),
        "max_history_length": (summary or {}).get("maxdepth"),
        "violating_nodes": len(tot["bad"]),
        "model_drift_nodes": len(tot["drift"]),
        "known_findings_hit": {k: len(x) for k, x in v.hits.items()},
        "repo": C.repo_head(),
        "exhaustive": False,
        "rule": "every node of the history tree is one call on the real PathManager judged by PathStore; "
                "a trace = one root-to-leaf history",
    }
    C.write_evidence(PID, tier, seed, "model_checking", cov, time.time() - t0, violations=len(v.unlisted),
                     assumptions=["CallSite equality/hash as implemented", "paths of length >= 1 (the analysis never stores the empty path)",
                                  "TLC, CommunityModules Json"])
    print("C19: %d tree nodes, %d TLC states, %d violating, %d drift, %.1fs" % (
        tot["nodes"], cov["states"], len(tot["bad"]), len(tot["drift"]), time.time() - t0))
    return rc


def replay(path):
    with open(path) as f:
        doc = json.load(f)
    hist = [{"op": h["op"], "path": h["path"]} for h in doc["replay"]["history"]]
    d = C.scratch("c19_replay")
    hp = os.path.join(d, "hist.json")
    with open(hp, "w") as f:
        json.dump(hist, f)
    p = C.run_py(os.path.join(HERE, "drive_c19.py"), ["--replay", hp])
    evs = json.loads(p.stdout.strip().splitlines()[-1])
    nodes = []
    for i, ev in enumerate(evs):
        ev["kids"] = [i + 2] if i + 1 < len(evs) else []
        nodes.append(ev)
    fp = os.path.join(d, "chain.json")
    with open(fp, "w") as f:
        json.dump({"roots": [1], "nodes": nodes}, f)
    v = C.Verdict(PID)
    A.validate_forests([(fp, len(nodes))], "PathStoreTrace", "PathStoreTrace.cfg", v, sig)
    for ev in evs:
        print(json.dumps({k: ev[k] for k in ("op", "path", "res", "paths")}))
    return v.finish()
