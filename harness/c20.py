"""C20 — entry points and unit initialisers are selected exactly as configured (EntryPoints.tla).

Model part: TLC runs the operational scan/start model against the declarative Selected() for every subset of the rule pool.
Trace part: lian analyses the same project once per rule subset (entry.yaml generated from the subset); the recorded entry
points (semantic_p1/entry_points), the methods P3 started from (keys of s2space_p3) and the methods whose local source->sink flow
was reported are judged by the same Selected().
"""
import itertools
import json
import os
import random
import shutil
import time

import common as C

PID = "C20"

FLOW = "    t%d = source()\n    sink(t%d)\n"
FILES = {
    "a.py": "def helper(v):\n" + FLOW % (1, 1) + "    return v\n\n"
            "def main1(p):\n" + FLOW % (2, 2) + "    return helper(p)\n\n"
            "def orphan(q):\n" + FLOW % (3, 3) + "    return q\n\n"
            "t4 = source()\nsink(t4)\n",
    "sub/b.py": "def main2(p):\n" + FLOW % (5, 5) + "    return p\n\n"
                "def helper(v):\n" + FLOW % (6, 6) + "    return v\n\n"
                "t7 = source()\nsink(t7)\n",
    "c.js": "function main1(p) {\n    return p;\n}\nvar z = main1(1);\n",
    # two units with the same file name in different directories (told apart by unit_path only)
    "api/views.py": "def index(p):\n" + FLOW % (8, 8) + "    return p\n",
    "admin/views.py": "def index(p):\n" + FLOW % (9, 9) + "    return p\n",
    # a directory whose name only starts like the one a unit_path rule names with its trailing separator ("admin/")
    "admin_legacy/views.py": "def index(p):\n" + FLOW % (24, 24) + "    return p\n",
    # classes with methods of the same name, told apart only by their attributes (decorators) or not at all
    "svc.py": "class Fetcher:\n    @staticmethod\n    def handle(p):\n" + (FLOW % (20, 20)).replace("    ", "        ") + "        return p\n\n"
              "    def run(self, p):\n" + (FLOW % (21, 21)).replace("    ", "        ") + "        return p\n\n"
              "class Parser:\n    @classmethod\n    def handle(cls, p):\n" + (FLOW % (22, 22)).replace("    ", "        ") + "        return p\n\n"
              "    def run(self, p):\n" + (FLOW % (23, 23)).replace("    ", "        ") + "        return p\n",
    # four entries whose call chains converge on one call site two levels down; the source is in the entry, the sink in the deepest callee
    "conv.py": "def deep(v):\n    sink(v)\n    return v\n\ndef shared(v):\n    return deep(v)\n\n"
               + "".join("def e%d(p):\n    s%d = source()\n    return shared(s%d)\n\n" % (i, i, i) for i in (1, 2, 3, 4)),
}
# rule pool; every field is optional as in entry.yaml
POOL = [
    {"method_list": ["%unit_init"]},
    {"method_list": ["main1"]},
    {"lang": "python", "method_list": ["main1"]},
    {"unit_name": "b.py", "method_list": ["main2"]},
    {"unit_path": "sub/", "method_list": ["main2", "helper"]},
    {"lang": "javascript", "method_list": ["main1"]},
    {"method_list": ["orphan"]},
    {"lang": "javascript"},
    {"unit_name": "zzz.py", "method_list": ["main1"]},
    {"lang": "python", "unit_name": "a.py", "method_list": ["helper", "nosuch"]},
    {"unit_path": "admin/", "method_list": ["index"]},
    {"unit_name": "views.py", "unit_path": "api/", "method_list": ["index"]},
    {"method_list": ["e1", "e2", "e3", "e4"]},
    {"unit_name": "conv.py", "method_list": ["e2", "e4", "shared"]},
    {"method_list": ["handle"], "attrs": ["staticmethod"]},
    {"method_list": ["handle"], "attrs": ["classmethod"]},
    {"method_list": ["run"]},
    {"unit_name": "svc.py", "method_list": ["run", "handle"]},
]
SETTINGS = {
    "source.yaml": "- lang: python\n  rules:\n    - operation: call_stmt\n      name: source\n      tag: [\"%target\"]\n",
    "sink.yaml": "- lang: python\n  rules:\n    - operation: call_stmt\n      name: sink\n      target: [\\%arg0]\n      vuln_type: generic\n",
    "propagation.yaml": "[]\n",
}
CALLS = {"a.py:main1": ["a.py:helper"], "conv.py:shared": ["conv.py:deep"]}
CALLS.update({"conv.py:e%d" % i: ["conv.py:shared"] for i in (1, 2, 3, 4)})
NO_FLOW = {"c.js:main1", "c.js:%unit_init", "api/views.py:%unit_init", "admin/views.py:%unit_init", "admin_legacy/views.py:%unit_init", "conv.py:%unit_init", "conv.py:deep", "conv.py:shared",
           "svc.py:%unit_init"}


def yaml_of(rules):
    if not rules:
        return "[]\n"
    out = []
    for r in rules:
        lines = []
        for k, v in r.items():
            lines.append("%s: %s" % (k, json.dumps(v)))
        out.append("- " + "\n  ".join(lines))
    return "\n".join(out) + "\n"


def subsets(tier, seed):
    n = len(POOL)
    alls = [list(s) for k in range(0, n + 1) for s in itertools.combinations(range(1, n + 1), k)]
    core = [s for s in alls if len(s) <= 1] + [[1, 2], [3, 6], [4, 5], [2, 7], [11, 12], [1, 13], [13, 14], [1, 11, 13], [15, 16], [15, 17], [16, 18], [17, 18], list(range(1, n + 1))]
    if tier == "thorough":
        rest = [s for s in alls if s not in core and len(s) <= 3]
        big = random.Random(0).sample([s for s in alls if len(s) > 3], 120)
        return core + rest + big
    rng = random.Random(seed)
    return core + rng.sample([s for s in alls if s not in core], 30)


# Where the configured rules live: lian reads every `entry.yaml` and `<prefix>-entry.yaml` below the settings directory and the
# configuration is the union of their rules (the prefix is a file-naming convention, a rule's language is its own `lang` field).
# Placement "" is the single entry.yaml; the others spread the same rule set over several files.
def place(rules, how):
    a, b = rules[::2], rules[1::2]
    if how == "":
        return {"entry.yaml": yaml_of(rules)}
    if how == "lang-file":          # a file named after an analysed language next to entry.yaml
        return {"entry.yaml": yaml_of(a), "python-entry.yaml": yaml_of(b)}
    if how == "other-files":        # a project-named file and one named after a language that is not analysed
        return {"entry.yaml": "[]\n", "webapp-entry.yaml": yaml_of(a), "java-entry.yaml": yaml_of(b)}
    if how == "subdir":             # rule files in a sub-directory of the settings directory
        return {"entry.yaml": yaml_of(b), "team/extra-entry.yaml": yaml_of(a)}
    raise ValueError(how)


PLACED = [[1], [3], [13], [1, 2], [3, 6], [4, 5], [2, 7], [11, 12], [1, 13], [13, 14], [1, 11, 13], [15, 16], [17, 18]]


def lang_of(fn):
    return "javascript" if fn.endswith(".js") else "python"


METHOD_ATTRS = {}


def project_facts(gir, modules):
    """units and methods of the project in canonical vocabulary (file:name)."""
    unit_file = {}
    for m in modules:
        if m.get("unit_id") is not None and m.get("original_path"):
            p = m["original_path"]
            rel = p.split("/in/", 1)[1] if "/in/" in p else os.path.basename(p)
            unit_file[m["unit_id"]] = (rel, m.get("unit_path", ""))
    methods, id2key = [], {}
    cls_of_block = {r.get("methods"): r.get("name") for r in gir if r.get("operation") == "class_decl" and r.get("methods")}
    attrs = {}
    for r in gir:
        if r.get("operation") == "method_decl" and r.get("unit_id") in unit_file:
            cls = cls_of_block.get(r.get("parent_stmt_id"))
            name = r.get("name")
            if name == "%class_sinit":
                continue
            key = "%s:%s%s" % (unit_file[r["unit_id"]][0], (cls + ".") if cls else "", name)
            id2key[r["stmt_id"]] = key
            methods.append(key)
            a = r.get("attrs")
            try:
                attrs[key] = [str(x) for x in json.loads(str(a).replace("'", '"'))] if a else []
            except ValueError:
                attrs[key] = []
    METHOD_ATTRS.update(attrs)
    return unit_file, methods, id2key


def run(tier, seed):
    t0 = time.time()
    v = C.Verdict(PID)
    root = C.scratch("c20")
    subs = subsets(tier, seed)
    jobs = []
    placed = [(s, "") for s in subs] + [(s, how) for how in ("lang-file", "other-files", "subdir") for s in PLACED + [list(range(1, len(POOL) + 1))]]
    for i, (s, how) in enumerate(placed):
        st = dict(SETTINGS)
        st.update(place([POOL[k - 1] for k in s], how))
        jobs.append(dict(cmd="run", lang="python,javascript", files=FILES, dir=os.path.join(root, "r%04d" % i), settings=st, flags=["--nomock"],
                         export=["gir", "modules", "entry_points", "taint"], timeout=900, _rules=s, _how=how,
                         post_hook="c20_post"))
    res = C.lian_batch(jobs)
    runs, project = [], None
    for job, r in zip(jobs, res):
        name = "rules=" + ",".join(map(str, job["_rules"])) + ("@" + job["_how"] if job["_how"] else "")
        if r["exit"] != "ok" or r.get("post") is None:
            v.violation("lian_failed:%s" % r["exit"], {"rules": job["_rules"], "exit": r["exit"], "traceback": (r.get("traceback") or r.get("post_error") or "")[-800:]})
            continue
        unit_file, methods, id2key = project_facts(r["exports"]["gir"], r["exports"]["modules"])
        if project is None:
            units = [{"id": f, "lang": lang_of(f), "file": os.path.basename(f), "path": p} for f, p in sorted(set(unit_file.values()))]
            pool = []
            for rule in POOL:
                pool.append({"lang": rule.get("lang", ""), "unit_name": rule.get("unit_name", ""), "unit_path": rule.get("unit_path", ""),
                             "method_list": rule.get("method_list", []), "attrs": rule.get("attrs", []),
                             "name_hits": [u["id"] for u in units if rule.get("unit_name", "") in u["file"]],
                             "path_hits": [u["id"] for u in units if rule.get("unit_path", "") in u["path"]]})
            project = {"units": units, "pool": pool,
                       "methods": [{"id": k, "unit": k.split(":")[0], "name": k.split(":")[1].split(".")[-1], "calls": CALLS.get(k, []),
                                    "attrs": METHOD_ATTRS.get(k, []), "flow": k not in NO_FLOW} for k in sorted(set(methods))]}
        ep_ids = []
        for e in (r["exports"].get("entry_points") or []):
            for val in e.values():
                ep_ids += val if isinstance(val, list) else [val]
        ep = [id2key.get(x, "?%s" % x) for x in ep_ids]
        started = [id2key.get(x, "?%s" % x) for x in r["post"]["started"]]
        # a reported flow is attributed to the method that contains its source statement
        stmt_method = r["post"]["stmt_method"]
        flows = sorted({id2key.get(stmt_method.get(str(f["source_stmt_id"]), -1), "?") for f in (r["exports"].get("taint") or [])})
        runs.append({"name": name, "rules": job["_rules"], "entry_points": sorted(set(ep)), "started": sorted(set(started)), "flow_methods": flows})
    tf = os.path.join(root, "runs.json")
    with open(tf, "w") as f:
        json.dump({"project": project, "runs": runs, "maxr": 3 if tier == "quick" else 5}, f)
    r = C.tlc("EntryPoints", "EntryPoints.cfg", env={"TRACE_FILE": tf}, workers=4, timeout=1800)
    n_bad = 0
    if r.error or r.violation:
        v.machinery_failure("EntryPoints run failed: %s" % (r.error or r.violation)[:2000])
    else:
        verdicts = [json.loads(x) for x in r.printed]
        if len(verdicts) != len(runs):
            v.machinery_failure("%d runs recorded, %d judged" % (len(runs), len(verdicts)))
        by = {x["name"]: x for x in runs}
        for vd in verdicts:
            if vd["clause"]:
                n_bad += 1
                t = by[vd["run"]]
                v.violation("%s:%s" % (vd["clause"], vd["run"]), {"run": t, "expected_entries": vd["expected_entries"], "expected_flows": vd["expected_flows"],
                                                                   "rules": [POOL[k - 1] for k in t["rules"]]})
    rc = v.finish()
    cov = {
        "states": r.distinct, "transitions": r.generated, "traces_validated_against_impl": len(runs),
        "samples": runs[:3], "rule_pool": POOL, "rule_subsets_run": len(subs), "runs_with_rules_spread_over_several_files": len(placed) - len(subs),
        "placements": ["entry.yaml only", "entry.yaml + python-entry.yaml", "webapp-entry.yaml + java-entry.yaml (entry.yaml empty)", "entry.yaml + team/extra-entry.yaml"], "rule_subsets_in_model": sum(1 for k in range(0, (3 if tier == "quick" else 5) + 1) for _ in itertools.combinations(range(len(POOL)), k)),
        "violating_runs": n_bad, "known_findings_hit": {k: len(x) for k, x in v.hits.items()}, "repo": C.repo_head(), "exhaustive": False,
        "rule": "model: every subset of the rule pool through the scan/start model vs Selected(); traces: one full lian run per rule subset on a "
                "3-file two-language project with a local source->sink flow in every python method",
    }
    C.write_evidence(PID, tier, seed, "model_checking", cov, time.time() - t0, violations=len(v.unlisted),
                     assumptions=["unit and method names are chosen so that substring and exact matching coincide",
                                  "methods P3 started from = the entry keys of s2space_p3", "a flow belongs to the method containing its source statement"])
    print("C20: %d rule subsets run, %d TLC states, %d violating, %.1fs" % (len(runs), r.distinct, n_bad, time.time() - t0))
    shutil.rmtree(root, ignore_errors=True)
    return rc


def replay(path):
    print(json.dumps(json.load(open(path))["replay"], indent=1)[:3000])
    return 0
