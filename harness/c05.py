"""C05 — names are bound to the declaration selected by the language's lexical scoping (Scope.tla).

The universe is every scope configuration of a bounded shape for one name: trees of <= 4 scopes (module, functions, classes; blocks for
javascript), every assignment of a declaration kind to each scope, a read of the name in every scope.  Each configuration is rendered to
source, analysed by lian (packed 40 per run), and the declaration each read was bound to (semantic_p1/s2space_p1: symbol_id of the read ->
declaring statement -> scope) is handed to TLC, which computes Resolve from the declarative language rule and judges the case.
Python's own symtable is a second oracle for Resolve on the python renderings (a disagreement is a machinery failure, exit 2).
"""
import itertools
import json
import os
import random
import shutil
import symtable
import time

import common as C

PID = "C05"
PER_RUN = 40


# ------------------------------------------------------------------------------------------ configurations
def shapes(n_extra):
    """parent vectors for scopes 2..n_extra+1 (scope 1 = module)."""
    out = [[]]
    for k in range(2, n_extra + 2):
        out = [p + [q] for p in out for q in range(1, k)]
    return out


def py_configs(max_extra):
    out = []
    for n in range(1, max_extra + 1):
        for parents in shapes(n):
            for kinds in itertools.product(("function", "class"), repeat=n):
                ks = ["module"] + list(kinds)
                ps = [0] + parents
                opts = []
                for i in range(n + 1):
                    if ks[i] == "module":
                        opts.append(("none", "assign"))
                    elif ks[i] == "class":
                        opts.append(("none", "assign"))
                    else:
                        opts.append(("none", "assign", "param", "global", "nonlocal"))
                for decls in itertools.product(*opts):
                    if any(d == "global" for d in decls) and decls[0] != "assign":
                        continue        # `global x` without a module-level declaration: what it should bind to is not a statement of the program
                    out.append({"lang": "python", "scopes": [{"id": i + 1, "kind": ks[i], "parent": ps[i], "decl": decls[i]} for i in range(n + 1)]})
    return out


def js_configs(max_extra):
    out = []
    for n in range(1, max_extra + 1):
        for parents in shapes(n):
            for kinds in itertools.product(("function", "block"), repeat=n):
                ks = ["module"] + list(kinds)
                ps = [0] + parents
                opts = []
                for i in range(n + 1):
                    if ks[i] == "module":
                        opts.append(("none", "let", "var"))
                    elif ks[i] == "block":
                        opts.append(("none", "let", "var"))
                    else:
                        opts.append(("none", "let", "var", "param"))
                for decls in itertools.product(*opts):
                    out.append({"lang": "javascript", "scopes": [{"id": i + 1, "kind": ks[i], "parent": ps[i], "decl": decls[i]} for i in range(n + 1)]})
    return out


def cfg_name(cfg):
    return cfg["lang"][:2] + (".blk" if cfg.get("blk") else "") + ":" + ";".join("%s%d%s" % (s["kind"][0], s["parent"], s["decl"][:3]) for s in cfg["scopes"])


# ------------------------------------------------------------------------------------------ rendering
def render_py(cfg):
    """-> (source, use_line[scope id], decl_line[scope id]) ; lines are 0-based"""
    sc = cfg["scopes"]
    kids = {s["id"]: [t["id"] for t in sc if t["parent"] == s["id"]] for s in sc}
    lines, use_line, decl_line = [], {}, {}

    def emit(i, ind):
        s = sc[i - 1]
        pad = "    " * ind
        if s["kind"] == "module":
            if s["decl"] == "assign":
                decl_line[i] = len(lines)
                lines.append("x = 100")
            body_ind = ind
        elif s["kind"] == "function":
            if s["decl"] == "param":
                decl_line[i] = len(lines)
            params = (["self"] if s["parent"] and sc[s["parent"] - 1]["kind"] == "class" else []) + (["x"] if s["decl"] == "param" else [])
            lines.append("%sdef f%d(%s):" % (pad, i, ", ".join(params)))
            body_ind = ind + 1
            p2 = "    " * body_ind
            blk = cfg.get("blk")
            if s["decl"] in ("global", "nonlocal"):
                lines.append("%s%s x" % (p2, s["decl"]))
                if blk:     # the assignment sits one block deeper than the declaration statement
                    lines.append("%sif k%d:" % (p2, i))
                    lines.append("%s    x = %d" % (p2, 100 + i))
                else:
                    lines.append("%sx = %d" % (p2, 100 + i))
            elif s["decl"] == "assign":
                if blk:
                    lines.append("%sfor j%d in r%d:" % (p2, i, i))
                    decl_line[i] = len(lines)
                    lines.append("%s    x = %d" % (p2, 100 + i))
                else:
                    decl_line[i] = len(lines)
                    lines.append("%sx = %d" % (p2, 100 + i))
        else:
            lines.append("%sclass K%d:" % (pad, i))
            body_ind = ind + 1
            if s["decl"] == "assign":
                decl_line[i] = len(lines)
                lines.append("%sx = %d" % ("    " * body_ind, 100 + i))
        for k in kids[i]:
            emit(k, body_ind)
        use_line[i] = len(lines)
        lines.append("%su%d = x" % ("    " * body_ind, i))
        if s["kind"] == "function":
            lines.append("%sreturn u%d" % ("    " * body_ind, i))
    emit(1, 0)
    return "\n".join(lines) + "\n", use_line, decl_line


def render_js(cfg):
    sc = cfg["scopes"]
    kids = {s["id"]: [t["id"] for t in sc if t["parent"] == s["id"]] for s in sc}
    lines, use_line, decl_line = [], {}, {}

    def emit(i, ind):
        s = sc[i - 1]
        pad = "    " * ind
        body_ind = ind
        if s["kind"] == "function":
            if s["decl"] == "param":
                decl_line[i] = len(lines)
            lines.append("%sfunction f%d(%s) {" % (pad, i, "x" if s["decl"] == "param" else ""))
            body_ind = ind + 1
        elif s["kind"] == "block":
            lines.append("%sif (c%d) {" % (pad, i))
            body_ind = ind + 1
        if s["decl"] in ("let", "var"):
            decl_line[i] = len(lines)
            lines.append("%s%s x = %d;" % ("    " * body_ind, s["decl"], 100 + i))
        for k in kids[i]:
            emit(k, body_ind)
        use_line[i] = len(lines)
        lines.append("%svar u%d = x;" % ("    " * body_ind, i))
        if s["kind"] == "function":
            lines.append("%sreturn u%d;" % ("    " * body_ind, i))
        if s["kind"] != "module":
            lines.append("%s}" % pad)
    emit(1, 0)
    return "\n".join(lines) + "\n", use_line, decl_line


# ------------------------------------------------------------------------------------------ second oracle (python only)
def symtable_expected(cfg, src):
    """scope id -> expected target scope id (0 unresolved) by Python's own symbol tables; None if the source is not valid python."""
    try:
        top = symtable.symtable(src, "<cfg>", "exec")
    except SyntaxError:
        return None
    sc = cfg["scopes"]
    tables = {1: top}

    def walk(tab, i):
        for s in sc:
            if s["parent"] == i:
                nm = ("f%d" if s["kind"] == "function" else "K%d") % s["id"]
                for ch in tab.get_children():
                    if ch.get_name() == nm:
                        tables[s["id"]] = ch
                        walk(ch, s["id"])
    walk(top, 1)
    module_has = sc[0]["decl"] == "assign"
    out = {}
    for s in sc:
        i = s["id"]
        sym = tables[i].lookup("x")
        if i == 1:
            out[i] = 1 if module_has else 0
        elif sym.is_global():
            out[i] = 1 if module_has else 0
        elif sym.is_local() and not sym.is_free():
            out[i] = i
        else:       # free: nearest enclosing function scope in which x is local (and not itself free)
            j = s["parent"]
            tgt = 0
            while j:
                t = sc[j - 1]
                if t["kind"] == "function":
                    sj = tables[j].lookup("x")
                    if sj.is_local() and not sj.is_free():
                        tgt = j
                        break
                j = t["parent"]
            out[i] = tgt
    return out


def node_expected(items):
    """javascript second oracle: run every configuration in node (one process), every declaration assigns its own value 100 + scope id, every
    function is called and every block entered, so the value a read sees names the declaration it is bound to.
    -> {name: {scope: target scope | 0} | None (not valid javascript)}; {} when node is not installed."""
    import subprocess
    node = shutil.which("node")
    if not node or not items:
        return {}
    progs = []
    for x in items:
        sc = x["cfg"]["scopes"]
        lines = x["src"].split("\n")
        out = []
        for ln, text in enumerate(lines):
            sid = [i for i, l in x["use"].items() if l == ln]
            if sid:
                ind = text[:len(text) - len(text.lstrip())]
                out.append("%stry { %s R[%d] = u%d; } catch (e) { R[%d] = 0; }" % (ind, text.strip(), sid[0], sid[0], sid[0]))
            else:
                out.append(text.replace("if (c", "if (true || c") if text.strip().startswith("if (c") else text)
            # call a function right after its closing brace
        src = "\n".join(out)
        # calls: after each function definition ends ("}" at the function's indent), invoke it with its own value
        res, stack = [], []
        for text in src.split("\n"):
            st = text.strip()
            ind = len(text) - len(text.lstrip())
            if st.startswith("function f"):
                stack.append((ind, int(st[len("function f"):st.index("(")])))
            res.append(text)
            if st == "}" and stack and stack[-1][0] == ind:
                _, fid = stack.pop()
                res.append("%sf%d(%d);" % (" " * ind, fid, 100 + fid))
            elif st == "}" and False:
                pass
        progs.append({"name": x["name"], "src": "\n".join(res)})
    driver = ("const progs = JSON.parse(require('fs').readFileSync(process.argv[2]));const out = {};"
              "for (const p of progs) { const R = {}; try { new Function('R', p.src)(R); out[p.name] = R; } catch (e) { out[p.name] = (e instanceof SyntaxError) ? null : {error: String(e)}; } }"
              "console.log(JSON.stringify(out));")
    d = C.scratch("c05_node")
    with open(os.path.join(d, "progs.json"), "w") as f:
        json.dump(progs, f)
    with open(os.path.join(d, "driver.js"), "w") as f:
        f.write(driver)
    p = subprocess.run([node, os.path.join(d, "driver.js"), os.path.join(d, "progs.json")], stdout=subprocess.PIPE, stderr=subprocess.PIPE, text=True, timeout=600)
    shutil.rmtree(d, ignore_errors=True)
    if p.returncode != 0:
        raise C.MachineryError("node oracle failed: %s" % p.stderr[-500:])
    raw = json.loads(p.stdout)
    out = {}
    for name, R in raw.items():
        if R is None:
            out[name] = None
        elif "error" in R:
            out[name] = {"error": R["error"]}
        else:
            out[name] = {int(k): (int(val) - 100 if isinstance(val, (int, float)) and val >= 100 else 0) for k, val in R.items()}
    return out


# ------------------------------------------------------------------------------------------ multi-file imports (Imports.tla)
def import_projects():
    """-> list of {"name", "files", "units": [{"id", "file", "decls", "imports"}], "reads": [{"unit", "name", "file", "line"}]}"""
    core = "def helper(a):\n    return a\n\nclass Engine:\n    def go(self):\n        return 1\n\nVALUE = 7\n"
    other = "def helper(a):\n    return 0\n\ndef extra(a):\n    return a\n"
    out = []

    def proj(name, main_lines, main_imports, reads, extra_units=(), main_decls=()):
        # two orders of the importing file relative to the others (unit ids follow the enumeration order of the directory)
        for order, mainfile in (("first", "a_main.py"), ("last", "z_main.py")):
            units = [{"id": 1, "file": mainfile, "decls": list(main_decls), "imports": main_imports},
                     {"id": 2, "file": "core.py", "decls": ["helper", "Engine", "VALUE"], "imports": []}]
            files = {mainfile: "\n".join(main_lines) + "\n", "core.py": core}
            for u in extra_units:
                units.append({k: v for k, v in u.items() if k != "text"})
                files[u["file"]] = u["text"]
            rds = [{"unit": 1, "name": n, "file": mainfile, "line": ln} for n, ln in reads]
            out.append({"name": "%s:%s" % (name, order), "kind": name, "order": order, "files": files, "units": units, "reads": rds})
    F = lambda src, name, alias="": {"kind": "from", "src": src, "name": name, "alias": alias}
    M = lambda src, name, alias="": {"kind": "module", "src": src, "name": name, "alias": alias}
    S = lambda src: {"kind": "star", "src": src, "name": "*", "alias": ""}
    facade = {"id": 3, "file": "m_facade.py", "decls": [], "imports": [F(2, "helper"), F(2, "Engine")], "text": "from core import helper\nfrom core import Engine\n"}
    facade2 = {"id": 4, "file": "n_facade2.py", "decls": [], "imports": [F(3, "helper")], "text": "from m_facade import helper\n"}
    facade_alias = {"id": 3, "file": "m_facade.py", "decls": [], "imports": [F(2, "helper", "exported")], "text": "from core import helper as exported\n"}
    otheru = {"id": 3, "file": "other.py", "decls": ["helper", "extra"], "imports": [], "text": other}
    pkg_init = {"id": 3, "file": "pkg/__init__.py", "decls": [], "imports": [], "text": ""}
    pkg_mod = {"id": 4, "file": "pkg/mod.py", "decls": ["deep"], "imports": [], "text": "def deep(a):\n    return a\n"}
    proj("from", ["from core import helper", "r = helper(1)", "v = VALUE"], [F(2, "helper")], [("helper", 1), ("VALUE", 2)])
    proj("from_class_and_var", ["from core import Engine", "from core import VALUE", "e = Engine()", "v = VALUE"], [F(2, "Engine"), F(2, "VALUE")], [("Engine", 2), ("VALUE", 3)])
    proj("alias", ["from core import helper as hp", "r = hp(1)", "q = helper(2)"], [F(2, "helper", "hp")], [("hp", 1), ("helper", 2)])
    proj("star", ["from core import *", "r = helper(1)", "v = VALUE"], [S(2)], [("helper", 1), ("VALUE", 2)])
    proj("module", ["import core", "r = core.helper(1)"], [M(2, "core")], [("core", 1)])
    proj("module_alias", ["import core as cc", "r = cc.helper(1)"], [M(2, "core", "cc")], [("cc", 1)])
    proj("pkg_from", ["from pkg.mod import deep", "r = deep(1)"], [F(4, "deep")], [("deep", 1)], [pkg_init, pkg_mod])
    proj("pkg_module", ["from pkg import mod", "r = mod.deep(1)"], [M(4, "mod")], [("mod", 1)], [pkg_init, pkg_mod])
    proj("reexport", ["from m_facade import helper", "from m_facade import Engine", "r = helper(1)", "e = Engine()"], [F(3, "helper"), F(3, "Engine")],
         [("helper", 2), ("Engine", 3)], [facade])
    proj("reexport_two_hops", ["from n_facade2 import helper", "r = helper(1)"], [F(4, "helper")], [("helper", 1)], [facade, facade2])
    proj("reexport_alias", ["from m_facade import exported", "r = exported(1)"], [F(3, "exported")], [("exported", 1)], [facade_alias])
    proj("local_shadows_import", ["from core import helper", "def helper(b):", "    return b", "r = helper(1)"], [F(2, "helper")], [("helper", 3)], main_decls=["helper"])
    proj("later_import_wins", ["from core import helper", "from other import helper", "r = helper(1)", "x = extra(2)"], [F(2, "helper"), F(3, "helper")],
         [("helper", 2), ("extra", 3)], [otheru])
    proj("two_sources", ["from core import helper", "from other import extra", "r = helper(1)", "x = extra(2)"], [F(2, "helper"), F(3, "extra")],
         [("helper", 2), ("extra", 3)], [otheru])
    # the same module name in two directories: a file importing its sibling by bare name gets the sibling, not the namesake elsewhere
    for order, (da, db) in (("first", ("alpha", "beta")), ("last", ("zeta", "beta"))):
        files = {"%s/helpers.py" % da: "def load(a):\n    return a\n", "%s/helpers.py" % db: "def load(a):\n    return 0\n",
                 "%s/app.py" % da: "from helpers import load\nr = load(1)\n", "%s/app.py" % db: "from helpers import load\nq = load(2)\n"}
        units = [{"id": 1, "file": "%s/app.py" % da, "decls": [], "imports": [F(2, "load")]}, {"id": 2, "file": "%s/helpers.py" % da, "decls": ["load"], "imports": []},
                 {"id": 3, "file": "%s/app.py" % db, "decls": [], "imports": [F(4, "load")]}, {"id": 4, "file": "%s/helpers.py" % db, "decls": ["load"], "imports": []}]
        out.append({"name": "sibling_same_name:%s" % order, "kind": "sibling_same_name", "order": order, "files": files, "units": units,
                    "reads": [{"unit": 1, "name": "load", "file": "%s/app.py" % da, "line": 1}, {"unit": 3, "name": "load", "file": "%s/app.py" % db, "line": 1}]})
    proj("missing_name", ["from core import nosuch", "r = nosuch(1)"], [F(2, "nosuch")], [("nosuch", 1)])
    proj("external_source", ["from os import getcwd", "r = getcwd()"], [F(0, "getcwd")], [("getcwd", 1)])
    return out


def run_imports(v, root):
    projs = import_projects()
    jobs = [dict(cmd="semantic", lang="python", files=p["files"], dir=os.path.join(root, "imp_%03d" % i), flags=["--nomock"],
                 export=["gir", "modules", "s2space_p1"], timeout=600, _p=p) for i, p in enumerate(projs)]
    res = C.lian_batch(jobs)
    cases = []
    for job, r in zip(jobs, res):
        p = job["_p"]
        if r["exit"] != "ok":
            v.violation("lian_failed:imports:%s" % r["exit"], {"project": p["name"], "exit": r["exit"], "traceback": (r.get("traceback") or "")[-800:], "files": p["files"]})
            continue
        file_unit = {u["file"]: u["id"] for u in p["units"]}
        lian_unit = {}          # lian unit id -> abstract unit id
        for m in r["exports"].get("modules") or []:
            if m.get("unit_id") is not None and m.get("original_path"):
                rel = m["original_path"].split("/in/", 1)[1] if "/in/" in m["original_path"] else os.path.basename(m["original_path"])
                lian_unit[m["unit_id"]] = file_unit.get(rel, 0)
        gir = r["exports"].get("gir") or []
        row_by_id = {x["stmt_id"]: x for x in gir}
        reads = []
        for rd in p["reads"]:
            stmts = [x for x in gir if lian_unit.get(x.get("unit_id")) == rd["unit"] and x.get("start_row") == rd["line"]
                     and x.get("operation") not in ("variable_decl", "block_start", "block_end")]
            sids = {x["stmt_id"] for x in stmts}
            syms = [sy for sy in (r["exports"].get("s2space_p1") or []) if sy.get("stmt_id") in sids and sy.get("name") == rd["name"] and sy.get("symbol_id") is not None]
            if not syms:
                v.machinery_failure("no symbol row for the read of %s in %s" % (rd["name"], p["name"]))
                continue
            sid = syms[0]["symbol_id"]
            tgt = {"unit": 0, "name": ""}
            if sid is not None and sid >= 0:
                if sid in lian_unit:
                    tgt = {"unit": lian_unit[sid], "name": "%module"}
                else:
                    d = row_by_id.get(sid)
                    if d is not None and d.get("operation") in ("method_decl", "class_decl", "variable_decl") and d.get("parent_stmt_id") == 0:
                        tgt = {"unit": lian_unit.get(d.get("unit_id"), 0), "name": str(d.get("name"))}
                    # bound to an import statement (the import could not be followed): unresolved
            reads.append({"unit": rd["unit"], "name": rd["name"], "target": tgt})
        cases.append({"name": p["name"], "units": [{"id": u["id"], "decls": u["decls"], "imports": u["imports"]} for u in p["units"]], "reads": reads, "_p": p})
    tf = os.path.join(root, "imports.json")
    with open(tf, "w") as f:
        json.dump({"cases": [{k: y for k, y in c.items() if not k.startswith("_")} for c in cases]}, f)
    cfgp = os.path.join(root, "Imports.cfg")
    C.write_cfg(cfgp, spec="Spec")
    r = C.tlc("Imports", cfgp, env={"CASES": tf}, workers=4, timeout=1800)
    n_bad = 0
    if r.error or r.violation:
        v.machinery_failure("Imports run failed: %s" % (r.error or r.violation)[:2500])
        return cases, r, 0
    verdicts = {json.loads(t)["case"]: json.loads(t) for t in r.printed}
    if len(verdicts) != len(cases):
        v.machinery_failure("%d import projects, %d verdicts" % (len(cases), len(verdicts)))
    for cse in cases:
        vd = verdicts.get(cse["name"])
        if vd and vd["clause"]:
            n_bad += 1
            p = cse["_p"]
            for w in vd["wrong"]:
                v.violation("import:%s:%s:%s" % (w["kind"], p["kind"], p["order"]), {"project": cse["name"], "wrong_read": w, "reads": cse["reads"], "files": p["files"]})
    return cases, r, n_bad


# ------------------------------------------------------------------------------------------ the check
def universe(tier, seed):
    py = py_configs(3)
    # the same configurations with every function-level assignment one block deeper than its scope's top level (binding does not depend on it)
    py += [dict(c, blk=True) for c in py if any(s["kind"] == "function" and s["decl"] in ("assign", "global", "nonlocal") for s in c["scopes"]) and len(c["scopes"]) <= 3]
    js = js_configs(3)
    if tier == "thorough":
        return py + js
    rng = random.Random(seed)
    core = [c for c in py if len(c["scopes"]) <= 3] + [c for c in js if len(c["scopes"]) <= 2]
    rest_py = [c for c in py if len(c["scopes"]) > 3]
    rest_js = [c for c in js if len(c["scopes"]) > 2]
    return core + rng.sample(rest_py, 500) + rng.sample(rest_js, 300)


def run(tier, seed):
    t0 = time.time()
    v = C.Verdict(PID)
    root = C.scratch("c05")
    cfgs = universe(tier, seed)
    items, invalid = [], 0
    for cfg in cfgs:
        if cfg["lang"] == "python":
            src, ul, dl = render_py(cfg)
            exp2 = symtable_expected(cfg, src)
            if exp2 is None:
                invalid += 1
                continue
        else:
            src, ul, dl = render_js(cfg)
            exp2 = None
        items.append({"cfg": cfg, "src": src, "use": ul, "decl": dl, "sym": exp2, "name": cfg_name(cfg)})
    node = node_expected([x for x in items if x["cfg"]["lang"] == "javascript"])
    if node:
        invalid += sum(1 for x in items if x["cfg"]["lang"] == "javascript" and node.get(x["name"]) is None)
        items = [x for x in items if x["cfg"]["lang"] != "javascript" or node.get(x["name"]) is not None]
        for x in items:
            if x["cfg"]["lang"] == "javascript":
                x["node"] = node[x["name"]]
    jobs = []
    for lang in ("python", "javascript"):
        its = [x for x in items if x["cfg"]["lang"] == lang]
        ext = ".py" if lang == "python" else ".js"
        for k in range(0, len(its), PER_RUN):
            chunk = its[k:k + PER_RUN]
            files = {"c%04d%s" % (j, ext): x["src"] for j, x in enumerate(chunk)}
            jobs.append(dict(cmd="semantic", lang=lang, files=files, dir=os.path.join(root, "%s_%05d" % (lang[:2], k)), flags=["--nomock"],
                             export=["gir", "modules", "s2space_p1"], timeout=900, _chunk=chunk, _ext=ext))
    res = C.lian_batch(jobs)
    cases = []
    for job, r in zip(jobs, res):
        if r["exit"] != "ok":
            v.violation("lian_failed:%s:%s" % (job["lang"], r["exit"]), {"exit": r["exit"], "traceback": (r.get("traceback") or "")[-800:],
                                                                        "first_source": job["_chunk"][0]["src"]})
            continue
        mods = {m["unit_id"]: m["symbol_name"] for m in (r["exports"].get("modules") or []) if m.get("unit_id") is not None}
        gir_by_unit, row_by_id = {}, {}
        for row in r["exports"].get("gir") or []:
            gir_by_unit.setdefault(mods.get(row.get("unit_id")), []).append(row)
            row_by_id[row["stmt_id"]] = row
        sym_by_stmt = {}
        for s in r["exports"].get("s2space_p1") or []:
            if s.get("name") == "x" and s.get("stmt_id") is not None:
                sym_by_stmt.setdefault(s["stmt_id"], []).append(s)
        for j, x in enumerate(job["_chunk"]):
            rows = gir_by_unit.get("c%04d" % j, [])
            line_scope = {ln: sid for sid, ln in x["decl"].items()}
            observed = []
            for sid, ln in sorted(x["use"].items()):
                # the read `u<i> = x` (unique target per scope): an assignment, or a field write on %class for a class body
                use_rows = [row for row in rows if (row.get("operation") == "assign_stmt" and row.get("target") == "u%d" % sid and row.get("operand") == "x")
                            or (row.get("operation") == "field_write" and str(row.get("field")) == "u%d" % sid and row.get("source") == "x")
                            or (row.get("operation") == "variable_decl" and False)]
                tgt = None
                for row in use_rows:
                    for s in sym_by_stmt.get(row["stmt_id"], []):
                        symid = s.get("symbol_id")
                        if symid is None:
                            continue
                        if symid < 0:
                            tgt = 0
                        else:
                            d = row_by_id.get(symid)
                            tgt = line_scope.get(d.get("start_row"), -1) if d is not None and d.get("name") == "x" else -1
                if tgt is None:
                    v.machinery_failure("no symbol row for the read of x in scope %d of %s" % (sid, x["name"]))
                    continue
                observed.append({"scope": int(sid), "target": int(tgt)})
            cases.append({"name": x["name"], "lang": x["cfg"]["lang"], "scopes": x["cfg"]["scopes"], "observed": observed, "_x": x})
    tf = os.path.join(root, "cases.json")
    with open(tf, "w") as f:
        json.dump({"cases": [{k: y for k, y in c.items() if not k.startswith("_")} for c in cases]}, f)
    cfgp = os.path.join(root, "Scope.cfg")
    C.write_cfg(cfgp, spec="Spec")
    r = C.tlc("Scope", cfgp, env={"CASES": tf}, workers=8, timeout=3000, heap="6g")
    n_bad, n_reads, disagreements, n_node = 0, 0, 0, 0
    if r.error or r.violation:
        v.machinery_failure("Scope run failed: %s" % (r.error or r.violation)[:2500])
    else:
        verdicts = {}
        for t in r.printed:
            d = json.loads(t)
            verdicts[d["case"]] = d
        if len(verdicts) != len({c["name"] for c in cases}):
            v.machinery_failure("%d cases, %d verdicts" % (len(cases), len(verdicts)))
        for cse in cases:
            vd = verdicts.get(cse["name"])
            if vd is None:
                continue
            x = cse["_x"]
            n_reads += len(cse["observed"])
            exp = {i + 1: set(e) for i, e in enumerate(vd["expected"])}
            if x["sym"] is not None:
                if any(exp[i] != ({x["sym"][i]} if x["sym"][i] else set()) for i in x["sym"]):
                    disagreements += 1
                    v.machinery_failure("Resolve (Scope.tla) and Python's symtable disagree on %s: %s vs %s\n%s" % (cse["name"], exp, x["sym"], x["src"]))
            if x.get("node") is not None:
                nd = x["node"]
                n_node += 1
                # a read that ran before the variable was assigned saw `undefined` (no entry): bound, but to which declaration is not observable
                if "error" in nd or any((nd[i] not in exp[i]) if nd[i] else bool(exp[i]) for i in exp if i in nd):
                    disagreements += 1
                    v.machinery_failure("Resolve (Scope.tla) and node disagree on %s: %s vs %s\n%s" % (cse["name"], exp, nd, x["src"]))
            if vd["clause"]:
                n_bad += 1
                # one violation per wrong read: <lang>:<clause>:<reading scope>_<its declaration>:wanted_<scope kind + declaration | unresolved>:got_<...>
                def desc(t):
                    if isinstance(t, list):
                        return "+".join(sorted({desc(y) for y in t})) or "unresolved"
                    if t == 0:
                        return "unresolved"
                    if t < 0:
                        return "foreign"
                    return "%s_%s" % (cse["scopes"][t - 1]["kind"], cse["scopes"][t - 1]["decl"])
                for w in vd["wrong"]:
                    rs = cse["scopes"][w["scope"] - 1]
                    v.violation("%s:%s:%s_%s:wanted_%s:got_%s" % (cse["lang"], w["kind"], rs["kind"], rs["decl"], desc(w["want"]), desc(w["got"])),
                                {"case": cse["name"], "wrong_read": w, "all_wrong_reads": vd["wrong"], "expected_target_scope_per_scope": vd["expected"],
                                 "scopes": cse["scopes"], "source": x["src"]})
    icases, ir, ibad = run_imports(v, root)
    rc = v.finish(max_print=40)
    cov = {
        "states": r.distinct + ir.distinct, "transitions": r.generated + ir.generated, "traces_validated_against_impl": len(cases) + len(icases),
        "import_projects": len(icases), "import_projects_violating": ibad, "import_kinds": sorted({c["_p"]["kind"] for c in icases}),
        "samples": [{"case": c["name"], "observed": c["observed"], "source": c["_x"]["src"]} for c in cases[:2]],
        "configurations": len(cases), "universe": len(cfgs), "invalid_python_skipped": invalid, "reads_judged": n_reads, "violating_configurations": n_bad,
        "second_oracle_python_symtable": sum(1 for c in cases if c["_x"]["sym"] is not None), "second_oracle_javascript_node": n_node, "oracle_disagreements": disagreements,
        "known_findings_hit": {k: len(x) for k, x in v.hits.items()}, "repo": C.repo_head(), "exhaustive": tier == "thorough",
        "rule": "a case = one scope configuration (tree of <= 4 scopes x declaration kind per scope) with a read of the name in every scope; python and javascript",
    }
    C.write_evidence(PID, tier, seed, "model_checking", cov, time.time() - t0, violations=len(v.unlisted),
                     assumptions=["one name per configuration; reads placed after the declarations of their scope", "`global` only when the module declares the name",
                                  "the declaring statement of a binding is identified by its source line", "single-file configurations (imports: see the import family)"])
    print("C05: %d configurations (oracle cross-checked: %d python/symtable, %d javascript/node, %d disagreements), %d reads, %d violating, %d TLC states, %.1fs" % (
        len(cases), sum(1 for c in cases if c["_x"]["sym"] is not None), n_node, disagreements, n_reads, n_bad, r.distinct, time.time() - t0))
    shutil.rmtree(root, ignore_errors=True)
    return rc


def replay(path):
    doc = json.load(open(path))["replay"]
    print(doc.get("source", ""))
    print(json.dumps({k: doc[k] for k in doc if k != "source"}, indent=1)[:3000])
    return 0
