"""Shared plumbing of the lian verification harness.

Everything here is stdlib-only.  The TLA+ specifications live in /verif/specs, scratch
output in /verif/out (git-ignored), evidence in /verif/evidence.
"""
import hashlib
import json
import os
import re
import shutil
import subprocess
import sys
import time

ROOT = os.path.dirname(os.path.dirname(os.path.abspath(__file__)))
SPECS = os.path.join(ROOT, "specs")
OUT = os.path.join(ROOT, "out")
EVIDENCE = os.path.join(ROOT, "evidence")
REPO = os.environ.get("LIAN_REPO", "/repo")
REPO_SRC = os.path.join(REPO, "src")
PY = "/venv/bin/python"
KNOWN_FINDINGS = os.path.join(ROOT, "known_findings.json")
NCPU = os.cpu_count() or 4


class MachineryError(Exception):
    """The verification machinery itself failed (exit code 2, never a verdict)."""


def scratch(name, clean=True):
    """a scratch directory of this process: out/<name>.<pid>; leftovers of processes that no longer exist are removed
    (two runs of the same check at the same time must not share a directory)"""
    parent = os.path.join(OUT, os.path.dirname(name))
    base = os.path.basename(name)
    os.makedirs(parent, exist_ok=True)
    for fn in os.listdir(parent):
        if fn == base or fn.startswith(base + "."):
            pid = fn[len(base) + 1:]
            if fn != base and not pid.isdigit():
                continue                    # another scratch name that merely starts like this one
            dead = fn == base or int(pid) == os.getpid() or not os.path.exists("/proc/%s" % pid)
            if dead and clean:
                shutil.rmtree(os.path.join(parent, fn), ignore_errors=True)
    d = os.path.join(parent, "%s.%d" % (base, os.getpid()))
    os.makedirs(d, exist_ok=True)
    return d


def seed_from_env(default=0):
    try:
        return int(os.environ.get("VERIF_SEED", default))
    except ValueError:
        return default


def digest(obj):
    return hashlib.sha256(json.dumps(obj, sort_keys=True, default=str).encode()).hexdigest()[:16]


# ------------------------------------------------------------------------------------------
# TLC
# ------------------------------------------------------------------------------------------
_RE_STATES = re.compile(r"(\d+) states generated, (\d+) distinct states found, (\d+) states left on queue")
_RE_DEPTH = re.compile(r"The depth of the complete state graph search is (\d+)")


class TLCResult:
    def __init__(self):
        self.stdout = ""
        self.generated = 0
        self.distinct = 0
        self.left = 0
        self.depth = 0
        self.ok = False          # "Model checking completed. No error has been found."
        self.violation = None    # text of the first TLC error if a property was violated
        self.error = None        # parse / evaluation errors (machinery)
        self.printed = []        # values printed with PrintT as JSON text lines (prefix "@@")
        self.wall = 0.0
        self.cmd = ""
        self.coverage = {}

    def as_dict(self):
        return dict(generated=self.generated, distinct=self.distinct, depth=self.depth, ok=self.ok,
                    wall_s=round(self.wall, 2), cmd=self.cmd)


def tlc(module, cfg, name=None, env=None, workers=None, timeout=3600, simulate=None, depth=None,
        coverage=False, dfs_queue=False, extra=None, heap=None, cwd=None):
    """Run TLC on specs/<module>.tla with config <cfg> (a path or a file name in specs/).

    PrintT lines of the form "@@<json>" (quoted TLA+ strings) are collected in .printed.
    """
    name = name or (module + "_" + os.path.basename(cfg).replace(".cfg", ""))
    meta = scratch(os.path.join("meta", name))
    cfg_path = cfg if os.path.isabs(cfg) else os.path.join(SPECS, cfg)
    cmd = ["java", "-XX:+UseParallelGC"]
    if heap:
        cmd.append("-Xmx" + heap)
    if dfs_queue:
        cmd.append("-Dtlc2.tool.queue.IStateQueue=StateDeque")
    cmd += ["-cp", "/opt/veriftools/tla/tla2tools.jar:/opt/veriftools/tla/CommunityModules-deps.jar",
            "tlc2.TLC", "-workers", str(workers or NCPU), "-metadir", meta, "-noGenerateSpecTE",
            "-config", cfg_path]
    if coverage:
        cmd += ["-coverage", "1"]
    if simulate:
        cmd += ["-simulate", simulate]
    if depth:
        cmd += ["-depth", str(depth)]
    if extra:
        cmd += list(extra)
    cmd.append(os.path.join(cwd or SPECS, module + ".tla"))
    e = dict(os.environ)
    e.pop("JAVA_TOOL_OPTIONS", None)
    if env:
        e.update({k: str(v) for k, v in env.items()})
    r = TLCResult()
    r.cmd = " ".join(cmd[cmd.index("tlc2.TLC"):])
    t0 = time.time()
    try:
        p = subprocess.run(cmd, cwd=cwd or SPECS, env=e, stdout=subprocess.PIPE, stderr=subprocess.STDOUT,
                           timeout=timeout, text=True, errors="replace")
        r.stdout = p.stdout
        rc = p.returncode
    except subprocess.TimeoutExpired as ex:
        out = ex.stdout or ""
        r.stdout = out if isinstance(out, str) else out.decode(errors="replace")
        r.error = "TLC timeout after %ss" % timeout
        rc = -1
        subprocess.run(["pkill", "-f", meta], check=False)
    r.wall = time.time() - t0
    shutil.rmtree(meta, ignore_errors=True)
    for m in _RE_STATES.finditer(r.stdout):
        r.generated, r.distinct, r.left = int(m.group(1)), int(m.group(2)), int(m.group(3))
    m = _RE_DEPTH.search(r.stdout)
    if m:
        r.depth = int(m.group(1))
    r.ok = "No error has been found" in r.stdout or (simulate is not None and rc == 0 and "Error" not in r.stdout)
    for line in r.stdout.splitlines():
        s = line.strip()
        if s.startswith('"@@') and s.endswith('"'):
            # TLA+ string literal: unescape \" and \\
            r.printed.append(_unescape_tla(s[3:-1]))
    if not r.ok and r.error is None:
        idx = r.stdout.find("Error:")
        txt = r.stdout[idx: idx + 6000] if idx >= 0 else r.stdout[-3000:]
        if re.search(r"is violated|Invariant .* is violated|Temporal properties were violated|Deadlock reached", r.stdout):
            r.violation = txt
        else:
            r.error = txt
    if coverage:
        for m in re.finditer(r"<(\w+) line (\d+), col \d+ to line \d+, col \d+ of module (\w+)>: (\d+):(\d+)", r.stdout):
            r.coverage["%s.%s@%s" % (m.group(3), m.group(1), m.group(2))] = (int(m.group(4)), int(m.group(5)))
    return r


def _unescape_tla(t):
    """The text of a TLA+ string literal as TLC prints it -> the string (sequential: \\\\ -> \\, \\" -> ", \\n, \\t)."""
    out, i, n = [], 0, len(t)
    while i < n:
        ch = t[i]
        if ch == "\\" and i + 1 < n:
            nx = t[i + 1]
            out.append({"n": "\n", "t": "\t", "r": "\r", "f": "\f"}.get(nx, nx))
            i += 2
        else:
            out.append(ch)
            i += 1
    return "".join(out)


def sany(module_path):
    p = subprocess.run(["java", "-cp", "/opt/veriftools/tla/tla2tools.jar:/opt/veriftools/tla/CommunityModules-deps.jar",
                        "tla2sany.SANY", module_path], cwd=os.path.dirname(module_path),
                       stdout=subprocess.PIPE, stderr=subprocess.STDOUT, text=True)
    ok = p.returncode == 0 and "Semantic errors" not in p.stdout and "***Parse Error***" not in p.stdout \
        and "Fatal errors" not in p.stdout
    return ok, p.stdout


def write_cfg(path, constants=None, spec=None, init=None, next_=None, invariants=(), properties=(),
              constraints=(), action_constraints=(), postcondition=None, deadlock=False, view=None, extra=""):
    lines = []
    if constants:
        lines.append("CONSTANTS")
        for k, v in constants.items():
            lines.append("  %s = %s" % (k, v))
    if spec:
        lines.append("SPECIFICATION %s" % spec)
    if init:
        lines.append("INIT %s" % init)
    if next_:
        lines.append("NEXT %s" % next_)
    for i in invariants:
        lines.append("INVARIANT %s" % i)
    for p in properties:
        lines.append("PROPERTY %s" % p)
    for c in constraints:
        lines.append("CONSTRAINT %s" % c)
    for c in action_constraints:
        lines.append("ACTION_CONSTRAINT %s" % c)
    if postcondition:
        lines.append("POSTCONDITION %s" % postcondition)
    if view:
        lines.append("VIEW %s" % view)
    lines.append("CHECK_DEADLOCK %s" % ("TRUE" if deadlock else "FALSE"))
    if extra:
        lines.append(extra)
    with open(path, "w") as f:
        f.write("\n".join(lines) + "\n")
    return path


def tla_set(xs):
    return "{" + ", ".join(str(x) for x in xs) + "}"


# ------------------------------------------------------------------------------------------
# Verdicts, known findings, evidence
# ------------------------------------------------------------------------------------------
def load_known_findings(pid):
    if not os.path.exists(KNOWN_FINDINGS):
        return []
    with open(KNOWN_FINDINGS) as f:
        data = json.load(f)
    return [k for k in data.get("findings", []) if k.get("property") == pid]


class Verdict:
    """Collects violations of one property, attributes them to known findings, prints the protocol lines."""

    def __init__(self, pid):
        self.pid = pid
        self.known = [k for k in load_known_findings(pid) if k.get("status", "open") == "open"]
        self.hits = {}          # finding id -> count
        self.unlisted = []      # (signature, replay dict)
        self.notes = []
        self.machinery = []
        shutil.rmtree(os.path.join(OUT, "replay", pid), ignore_errors=True)

    def violation(self, signature, replay):
        """signature: short stable string identifying the failing input class."""
        for k in self.known:
            if re.fullmatch(k["signature"], signature):
                self.hits.setdefault(k["id"], []).append(signature)
                return k["id"]
        self.unlisted.append((signature, replay))
        return None

    def note(self, text):
        self.notes.append(text)

    def machinery_failure(self, text):
        self.machinery.append(text)

    def finish(self, max_print=20):
        """Print protocol lines; return process exit code."""
        for k in self.known:
            if k["id"] in self.hits:
                print("KNOWN-FINDING: property=%s %s [%s; %d case(s)]" % (
                    self.pid, k["what"], k["id"], len(self.hits[k["id"]])))
            else:
                print("KNOWN-FINDING-NOT-REPRODUCED: property=%s %s [%s]" % (self.pid, k["what"], k["id"]))
        for t in self.notes:
            print("NOTE: " + t)
        if self.machinery:
            for t in self.machinery:
                print("MACHINERY-FAILURE: property=%s %s" % (self.pid, t))
            return 2
        if self.unlisted:
            rdir = os.path.join(OUT, "replay", self.pid)
            os.makedirs(rdir, exist_ok=True)
            seen = set()
            shown = 0
            for sig, rep in self.unlisted:
                if sig in seen:
                    continue
                seen.add(sig)
                path = os.path.join(rdir, re.sub(r"[^A-Za-z0-9_.-]+", "_", sig)[:120] + ".json")
                with open(path, "w") as f:
                    json.dump({"property": self.pid, "signature": sig, "replay": rep}, f, indent=1, default=str)
                if shown < max_print:
                    print("VIOLATION property=%s replay=%s signature=%s" % (self.pid, path, sig))
                    shown += 1
            if len(seen) > shown:
                print("... %d further distinct violation signatures (see %s)" % (len(seen) - shown, rdir))
            return 1
        return 0


def write_evidence(pid, tier, seed, level, coverage, wall_s, violations=0, assumptions=()):
    os.makedirs(EVIDENCE, exist_ok=True)
    doc = {
        "property_id": pid,
        "tier": tier,
        "seed": int(seed),
        "level": level,
        "coverage": coverage,
        "assumptions": list(assumptions),
        "wall_s": round(float(wall_s), 2),
        "violations": int(violations),
    }
    path = os.path.join(EVIDENCE, pid + ".json")
    with open(path, "w") as f:
        json.dump(doc, f, indent=1, default=str)
    return path


def repo_head():
    try:
        h = subprocess.run(["git", "-C", REPO, "rev-parse", "--short", "HEAD"], stdout=subprocess.PIPE, text=True).stdout.strip()
        d = subprocess.run(["git", "-C", REPO, "status", "--porcelain", "--", "src"], stdout=subprocess.PIPE, text=True).stdout.strip()
        return h + ("+dirty" if d else "")
    except Exception:
        return "unknown"


def run_py(script, args=(), env=None, timeout=3600, input_=None):
    """Run a driver under the repository's interpreter with /repo/src first on sys.path."""
    e = dict(os.environ)
    e["PYTHONPATH"] = REPO_SRC + os.pathsep + os.path.join(ROOT, "harness")
    e.setdefault("PYTHONHASHSEED", "0")
    e["PYTHONDONTWRITEBYTECODE"] = "1"
    if env:
        e.update({k: str(v) for k, v in env.items()})
    return subprocess.run([PY, script] + [str(a) for a in args], env=e, stdout=subprocess.PIPE,
                          stderr=subprocess.PIPE, text=True, timeout=timeout, input=input_)


# ------------------------------------------------------------------------------------------
# Running lian (one fresh child process per project)
# ------------------------------------------------------------------------------------------
def lian_batch(jobs, parallel=None, timeout=300, env=None):
    """jobs: list of job dicts (see lianrun.py); 'dir' and 'out' are filled in when missing.
    Returns the list of result dicts in job order.  Each job runs in its own process, forked from a zygote
    that has imported lian from /repo/src (fresh import state per job, without paying the import per job).
    A job that exceeds its timeout yields exit='TIMEOUT'."""
    import queue
    import threading
    here = os.path.dirname(os.path.abspath(__file__))
    script = os.path.join(here, "lianrun.py")
    results = [None] * len(jobs)
    q = queue.Queue()
    for i, job in enumerate(jobs):
        d = job["dir"]
        os.makedirs(d, exist_ok=True)
        job.setdefault("out", os.path.join(d, "result.json"))
        job.setdefault("timeout", timeout)
        if os.path.exists(job["out"]):
            os.remove(job["out"])
        jp = os.path.join(d, "job.json")
        with open(jp, "w") as f:
            json.dump({k: v for k, v in job.items() if not k.startswith("_")}, f)
        q.put((i, jp, job))
    # hash seed groups: a zygote has one PYTHONHASHSEED
    seeds = sorted({str(j.get("hashseed", 0)) for j in jobs})
    if len(seeds) > 1:
        out = [None] * len(jobs)
        for sd in seeds:
            idx = [i for i, j in enumerate(jobs) if str(j.get("hashseed", 0)) == sd]
            sub = lian_batch([jobs[i] for i in idx], parallel, timeout, env)
            for i, r in zip(idx, sub):
                out[i] = r
        return out
    e = dict(os.environ)
    e["PYTHONPATH"] = REPO_SRC + os.pathsep + here
    e["PYTHONHASHSEED"] = seeds[0] if seeds else "0"
    e["PYTHONDONTWRITEBYTECODE"] = "1"
    e["MPLCONFIGDIR"] = os.path.join(OUT, "mpl")
    if env:
        e.update(env)
    n = min(parallel or NCPU, max(1, len(jobs)))

    def worker():
        p = subprocess.Popen([PY, script, "--serve"], env=e, stdin=subprocess.PIPE, stdout=subprocess.PIPE,
                             stderr=subprocess.DEVNULL, text=True, bufsize=1)
        ready = p.stdout.readline().strip()
        if ready != "ready":
            while True:
                try:
                    i, jp, job = q.get_nowait()
                except queue.Empty:
                    return
                results[i] = {"exit": "ZYGOTE_FAILED", "traceback": "lian could not be imported from %s" % REPO_SRC, "exports": {},
                              "console": "", "job_dir": job["dir"]}
        while True:
            try:
                i, jp, job = q.get_nowait()
            except queue.Empty:
                break
            t0 = time.time()
            p.stdin.write(jp + "\n")
            p.stdin.flush()
            line = p.stdout.readline().strip()
            if line.startswith("done") and os.path.exists(job["out"]):
                with open(job["out"]) as f:
                    res = json.load(f)
            elif line.startswith("timeout"):
                res = {"exit": "TIMEOUT", "traceback": "", "exports": {}, "console": "", "wall_s": time.time() - t0}
            else:
                err = ""
                if os.path.exists(job["out"] + ".err"):
                    err = open(job["out"] + ".err").read()
                res = {"exit": "CHILD_DIED:%s" % line, "traceback": err[-3000:], "exports": {}, "console": ""}
            res["job_dir"] = job["dir"]
            results[i] = res
        try:
            p.stdin.close()
            p.wait(timeout=10)
        except Exception:
            p.kill()

    threads = [threading.Thread(target=worker) for _ in range(n)]
    for t in threads:
        t.start()
    for t in threads:
        t.join()
    return results
