"""Scheduler tracer for C13 (and the call events of C07): a lianrun pre_hook/post_hook pair.

No source change in /repo: the schedulers are observed by wrapping, at run time, the methods that are their
linearisation points (class attributes are replaced by logging wrappers that call the original):

  statement loop   analyze_stmts (enter/leave), SimpleWorkList.peek/add/pop, compute_stmt_states (proc)
  frame stack      ComputeFrameStack.add/pop, init_compute_frame, compute_target_method_states, PathManager.add_path
  taint worklist   PathFinder.propagate_taint (tstart/tend), PathFinder._enqueue, TaintManager.mark_processed_node (pop)

Every event is {"e": name, ...cheap scalars...}; order = program order (single thread).  Frames and SFG nodes are
numbered in order of first appearance.  Events are kept in memory and returned by collect().
"""
import functools

EVENTS = []
_frames = {}          # id(frame) -> small int   (frames are kept alive in _keep so ids are not reused)
_keep = []
_nodes = {}
_cur = []             # stack of frames whose analyze_stmts is running
_entered = set()      # frames whose statement loop has started (their initial list and priorities are logged once)
_limit = [400000]


def _fid(frame):
    k = id(frame)
    if k not in _frames:
        _frames[k] = len(_frames) + 1
        _keep.append(frame)
    return _frames[k]


def _nid(node):
    try:
        k = hash(node)
    except Exception:
        k = id(node)
    if k not in _nodes:
        _nodes[k] = len(_nodes) + 1
    return _nodes[k]


class TraceLimit(BaseException):
    """Raised (as a BaseException, so that lian's `except Exception` clauses do not swallow it) when a run emits more events
    than its budget: the run is cut short and judged on the events recorded so far."""


def emit(**ev):
    if len(EVENTS) >= _limit[0]:
        if len(EVENTS) == _limit[0]:
            EVENTS.append({"e": "truncated"})
        raise TraceLimit("trace limit %d reached" % _limit[0])
    EVENTS.append(ev)


def _site(cs):
    return [int(cs.caller_id), int(cs.call_stmt_id), int(cs.callee_id)]


def _path(p):
    return [_site(x) for x in p.path]


def install(M, job):
    _limit[0] = int(job.get("trace_limit", 400000))
    import lian.common_structs as CS
    import lian.core.prelim_semantics as PS
    import lian.core.global_semantics as GS
    import lian.core.global_stmt_states as GSS
    import lian.taint.taint_analysis as TA
    import lian.taint.taint_structs as TS

    # ---------------- statement loop
    orig_analyze_stmts = PS.P2PrelimSemanticAnalysis.analyze_stmts

    @functools.wraps(orig_analyze_stmts)
    def analyze_stmts(self, frame):
        first = id(frame) not in _entered
        _entered.add(id(frame))
        f = _fid(frame)
        wlobj = frame.stmt_worklist
        wlist = [[int(x[0]), int(x[1])] if isinstance(x, tuple) else [0, int(x)] for x in getattr(wlobj, "work_list", [])]
        prio = sorted([int(k), int(p)] for k, p in getattr(wlobj, "priority_dict", {}).items()) if first else []
        emit(e="enter", f=f, m=int(frame.method_id), phase=int(self.analysis_phase_id), resumed=bool(frame.interruption_flag),
             wl=len(frame.stmt_worklist), maxround=int(self.max_analysis_round), nstmts=len(frame.stmt_counters), first=first, wlist=wlist, prio=prio)
        _cur.append(frame)
        res = None
        try:
            res = orig_analyze_stmts(self, frame)
            return res
        finally:
            _cur.pop()
            intr = bool(res is not None and getattr(res, "interruption_flag", False))
            callees = []
            if intr and getattr(res, "interruption_data", None) is not None:
                callees = [int(x) for x in res.interruption_data.callee_ids]
            emit(e="leave", f=f, intr=intr, callees=callees, wl=len(frame.stmt_worklist))
    PS.P2PrelimSemanticAnalysis.analyze_stmts = analyze_stmts

    WL = CS.SimpleWorkList
    o_peek, o_pop, o_add = WL.peek, WL.pop, WL.add

    def _is_stmt_wl(wl):
        return bool(_cur) and _cur[-1].stmt_worklist is wl

    def peek(self):
        r = o_peek(self)
        if _is_stmt_wl(self) and r is not None:
            fr = _cur[-1]
            bound = fr.loop_total_rounds.get(r, -1) if hasattr(fr, "loop_total_rounds") else -1
            emit(e="peek", f=_fid(fr), s=int(r), cnt=int(fr.stmt_counters.get(r, -1)), loop=int(bound), wl=len(self.work_list))
        return r

    def _stmts(wl):
        return [int(x[1]) if isinstance(x, tuple) else int(x) for x in wl.work_list]

    def pop(self):
        r = o_pop(self)
        if _is_stmt_wl(self):
            emit(e="pop", f=_fid(_cur[-1]), s=int(r) if r is not None else -1, wl=len(self.work_list), wlist=_stmts(self))
        return r

    def add(self, data):
        if _is_stmt_wl(self):
            if hasattr(data, "__iter__"):
                data = list(data)
            before = set(self.all_data)
            order, seen = [], set()
            for x in (data if isinstance(data, list) else [data]):
                if x not in before and x not in seen:
                    order.append(int(x))
                    seen.add(x)
            r = o_add(self, data)
            emit(e="add", f=_fid(_cur[-1]), new=order, wl=len(self.work_list), wlist=_stmts(self))
            return r
        return o_add(self, data)
    WL.peek, WL.pop, WL.add = peek, pop, add

    orig_css = PS.P2PrelimSemanticAnalysis.compute_stmt_states

    @functools.wraps(orig_css)
    def compute_stmt_states(self, stmt_id, stmt, frame):
        emit(e="proc", f=_fid(frame), s=int(stmt_id), op=str(stmt.operation), cnt=int(frame.stmt_counters.get(stmt_id, -1)))
        return orig_css(self, stmt_id, stmt, frame)
    PS.P2PrelimSemanticAnalysis.compute_stmt_states = compute_stmt_states

    # ---------------- frame stack
    FS = CS.ComputeFrameStack
    o_fadd, o_fpop = FS.add, FS.pop

    def fadd(self, element):
        r = o_fadd(self, element)
        meta = bool(getattr(element, "is_meta_frame", False))
        emit(e="push", f=_fid(element), m=int(getattr(element, "method_id", -1) or -1), caller=int(getattr(element, "caller_id", -1) or -1),
             cs=int(getattr(element, "call_stmt_id", -1) or -1), depth=len(self._stack), meta=meta)
        return r

    def fpop(self):
        r = o_fpop(self)
        emit(e="popf", f=_fid(r) if r is not None else 0, depth=len(self._stack))
        return r
    FS.add, FS.pop = fadd, fpop
    FS.push = lambda self, element: self.add(element)

    o_init3 = GS.P3GlobalSemanticAnalysis.init_compute_frame

    @functools.wraps(o_init3)
    def init3(self, frame, frame_stack, global_space):
        r = o_init3(self, frame, frame_stack, global_space)
        emit(e="init", f=_fid(frame), ok=r is not None, path=_path(frame.call_path), depth=len(frame_stack),
             nstmts=len(frame.stmt_counters), wl=len(frame.stmt_worklist) if frame.stmt_worklist is not None else 0)
        return r
    GS.P3GlobalSemanticAnalysis.init_compute_frame = init3

    o_ctms = GSS.GlobalStmtStates.compute_target_method_states

    @functools.wraps(o_ctms)
    def ctms(self, stmt_id, stmt, status, in_states, callee_method_ids, target_symbol, args, this_state_set=set(), new_object_flag=False):
        fr = self.frame
        pre = []
        for callee in callee_method_ids:
            site = CS.CallSite(fr.method_id, stmt_id, callee)
            p = fr.call_path.add_callsite(site)
            pre.append({"callee": int(callee), "exists": bool(self.path_manager.path_exists(p)), "cycles": int(p.count_cycles()),
                        "already": bool(fr.content_already_analyzed.get(site, False)),
                        "cnt": int(fr.call_site_analyze_counter.get(site, 0))})
        emit(e="dpre", f=_fid(fr), m=int(fr.method_id), s=int(stmt_id), pre=pre)
        r = o_ctms(self, stmt_id, stmt, status, in_states, callee_method_ids, target_symbol, args, this_state_set, new_object_flag)
        sched = []
        if r is not None and getattr(r, "interruption_flag", False) and r.interruption_data is not None:
            sched = [int(x) for x in r.interruption_data.callee_ids]
        emit(e="decide", f=_fid(fr), m=int(fr.method_id), s=int(stmt_id), sched=sched)
        return r
    GSS.GlobalStmtStates.compute_target_method_states = ctms

    PM = CS.PathManager
    o_addpath = PM.add_path

    def add_path(self, new_path):
        r = o_addpath(self, new_path)
        if isinstance(new_path, CS.CallPath):
            emit(e="addpath", path=_path(new_path), ok=bool(r), n=len(self.paths))
        return r
    PM.add_path = add_path

    # ---------------- taint worklist
    PF = TA.PathFinder
    o_prop, o_enq = PF.propagate_taint, PF._enqueue

    def propagate_taint(self, source):
        emit(e="tstart", n=_nid(source), nodes=int(self.sfg.number_of_nodes()), edges=int(self.sfg.number_of_edges()))
        r = o_prop(self, source)
        emit(e="tend", tag=int(r) if isinstance(r, int) and r < 2 ** 30 else -1)
        return r

    def _enqueue(self, worklist, in_worklist, node):
        fresh = node not in in_worklist
        o_enq(self, worklist, in_worklist, node)
        emit(e="tenq", n=_nid(node), fresh=fresh, k=int(node.node_type), wl=len(worklist))
    PF.propagate_taint, PF._enqueue = propagate_taint, _enqueue

    TM = getattr(TS, "TaintEnv", None)
    if TM is not None and hasattr(TM, "mark_processed_node"):
        o_mark = TM.mark_processed_node

        def mark_processed_node(self, node):
            emit(e="tpop", n=_nid(node), k=int(node.node_type))
            return o_mark(self, node)
        TM.mark_processed_node = mark_processed_node


def collect(lian, job):
    out = {"events": EVENTS, "frames": len(_frames), "nodes": len(_nodes)}
    try:
        # the size of the abstract state space the run produced (rows of semantic_p3/s2space_p3): a deterministic measure of work inside the steps
        import os
        import pandas as pd
        d = os.path.join(os.path.abspath(lian.options.workspace), "semantic_p3")
        out["states_p3"] = int(sum(len(pd.read_feather(os.path.join(d, f))) for f in os.listdir(d) if f.startswith("s2space_p3.bundle"))) if lian is not None else -1
    except Exception:
        out["states_p3"] = -1
    try:
        from lian.config import config
        out["config"] = {"MAX_ROUND_P2": int(config.MAX_ANALYSIS_ROUND_FOR_PRELIM_ANALYSIS),
                         "MAX_ROUND_P3": int(config.MAX_ANALYSIS_ROUND_FOR_GLOBAL_ANALYSIS),
                         "MAX_ROUND_CALL_SITE": int(config.MAX_ANALYSIS_ROUND_FOR_CALL_SITE)}
    except Exception:
        pass
    return out
