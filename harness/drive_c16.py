"""C16 driver: run the real DataModel through history trees and log every call for DataModelTrace.tla.

usage: drive_c16.py <out_dir> <tier> <seed>       |   drive_c16.py --replay <history.json>
Cell values in the log are 0..2 (0 = missing).  Column "stmt_id" holds floats, columns "name*" hold strings,
so the frame has mixed dtypes like real GIR tables (DataFrame.values is then a copy, not a view).
"""
import builtins
import json
import math
import multiprocessing as mp
import random
import sys
import warnings

if not hasattr(builtins, "profile"):
    builtins.profile = lambda f: f
warnings.filterwarnings("ignore")

import numpy as np  # noqa: E402
import pandas as pd  # noqa: E402
from lian.util.data_model import DataModel  # noqa: E402
from tree import Forest, merge  # noqa: E402

STR = {1: "x", 2: "y"}
STR_BACK = {"x": 1, "y": 2}
MAX_ROWS = 4


TYPES = {}     # column name -> True when the column holds strings; refreshed from the frame before every call


def refresh_types(dm):
    TYPES.clear()
    for c in dm._data.columns:
        TYPES[str(c)] = dm._data[c].dtype.kind != "f"


def is_str_col(col):
    return TYPES.get(col, col.startswith("name"))


def enc(col, k):
    if k == 0:
        return None if is_str_col(col) else float("nan")
    return STR[k] if is_str_col(col) else float(k)


def dec(x):
    if x is None:
        return 0
    if isinstance(x, str):
        return STR_BACK.get(x, 9)
    try:
        if math.isnan(x):
            return 0
        return int(x)
    except Exception:
        return 9


def frame(dm):
    df = dm._data
    return {"labels": [int(i) for i in df.index], "cols": [str(c) for c in df.columns],
            "cells": [[dec(v) for v in row] for row in df.values.tolist()]}


def caches(dm):
    return {"need": bool(dm._need_refresh_rows), "idx": sorted(dm._column_indexer.keys())}


def rows_of(res):
    """A DataModel (or []) -> [[label, cells], ...]"""
    if isinstance(res, list):
        return []
    df = res._data
    return [[int(l), [dec(v) for v in row]] for l, row in zip(df.index, df.values.tolist())]


LAST_SRC = []


def construct(table):
    cols = table["cols"]
    TYPES.clear()
    LAST_SRC[:] = []
    for c in cols:
        TYPES[c] = c.startswith("name")
    data = [[enc(c, k) for c, k in zip(cols, row)] for row in table["rows"]]
    return DataModel(data, columns=cols)


def apply(dm, o):
    """Apply one operation to the real object; returns (dm', event).  slice returns a new object."""
    op = o["op"]
    res, crash = [], None
    refresh_types(dm)
    try:
        if op == "modify_element":
            dm.modify_element(o["lab"], o["col"], enc(o["col"], o["v"]))
        elif op == "modify_row":
            cols = list(dm._data.columns)
            dm.modify_row(o["pos"], [enc(c, k) for c, k in zip(cols, o["cells"])])
        elif op == "modify_column":
            dm.modify_column(o["col"], enc(o["col"], o["v"]))
        elif op == "append":
            cols = list(dm._data.columns)
            rows = [[enc(c, k) for c, k in zip(cols, row)] for row in o["rows"]]
            if o.get("from_slice"):
                # the appended table is a slice of a larger one: its row labels do not start at 0
                extra = DataModel([rows[0]] + rows, columns=cols).slice(1, len(rows) + 1)
            else:
                extra = DataModel(rows, columns=cols)
            dm.append_data_model(extra)
            LAST_SRC[:] = [extra]
        elif op == "touch_source":
            # the table appended last is modified in place; this table must not change (contract: a no-op here)
            if LAST_SRC and len(LAST_SRC[0]._data) > 0:
                src = LAST_SRC[0]
                lab = src._data.index[0]
                for c in list(src._data.columns):
                    import pandas as pd
                    src.modify_element(lab, c, 2.0 if pd.api.types.is_numeric_dtype(src._data[c].dtype) else "zz")
        elif op == "wrap_and_touch":
            # a second DataModel built from this one takes over; the first one gets a row appended (a frame of its own from then on)
            # and is queried through every column's equality index
            first = dm
            dm = DataModel(first)
            cols = list(first._data.columns)
            first.append_data_model(DataModel([[enc(c, 1) for c in cols]], columns=cols))
            for c in cols:
                first.query_index_column_value_indices(c, enc(c, 1))
        elif op == "remove_rows":
            dm.remove_rows(o["col"], enc(o["col"], o["v"]))
        elif op == "rename_column":
            dm.rename_column({o["old"]: o["new"]})
        elif op == "rename_map":
            dm.rename_column({a: b for a, b in o["map"]})
        elif op == "slice":
            dm = dm.slice(o["a"], o["b"])
        elif op == "reset_index":
            dm.reset_index()
        elif op == "fillna":
            dm.fillna({c: enc(c, o["v"]) for c in dm._data.columns})
        elif op == "access":
            r = dm.access(o["pos"])
            res = [] if r is None else [[dec(v) for v in r.raw_data()], int(r.get_index())]
        elif op == "column":
            res = [dec(v) for v in dm.access_column(o["col"]).tolist()]
        elif op == "index":
            res = [int(i) for i in dm.query_index_column_value_indices(o["col"], enc(o["col"], o["v"]))]
        elif op == "bundle":
            res = sorted(int(i) for i in dm.access_column(o["col"]).bundle_search(enc(o["col"], o["v"])))
        elif op == "index_first":
            r = dm.query_index_column_value_first(o["col"], enc(o["col"], o["v"]))
            res = [] if r is None else [[dec(v) for v in r.raw_data()], int(r.get_index())]
        elif op == "index_dm":
            res = rows_of(dm.query_index_column_value(o["col"], enc(o["col"], o["v"])))
        elif op == "iter":
            res = [[int(r.get_index()), [dec(v) for v in r.raw_data()]] for r in dm]
        elif op == "len":
            res = [len(dm)]
        elif op == "read_block":
            res = rows_of(dm.read_block(enc("stmt_id", o["v"])))
        elif op == "read_block_with":
            res = rows_of(dm.read_block_with_block_stmts(enc("stmt_id", o["v"])))
        elif op == "boundary":
            res = [int(dm.boundary_of_multi_blocks([enc("stmt_id", k) for k in o["ids"]]))]
        else:
            raise ValueError(op)
    except BaseException as e:  # SystemExit from error_and_quit included
        if isinstance(e, (KeyboardInterrupt, ValueError)) and op not in ALL_OPS:
            raise
        crash = type(e).__name__
        res = []
    ev = dict(o)
    ev["res"] = res
    ev["crash"] = crash or ""
    ev["frame"] = frame(dm)
    ev["caches"] = caches(dm)
    return dm, ev


ALL_OPS = {"rename_map", "modify_element", "modify_row", "modify_column", "append", "touch_source", "wrap_and_touch", "remove_rows", "rename_column", "slice",
           "reset_index", "fillna", "access", "column", "index", "bundle", "index_first", "index_dm", "iter", "len",
           "read_block", "read_block_with", "boundary"}


def mutations(fr):
    labels, cols, n = fr["labels"], fr["cols"], len(fr["labels"])
    out = []
    for lab in sorted({labels[0], labels[-1]}) if n else []:
        for c in cols:
            for v in (0, 2):
                out.append({"op": "modify_element", "lab": lab, "col": c, "v": v})
    for pos in sorted({0, n - 1}) if n else []:
        out.append({"op": "modify_row", "pos": pos, "cells": [2, 1]})
    if n:
        out.append({"op": "modify_column", "col": cols[0], "v": 1})
    if n + 1 <= MAX_ROWS:
        out.append({"op": "append", "rows": [[1, 0]]})
    if n == 0:
        # appending to an empty table: a table whose labels do not start at 0, and two rows at once
        out.append({"op": "append", "rows": [[1, 0]], "from_slice": True})
        out.append({"op": "append", "rows": [[1, 0], [2, 1]], "from_slice": True})
    out.append({"op": "touch_source"})
    out.append({"op": "wrap_and_touch"})
    for c in cols:
        for v in (1, 2):
            out.append({"op": "remove_rows", "col": c, "v": v})
    if "name" in cols:
        out.append({"op": "rename_column", "old": "name", "new": "name2"})
    elif "name2" in cols:
        out.append({"op": "rename_column", "old": "name2", "new": "name"})
    if len(cols) == 2:
        # one rename call whose mapping re-uses names: a swap, and a chain (first column takes the second's old name)
        out.append({"op": "rename_map", "map": [[cols[0], cols[1]], [cols[1], cols[0]]]})
        fresh = [c for c in ("name3", "name4", "name5") if c not in cols][0]
        out.append({"op": "rename_map", "map": [[cols[0], cols[1]], [cols[1], fresh]]})
    if n >= 2:
        out.append({"op": "slice", "a": 1, "b": n})
        out.append({"op": "slice", "a": 0, "b": n - 1})
    out.append({"op": "reset_index"})
    out.append({"op": "fillna", "v": 2})
    return out


def warmers(fr):
    cols = fr["cols"]
    return [{"op": "access", "pos": 0}, {"op": "index", "col": cols[0], "v": 1}, {"op": "index", "col": cols[1], "v": 1},
            {"op": "bundle", "col": cols[0], "v": 2}, {"op": "iter"}]


def queries(fr):
    cols, n = fr["cols"], len(fr["labels"])
    out = [{"op": "access", "pos": p} for p in sorted({0, 1, max(n - 1, 0), n})]
    out += [{"op": "iter"}, {"op": "len"}]
    out += [{"op": "column", "col": c} for c in cols]
    for c in cols:
        for v in (0, 1, 2):
            out.append({"op": "index", "col": c, "v": v})
            out.append({"op": "index_first", "col": c, "v": v})
        for v in (1, 2):
            out.append({"op": "index_dm", "col": c, "v": v})
            out.append({"op": "bundle", "col": c, "v": v})
    if "stmt_id" in cols:
        j = cols.index("stmt_id")
        col = [row[j] for row in fr["cells"]]
        for v in (1, 2):
            if col.count(v) == 2:
                out.append({"op": "read_block", "v": v})
            out.append({"op": "read_block_with", "v": v})
        out += [{"op": "boundary", "ids": [1, 2]}, {"op": "boundary", "ids": [2]}, {"op": "boundary", "ids": [0]}]
    return out


def dedupe(ops):
    seen, out = set(), []
    for o in ops:
        k = json.dumps(o, sort_keys=True)
        if k not in seen:
            seen.add(k)
            out.append(o)
    return out


def rebuild(table, history):
    dm = construct(table)
    for o in history:
        dm, _ = apply(dm, o)
    return dm


def subtree(args):
    """Explore everything below one first operation; one forest (set of files) per call."""
    table, tid, first_i, first, depth, out_dir = args
    forest = Forest(out_dir, "c16_t%d_%03d" % (tid, first_i), max_nodes=10 ** 9, meta={"table": table})

    def rec(parent, history, fr, d):
        ops = mutations(fr) + (dedupe(warmers(fr) + queries(fr)) if d == depth else warmers(fr))
        for o in ops:
            dm = rebuild(table, history)
            dm, ev = apply(dm, o)
            k = forest.add(parent, ev, d)
            if d < depth:
                rec(k, history + [o], ev["frame"], d + 1)
            else:
                forest.leaves += 1

    dm = construct(table)
    dm, ev = apply(dm, first)
    k = forest.add(0, ev, 1)
    if depth > 1:
        rec(k, [first], ev["frame"], 2)
    else:
        forest.leaves += 1
    forest.flush()
    return forest.files, forest.total, forest.leaves, forest.maxdepth


TABLES = [
    {"cols": ["stmt_id", "name"], "rows": [[1, 0], [2, 1], [1, 2]]},
    {"cols": ["stmt_id", "name"], "rows": [[2, 2], [2, 1], [0, 1], [1, 1]]},
    {"cols": ["name", "stmt_id"], "rows": [[1, 1], [1, 1]]},
    {"cols": ["stmt_id", "name"], "rows": []},
    {"cols": ["stmt_id", "name"], "rows": [[1, 1]]},
]


def chains(out_dir, count, length, rng):
    forest = Forest(out_dir, "c16_chain", max_nodes=10 ** 9, meta={"table": TABLES[0]})
    for _ in range(count):
        table = TABLES[0]
        dm = construct(table)
        fr = frame(dm)
        parent = 0
        for d in range(1, length + 1):
            cand = mutations(fr) if rng.random() < 0.5 else dedupe(warmers(fr) + queries(fr))
            o = rng.choice(cand)
            dm, ev = apply(dm, o)
            fr = ev["frame"]
            parent = forest.add(parent, ev, d)
        forest.leaves += 1
    forest.flush()
    return forest.files, forest.total, forest.leaves, forest.maxdepth


def main():
    out_dir, tier, seed = sys.argv[1], sys.argv[2], int(sys.argv[3])
    rng = random.Random(seed)
    plan = {"quick": [(0, 3), (3, 3), (4, 3)], "thorough": [(0, 4), (1, 3), (2, 3), (3, 4), (4, 4)]}[tier]
    jobs = []
    fam = []
    for tid, depth in plan:
        table = TABLES[tid]
        fr0 = frame(construct(table))
        firsts = mutations(fr0) + (warmers(fr0) if depth > 1 else dedupe(warmers(fr0) + queries(fr0)))
        for i, o in enumerate(firsts):
            jobs.append((table, tid, i, o, depth, out_dir))
        fam.append({"table": table, "depth": depth, "exhaustive": True, "first_ops": len(firsts)})
    files, total, leaves, maxd = [], 0, 0, 0
    with mp.Pool(min(16, mp.cpu_count())) as pool:
        for fs, t, l, m in pool.imap_unordered(subtree, jobs):
            files += fs
            total += t
            leaves += l
            maxd = max(maxd, m)
    # Table 0 only for chains: with it every op family is enabled from the start.
    n_chain, length = (200, 12) if tier == "quick" else (3000, 14)
    fs, t, l, m = chains(out_dir, n_chain, length, rng)
    fam.append({"table": TABLES[0], "chains": n_chain, "length": length, "seeded": True, "nodes": t})
    files += fs
    total += t
    leaves += l
    maxd = max(maxd, m)
    files = merge(files, out_dir, "c16", max_nodes=40000, same_key="table")
    print(json.dumps({"files": files, "nodes": total, "leaves": leaves, "maxdepth": maxd, "families": fam}))


if __name__ == "__main__":
    if sys.argv[1] == "--replay":
        doc = json.load(open(sys.argv[2]))
        dm = construct(doc["table"])
        evs = []
        for o in doc["history"]:
            dm, ev = apply(dm, o)
            evs.append(ev)
        print(json.dumps(evs))
    else:
        main()
