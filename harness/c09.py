"""C09 — points-to results are flow-, field- and call-site-sensitive where advertised (exactness on loop-free code).

The definition events of ALL behaviours of GIRMachine (the C08 run, branches on choice() explored by TLC) are united per definition
point (statement, name[, field]); ValueExact.tla judges that lian's regular abstract values for that point are among them and that no
unknown state is present.  Programs: the loop-free integer chains of valgen (objects with a single allocation per variable).
"""
import json
import os
import shutil
import time

import c08
import common as C
import valgen as VG

PID = "C09"
# arith_zero uses one variable as both operands: the property asks for the results of the operand combinations, which are not path-correlated
OUT_OF_SCOPE = VG.C09_EXCLUDED | {"maybe_receiver", "nested_alias_param", "digits_concat", "arith_zero"}


def in_scope(name):
    kind, steps = name.split("__")
    if kind not in ("int", "jsint"):
        return False
    return not any(x in steps.split("-") for x in OUT_OF_SCOPE)


def newest(idx, nm, states):
    out = set()
    m = {e["sid"]: e["idx"] for e in nm}
    for x in idx:
        out |= set(m.get(states[x]["sid"]) or [x])
    return out


def abstract_items(case):
    """(key) -> (set of regular int values, unknown flag); fields of object states as key 's:n.f'."""
    states = case["states"]
    acc = {}

    def add(key, idxs):
        vals, unk = acc.setdefault(key, [set(), False])
        for i in idxs:
            st = states[i]
            if st["k"] in ("int", "bool"):
                vals.add(st["i"])
            elif st["k"] == "unknown":
                acc[key][1] = True
    for a in case["abs"]:
        key = "%d:%s" % (a["s"], a["n"])
        add(key, a["idx"])
        for i in a["idx"]:
            st = states[i]
            if st["k"] == "obj":
                for f in st["fields"]:
                    if f["name"][1:2] == ":" or f["name"].startswith("__"):
                        continue
                    add("%s.%s" % (key, f["name"]), newest(f["idx"], a["nm"], states))
    return acc


def concrete_items(verdicts):
    """union over behaviours: key -> set of int values (only points whose values are ints / objects with int fields)."""
    acc, nonint = {}, set()
    for vd in verdicts:
        for d in vd.get("defs") or []:
            key = "%d:%s" % (d["s"], d["n"])
            v = d["v"]
            if v["t"] in ("int", "bool"):
                acc.setdefault(key, set()).add(v["i"])
            elif v["t"] == "ref":
                for f in v["fields"]:
                    fk = "%s.%s" % (key, f[0])
                    if f[1]["t"] in ("int", "bool"):
                        acc.setdefault(fk, set()).add(f[1]["i"])
                    else:
                        nonint.add(fk)
            else:
                nonint.add(key)
    for k in nonint:
        acc.pop(k, None)
    return acc


def run(tier, seed):
    t0 = time.time()
    v = C.Verdict(PID)
    root = C.scratch("c09")
    os.environ["VERIF_C09"] = "1"
    chains, cases, tot = c08.collect(tier, seed, v, root, keep=in_scope)
    by = {c["name"]: c for c in cases}
    per_case, n_missing = {}, 0
    for vd in tot["verdicts"]:
        if vd["clause"].startswith("stuck:") or vd["clause"] == "diverges":
            v.machinery_failure("the machine could not execute %s: %s" % (vd["case"], vd["clause"]))
            continue
        if vd["clause"]:
            # the other half of "exactly the union": the machine (Covers in GIRMachine.tla, the judgement C08 uses for every value kind) found a
            # definition event of this behaviour that no abstract state of the statement covers - the value of a path is missing
            case = by[vd["case"]]
            unc = vd.get("uncovered") or []
            n_missing += 1
            v.violation("value_of_a_path_missing:%s" % vd["case"].split("__")[1],
                        {"chain": vd["case"], "clause": "value_of_a_path_missing", "source": case["source"],
                         "uncovered": [{"line": case["_lines"].get(d["s"]), "statement": d["s"], "event": c08.show(d)} for d in unc[:6]]})
        per_case.setdefault(vd["case"], []).append(vd)
    exact_cases, n_items = [], 0
    for name, vds in sorted(per_case.items()):
        case = by[name]
        conc = concrete_items(vds)
        absi = abstract_items(case)
        items = []
        for key, cv in sorted(conc.items()):
            av, unk = absi.get(key, [set(), False])
            items.append({"key": key, "concrete": sorted(cv), "abstract": sorted(av), "unknown": bool(unk)})
        n_items += len(items)
        exact_cases.append({"name": name, "items": items})
    tf = os.path.join(root, "exact.json")
    with open(tf, "w") as f:
        json.dump({"cases": exact_cases}, f)
    r = C.tlc("ValueExact", "ValueExact.cfg", env={"CASES": tf}, workers=4, timeout=1800)
    n_bad = 0
    if r.error or r.violation:
        v.machinery_failure("ValueExact run failed: %s" % (r.error or r.violation)[:2000])
    else:
        verdicts = [json.loads(x) for x in r.printed]
        if len(verdicts) != len(exact_cases):
            v.machinery_failure("%d programs, %d verdicts" % (len(exact_cases), len(verdicts)))
        for vd in verdicts:
            if not vd["clause"]:
                continue
            n_bad += 1
            case = by[vd["case"]]
            kind, steps = vd["case"].split("__")
            lines = case["_lines"]

            def where(key):
                s = int(key.split(":")[0])
                return "line %s: %s" % (lines.get(s), key.split(":", 1)[1])
            v.violation("%s:%s" % (vd["clause"], steps), {"chain": vd["case"], "clause": vd["clause"],
                                                        "retained": [{"at": where(x["key"]), "values_no_path_leaves": x["extra"]} for x in vd.get("retained") or []],
                                                        "unknown_at": [where(k) for k in vd.get("unknown") or []], "source": case["source"]})
    rc = v.finish(max_print=40)
    cov = {
        "states": tot["states"] + r.distinct, "transitions": tot["transitions"] + r.generated, "traces_validated_against_impl": len(exact_cases),
        "samples": [{"chain": c["name"], "items": c["items"][:5]} for c in exact_cases[:2]],
        "programs": len(exact_cases), "behaviours_united": len(tot["verdicts"]), "definition_points_judged": n_items, "violating_programs": n_bad, "behaviours_with_a_missing_value": n_missing,
        "out_of_scope_steps": sorted(OUT_OF_SCOPE), "known_findings_hit": {k: len(x) for k, x in v.hits.items()}, "repo": C.repo_head(),
        "exhaustive": tier == "thorough",
        "rule": "a case = one loop-free integer value program; concrete = union of GIRMachine's definition events over all its behaviours; abstract = regular "
                "values of lian's states for the same point (all analysis contexts united, newest-copy rule)",
    }
    C.write_evidence(PID, tier, seed, "model_checking", cov, time.time() - t0, violations=len(v.unlisted),
                     assumptions=["GIRMachine's semantics is the one validated against CPython by C01", "contexts of a callee are united (call-site sensitivity is judged at "
                                  "the call statements, which differ per site)", "integers only; arrays, loops, may-alias receivers are outside C09"])
    print("C09: %d programs, %d behaviours united, %d definition points, %d violating, %.1fs" % (len(exact_cases), len(tot["verdicts"]), n_items, n_bad, time.time() - t0))
    shutil.rmtree(root, ignore_errors=True)
    return rc


def replay(path):
    return c08.replay(path)
