"""Post-hook (runs inside the lian child): digest every output file of the workspace with the workspace path removed,
and extract the id-discipline trace for Pipeline.tla."""
import hashlib
import json
import math
import os
import re


def canon(v):
    if v is None:
        return None
    if isinstance(v, float):
        if math.isnan(v):
            return None
        return v
    if isinstance(v, (int, str, bool)):
        return v
    try:
        import numpy as np
        if isinstance(v, np.generic):
            return canon(v.item())
        if isinstance(v, np.ndarray):
            return [canon(x) for x in v.tolist()]
    except ImportError:
        pass
    if isinstance(v, (list, tuple)):
        return [canon(x) for x in v]
    if isinstance(v, dict):
        return {str(k): canon(x) for k, x in v.items()}
    return str(v)


def collect(lian, job):
    import pandas as pd
    ws = os.path.abspath(lian.options.workspace)
    base = os.path.dirname(ws.rstrip("/"))          # .../ws  (the -w argument); inputs live next to it
    root = os.path.dirname(base)
    files = {}
    for d, dirs, names in os.walk(ws):
        dirs.sort()
        for n in sorted(names):
            p = os.path.join(d, n)
            rel = os.path.relpath(p, ws)
            if rel.startswith("src/") or rel.startswith("externs/"):
                continue
            try:
                if os.path.getsize(p) == 0:
                    files[rel] = "empty"
                    continue
                try:
                    df = pd.read_feather(p)
                    rows = [[canon(x) for x in rec] for rec in df.itertuples(index=False, name=None)]
                    text = json.dumps([list(map(str, df.columns)), rows], sort_keys=True, default=str)
                except Exception:
                    with open(p, "rb") as f:
                        text = f.read().decode("utf-8", errors="replace")
                text = text.replace(root, "<ROOT>")
                files[rel] = hashlib.sha256(text.encode()).hexdigest()[:20]
            except OSError as e:
                files[rel] = "unreadable:%s" % e
    # id discipline
    ms = pd.read_feather(os.path.join(ws, "frontend/module_symbols"))
    modules = [{"module_id": int(m), "name": str(n)} for m, n in zip(ms["module_id"], ms["symbol_name"])]
    units = []
    gir_files = sorted([n for n in os.listdir(os.path.join(ws, "frontend")) if n.startswith("gir.bundle")], key=lambda n: int(n[10:]))
    per_unit, order, has_init = {}, [], set()
    for n in gir_files:
        g = pd.read_feather(os.path.join(ws, "frontend", n))
        names = g["name"] if "name" in g else [None] * len(g)
        for uid, sid, op, nm in zip(g["unit_id"], g["stmt_id"], g["operation"], names):
            uid = int(uid)
            if uid not in per_unit:
                per_unit[uid] = set()
                order.append(uid)
            per_unit[uid].add(int(sid))
            if op == "method_decl" and nm == "%unit_init":
                has_init.add(uid)
    # analysis order = module table order of the units that produced GIR
    exts = set(getattr(lian.options, "lang_extensions", []) or [])
    unit_ids = [int(u) for u, e in zip(ms["unit_id"], ms["unit_ext"]) if u == u and u is not None and (not exts or e in exts)]
    for uid in unit_ids:
        ids = per_unit.get(uid, set())
        units.append({"unit": uid, "lo": min(ids) if ids else 0, "hi": max(ids) if ids else 0, "count": len(ids), "init": uid in has_init})
    us = pd.read_feather(os.path.join(ws, "frontend/unique_symbol_ids"))
    run = {"modules": modules, "units": units, "max_gir_id": int(us["max_gir_id"][0]), "negative_ids": []}
    lines = [ln for ln in job.get("console_text", "").splitlines() if ln.startswith("Analyzing ") or ln.endswith(" is Done")
             or ln.startswith("Found ") or ln.startswith("No taint")]
    return {"files": files, "run": run, "console_digest": hashlib.sha256("\n".join(lines).encode()).hexdigest()[:20]}
