"""C01 — lowering Python source to GIR preserves program behaviour.

GIRMachine.tla (TLC as interpreter) executes the GIR rows that the real `lang` phase emitted for each program; the sequence of
values passed to print (the entry's return values are printed too, one call per argument vector) must equal what CPython
printed for the source.
"""
import concurrent.futures as cf
import json
import os
import shutil
import subprocess
import sys
import time

import common as C
import girjson as G
import pygen

PID = "C01"
PER_PROJECT = 40
CASES_PER_TLC = 60

REF_RUNNER = r'''
import json, sys, signal
progs = json.load(open(sys.argv[1]))
out = []
def plain(v):
    if v is None: return {"t": "none"}
    if isinstance(v, bool): return {"t": "bool", "i": 1 if v else 0}
    if isinstance(v, int):
        if abs(v) >= 2 ** 30: raise OverflowError("big")
        return {"t": "int", "i": v}
    if isinstance(v, str): return {"t": "str", "s": v}
    raise TypeError("non-scalar output")
class Timeout(Exception): pass
def alarm(*a): raise Timeout()
signal.signal(signal.SIGALRM, alarm)
for name, src in progs:
    rec = []
    big = [False]
    def p(*a):
        rec.append([plain(x) for x in a])
    env = {"print": p, "__name__": "__main__"}
    try:
        signal.alarm(3)
        exec(compile(src, name, "exec"), env)
        signal.alarm(0)
        out.append({"name": name, "ok": True, "expected": rec})
    except BaseException as e:
        signal.alarm(0)
        out.append({"name": name, "ok": False, "why": type(e).__name__ + ": " + str(e)[:80]})
json.dump(out, open(sys.argv[2], "w"))
'''


def universe(tier, seed):
    progs = [("construct:" + n, pygen.with_calls(s)) for n, s in pygen.CONSTRUCTS]
    n = 150 if tier == "quick" else 2000
    start = 0 if tier == "thorough" else (seed % 10) * 150
    progs += [("gen:%05d" % i, pygen.with_calls(pygen.generated(i))) for i in range(start, start + n)]
    return progs


def reference(progs, root):
    pin = os.path.join(root, "progs.json")
    pout = os.path.join(root, "ref.json")
    with open(pin, "w") as f:
        json.dump(progs, f)
    with open(os.path.join(root, "ref_runner.py"), "w") as f:
        f.write(REF_RUNNER)
    subprocess.run([C.PY, os.path.join(root, "ref_runner.py"), pin, pout], check=True, timeout=1800)
    with open(pout) as f:
        return {r["name"]: r for r in json.load(f)}


def build_jobs(progs, root):
    jobs = []
    for k in range(0, len(progs), PER_PROJECT):
        chunk = progs[k:k + PER_PROJECT]
        files, names = {}, {}
        for i, (name, src) in enumerate(chunk):
            fn = "p%04d.py" % i
            files[fn] = src
            names["p%04d" % i] = name
        jobs.append(dict(cmd="lang", lang="python", files=files, dir=os.path.join(root, "j%05d" % k), export=["gir", "modules"],
                         flags=["--nomock"], timeout=900, _names=names))
    return jobs


def cases_of(job, res, ref, srcs):
    gir = res["exports"].get("gir") or []
    mods = {m.get("unit_id"): m for m in (res["exports"].get("modules") or []) if m.get("unit_id") is not None}
    out = []
    for uid, rows in G.units_of(gir):
        name = job["_names"].get(str(mods.get(uid, {}).get("symbol_name")))
        if name is None or not ref.get(name, {}).get("ok"):
            continue
        out.append({"name": name, "rows": [G.machine_row(r) for r in rows], "temps": G.temps_of(rows),
                    "expected": ref[name]["expected"], "source": srcs[name], "start": "", "check": "out", "flows": [], "param_sources": []})
    return out


def run_tlc(cases, root, v):
    files = []
    for k in range(0, len(cases), CASES_PER_TLC):
        p = os.path.join(root, "cases_%05d.json" % k)
        with open(p, "w") as f:
            json.dump({"cases": [{x: y for x, y in c.items() if x != "source"} for c in cases[k:k + CASES_PER_TLC]]}, f)
        files.append(p)

    def one(p):
        return p, C.tlc("GIRMachine", "GIRMachine.cfg", name="c01_" + os.path.basename(p), env={"CASES": p}, workers=2, timeout=3000, heap="6g")

    tot = dict(states=0, transitions=0, verdicts=[])
    with cf.ThreadPoolExecutor(max_workers=8) as ex:
        for p, r in ex.map(one, files):
            if r.error or r.violation:
                v.machinery_failure("GIRMachine run failed on %s: %s" % (p, (r.error or r.violation)[:2500]))
                continue
            tot["states"] += r.distinct
            tot["transitions"] += r.generated
            tot["verdicts"] += [json.loads(x) for x in r.printed]
    return tot


def classify(vd, case):
    cl = vd["clause"]
    if cl.startswith("stuck:"):
        return "machine_stuck:" + cl[6:].rstrip("0123456789").rstrip("_")
    return cl


def run(tier, seed):
    t0 = time.time()
    v = C.Verdict(PID)
    root = C.scratch("c01")
    progs = universe(tier, seed)
    srcs = dict(progs)
    ref = reference(progs, root)
    skipped = {n: r.get("why") for n, r in ref.items() if not r["ok"]}
    jobs = build_jobs([p for p in progs if ref[p[0]]["ok"]], root)
    res = C.lian_batch(jobs)
    cases = []
    for job, r in zip(jobs, res):
        if r["exit"] != "ok":
            v.violation("lian_failed:%s" % r["exit"], {"exit": r["exit"], "traceback": (r.get("traceback") or "")[-800:], "programs": list(job["_names"].values())[:5]})
            continue
        cases += cases_of(job, r, ref, srcs)
    tot = run_tlc(cases, root, v)
    by_name = {c["name"]: c for c in cases}
    seen = {vd["case"] for vd in tot["verdicts"]}
    missing = [c["name"] for c in cases if c["name"] not in seen]
    if missing and not v.machinery:
        v.machinery_failure("%d cases without a verdict, e.g. %s" % (len(missing), missing[:3]))
    n_bad = 0
    for vd in tot["verdicts"]:
        if vd["clause"] in ("", "skipped_overflow"):
            continue
        n_bad += 1
        c = by_name[vd["case"]]
        kind = vd["case"].split(":")[0]
        sig = "%s:%s" % (classify(vd, c), vd["case"] if kind == "construct" else "generated")
        v.violation(sig, {"case": vd["case"], "clause": vd["clause"], "got": vd.get("got"), "expected": c["expected"], "source": c["source"]})
    rc = v.finish(max_print=40)
    cov = {
        "programs": len(cases), "disagreements_checked": sum(len(c["expected"]) for c in cases),
        "samples": [{"program": c["name"], "source": c["source"][:600], "expected": c["expected"][:4]} for c in cases[:2]],
        "construct_programs": sum(1 for c in cases if c["name"].startswith("construct:")),
        "generated_programs": sum(1 for c in cases if c["name"].startswith("gen:")),
        "argument_vectors_per_program": len(pygen.VECTORS), "skipped_by_reference": len(skipped),
        "skipped_reasons": dict(list(skipped.items())[:10]), "tlc_states": tot["states"], "disagreeing_programs": n_bad,
        "known_findings_hit": {k: len(x) for k, x in v.hits.items()}, "repo": C.repo_head(),
    }
    C.write_evidence(PID, tier, seed, "translation_validation", cov, time.time() - t0, violations=len(v.unlisted),
                     assumptions=["GIR semantics as fixed in specs/GIRMachine.tla (reading of docs 3-2, DESIGN appendix C)", "CPython is the reference",
                                  "integers below 2^30, outputs are scalars", "class declarations at unit level are in effect before the unit initialiser runs"])
    print("C01: %d programs (%d skipped by the reference run), %d output comparisons, %d TLC states, %d disagreeing, %.1fs" % (
        len(cases), len(skipped), cov["disagreements_checked"], tot["states"], n_bad, time.time() - t0))
    shutil.rmtree(root, ignore_errors=True)
    return rc


def replay(path):
    with open(path) as f:
        doc = json.load(f)["replay"]
    root = C.scratch("c01_replay")
    progs = [(doc["case"], doc["source"])]
    ref = reference(progs, root)
    jobs = build_jobs(progs, root)
    res = C.lian_batch(jobs)
    cases = cases_of(jobs[0], res[0], ref, dict(progs))
    print(doc["source"])
    v = C.Verdict(PID)
    tot = run_tlc(cases, root, v)
    for vd in tot["verdicts"]:
        print(json.dumps(vd)[:1500])
        print("expected:", json.dumps(cases[0]["expected"])[:800])
        if vd["clause"]:
            kind = vd["case"].split(":")[0]
            v.violation("%s:%s" % (classify(vd, cases[0]), vd["case"] if kind == "construct" else "generated"), vd)
    return v.finish()
