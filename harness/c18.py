"""C18 — running lian never alters inputs and writes only inside its workspace.

Design level: specs/Workspace.tla (TLC explores every placement of workspace vs inputs in a small path universe).
Binding: every placement is materialised under /verif/out/c18/<case>/, `lian lang` runs under `strace -f`, and the
list of file-system mutations plus before/after snapshots is validated by specs/WorkspaceTrace.tla.
"""
import hashlib
import json
import os
import re
import shutil
import subprocess
import time
import concurrent.futures as cf

import common as C

PID = "C18"
HERE = os.path.dirname(os.path.abspath(__file__))
DEFAULT = "lian_workspace"
SYSCALLS = "open,openat,creat,mkdir,mkdirat,unlink,unlinkat,rmdir,rename,renameat,renameat2,symlink,symlinkat,link,linkat," \
           "truncate,ftruncate,chmod,fchmodat,chown,fchownat,lchown,utimensat,utime,utimes,chdir,fchdir,stat,newfstatat"


# ------------------------------------------------------------------------------------------ cases
def std_tree():
    """The input project and a sibling directory that must never change."""
    return [("d", "in"), ("f", "in/a.py", "x = 1\n"), ("d", "in/sub"), ("f", "in/sub/b.py", "y = 2\n"),
            ("f", "in/notes.txt", "not source\n"), ("l", "in/alias.py", "a.py"), ("l", "in/dlink", "sub"),
            ("d", "other"), ("f", "other/keep.txt", "keep\n"), ("f", "other/decoy.py", "z = 3\n")]


def prepop(ws):
    """Previous contents of a workspace directory."""
    return [("d", ws), ("f", ws + "/old_result", "old\n"), ("d", ws + "/frontend"), ("f", ws + "/frontend/gir.bundle0", "stale\n"),
            ("l", ws + "/oldlink", "../../other/keep.txt")]


def cases():
    """The fixed placement universe (independent of the seed)."""
    out = []

    def add(name, ws, inputs, force=True, setup=(), cwd=".", flags=(), pre_ws=None, lang="python"):
        s = std_tree() + list(setup)
        if pre_ws:
            s += prepop(pre_ws)
        out.append(dict(name=name, ws=ws, inputs=list(inputs), force=force, setup=s, cwd=cwd, flags=list(flags), lang=lang))

    for force in (True, False):
        f = "f" if force else "n"
        add("disjoint_" + f, "{B}/ws", ["{B}/in"], force)
        add("disjoint_prepop_" + f, "{B}/ws", ["{B}/in"], force, pre_ws="ws/" + DEFAULT)
        add("ws_inside_input_" + f, "{B}/in/ws", ["{B}/in"], force)
        add("ws_inside_input_prepop_" + f, "{B}/in/ws", ["{B}/in"], force, pre_ws="in/ws/" + DEFAULT)
        add("identical_" + f, "{B}/in", ["{B}/in"], force)
        add("input_inside_ws_" + f, "{B}/ws", ["{B}/ws/" + DEFAULT + "/proj"], force,
            setup=[("d", "ws"), ("d", "ws/" + DEFAULT), ("d", "ws/" + DEFAULT + "/proj"), ("f", "ws/" + DEFAULT + "/proj/p.py", "p = 1\n")])
        add("input_inside_option_dir_" + f, "{B}/ws", ["{B}/ws/proj"], force,
            setup=[("d", "ws"), ("d", "ws/proj"), ("f", "ws/proj/p.py", "p = 1\n")])
        add("ws_symlink_" + f, "{B}/wslink", ["{B}/in"], force, setup=[("d", "realws"), ("l", "wslink", "realws")])
        add("input_symlink_" + f, "{B}/ws", ["{B}/inlink"], force, setup=[("l", "inlink", "in")])
        add("relative_" + f, "ws", ["in"], force)
        add("relative_dot_" + f, "./ws", ["./in/../in"], force)
        add("default_name_" + f, None, ["in"], force)
        add("default_name_prepop_" + f, None, ["in"], force, pre_ws=DEFAULT)
        add("custom_contains_default_" + f, "{B}/my_" + DEFAULT + "_dir", ["{B}/in"], force,
            setup=prepop("my_" + DEFAULT + "_dir"))
        add("file_input_" + f, "{B}/ws", ["{B}/in/a.py"], force)
        add("two_inputs_" + f, "{B}/ws", ["{B}/in/sub", "{B}/other"], force)
        add("nomock_" + f, "{B}/ws", ["{B}/in"], force, flags=["--nomock"])
        add("ws_is_parent_of_input_" + f, "{B}", ["{B}/in"], force)
        # paths through symlinked parents, inputs climbing with "..", trailing slashes, "." as input
        proj = [("d", "real"), ("d", "real/proj"), ("f", "real/proj/p.py", "p = 1\n"), ("d", "real/proj/pkg"),
                ("f", "real/proj/pkg/q.py", "q = 2\n"), ("l", "link", "real")]
        add("ws_inside_input_symlinked_parent_" + f, "{B}/link/proj/out", ["{B}/link/proj"], force, setup=proj)
        # the same directory spelled in two ways: one of workspace / input goes through the symlinked parent, the other does not
        add("ws_inside_input_ws_via_link_" + f, "{B}/link/proj/out", ["{B}/real/proj"], force, setup=proj)
        add("ws_inside_input_input_via_link_" + f, "{B}/real/proj/out", ["{B}/link/proj"], force, setup=proj)
        add("ws_symlinked_parent_" + f, "{B}/link/wsdir", ["{B}/in"], force, setup=proj)
        add("input_symlinked_parent_" + f, "{B}/ws", ["{B}/link/proj"], force, setup=proj)
        add("dotdot_input_" + f, "{B}/out/ws", ["../../../in"], force, setup=[("d", "run/x/y"), ("d", "out")], cwd="run/x/y")
        add("dotdot_input_one_" + f, "{B}/out/ws", ["../in"], force, setup=[("d", "run"), ("d", "out")], cwd="run")
        add("dotdot_workspace_" + f, "../../outrel/ws", ["{B}/in"], force, setup=[("d", "run/x"), ("d", "outrel")], cwd="run/x")
        # a relative workspace option that does not mention the default name, given from a working directory whose own path does
        add("relative_ws_cwd_contains_default_" + f, "out", ["{B}/in"], force, cwd=DEFAULT + "_runs",
            setup=[("d", DEFAULT + "_runs"), ("d", DEFAULT + "_runs/out"), ("f", DEFAULT + "_runs/out/keep.txt", "keep\n"), ("d", DEFAULT + "_runs/out/reports"),
                   ("f", DEFAULT + "_runs/out/reports/summary.csv", "a,b\n")])
        add("trailing_slash_" + f, "{B}/ws/", ["{B}/in/"], force)
        add("dot_input_" + f, "{B}/ws", ["."], force, cwd="in")
        add("dot_input_ws_inside_" + f, "wsdir", ["."], force, cwd="in")
        # flags that change what is copied and where derived files are written: header pre-processing of C inputs, strict parse mode
        cproj = [("d", "cproj"), ("d", "cproj/inc"), ("f", "cproj/m.c", '#include "inc/u.h"\nint main() {\n    int x = U;\n    return x;\n}\n'),
                 ("f", "cproj/inc/u.h", "#define U 1\nint helper(int a);\n")]
        add("c_headers_" + f, "{B}/ws", ["{B}/cproj"], force, setup=cproj, flags=["-I"], lang="c")
        add("c_headers_strict_" + f, "{B}/ws", ["{B}/cproj"], force, setup=cproj, flags=["-I", "--strict-parse-mode"], lang="c")
        add("c_strict_" + f, "{B}/ws", ["{B}/cproj"], force, setup=cproj, flags=["--strict-parse-mode"], lang="c")
        add("strict_" + f, "{B}/ws", ["{B}/in"], force, flags=["--strict-parse-mode"])
        # two inputs: a directory that contains the workspace, and a directory inside that workspace (left there by an earlier run)
        add("input_inside_ws_inside_other_input_" + f, "{B}/proj2/out", ["{B}/proj2", "{B}/proj2/out/" + DEFAULT + "/src/other"], force,
            setup=[("d", "proj2"), ("f", "proj2/p.py", "p = 1\n"), ("d", "proj2/out"), ("d", "proj2/out/" + DEFAULT), ("d", "proj2/out/" + DEFAULT + "/src"),
                   ("d", "proj2/out/" + DEFAULT + "/src/other"), ("f", "proj2/out/" + DEFAULT + "/src/other/o.py", "o = 2\n")])
        add("nested_dirs_" + f, "{B}/ws", ["{B}/deep"], force,
            setup=[("d", "deep/a/b/c"), ("f", "deep/a/b/c/d.py", "d = 4\n"), ("f", "deep/a/top.py", "t = 1\n"), ("d", "deep/empty")])
    return out


# ------------------------------------------------------------------------------------------ file system
def materialise(base, setup):
    if os.path.isdir(base):
        shutil.rmtree(base)
    os.makedirs(base)
    for e in setup:
        p = os.path.join(base, e[1])
        if e[0] == "d":
            os.makedirs(p, exist_ok=True)
        elif e[0] == "f":
            os.makedirs(os.path.dirname(p), exist_ok=True)
            with open(p, "w") as f:
                f.write(e[2])
        elif e[0] == "l":
            os.makedirs(os.path.dirname(p), exist_ok=True)
            os.symlink(e[2], p)


def snapshot(base, limit=20000):
    snap = {}
    n = 0
    for root, dirs, files in os.walk(base):
        for name in list(dirs) + files:
            p = os.path.join(root, name)
            rel = os.path.relpath(p, base)
            n += 1
            if n > limit:
                snap["__truncated__"] = ("x", "", 0)
                return snap
            try:
                if os.path.islink(p):
                    snap[rel] = ("l", os.readlink(p), 0)
                elif os.path.isdir(p):
                    snap[rel] = ("d", "", 0)
                else:
                    with open(p, "rb") as f:
                        data = f.read()
                    snap[rel] = ("f", hashlib.sha256(data).hexdigest()[:16], len(data))
            except OSError:
                snap[rel] = ("?", "", 0)
    return snap


# ------------------------------------------------------------------------------------------ strace
_RE_LINE = re.compile(r"^(\d+)\s+(\w+)\((.*)\)\s+=\s+(-?\d+|\?)(.*)$")
_RE_STR = re.compile(r'"((?:[^"\\]|\\.)*)"')


def parse_strace(log, cwd0):
    """Mutating events between the two markers, with absolute (not yet symlink-resolved) paths."""
    events = []
    inside = False
    cwd = {}
    with open(log, errors="replace") as f:
        for line in f:
            m = _RE_LINE.match(line.rstrip("\n"))
            if not m:
                continue
            pid, call, args, ret = m.group(1), m.group(2), m.group(3), m.group(4)
            if "__LIAN_VERIF_BEGIN__" in args:
                inside = True
                continue
            if "__LIAN_VERIF_END__" in args:
                inside = False
                continue
            if call == "chdir" and ret == "0":
                s = _RE_STR.search(args)
                if s:
                    cwd[pid] = os.path.normpath(os.path.join(cwd.get(pid, cwd0), s.group(1)))
                continue
            if not inside or ret in ("?",) or ret.startswith("-"):
                continue
            if call in ("stat", "newfstatat", "fchdir"):
                continue
            strs = _RE_STR.findall(args)
            # directory file descriptors printed by -y as N</path>
            dirfd = re.match(r"\s*(?:AT_FDCWD|\d+)(?:<([^>]*)>)?", args)
            base = cwd.get(pid, cwd0)
            if call.endswith("at") or call == "renameat2":
                if dirfd and dirfd.group(1):
                    base = dirfd.group(1)

            def ab(p, b=base):
                return os.path.normpath(os.path.join(b, p))

            if call in ("open", "openat", "creat"):
                flags = args
                if call != "creat" and not re.search(r"O_WRONLY|O_RDWR|O_CREAT|O_TRUNC|O_APPEND", flags):
                    continue
                if strs:
                    events.append(("write", ab(strs[0])))
            elif call in ("mkdir", "mkdirat"):
                events.append(("mkdir", ab(strs[0])))
            elif call in ("unlink",):
                events.append(("delete", ab(strs[0])))
            elif call == "unlinkat":
                events.append(("rmdir" if "AT_REMOVEDIR" in args else "delete", ab(strs[0])))
            elif call == "rmdir":
                events.append(("rmdir", ab(strs[0])))
            elif call in ("rename", "renameat", "renameat2"):
                # second path may be relative to a second dirfd; take cwd/absolute
                events.append(("delete", ab(strs[0])))
                events.append(("write", ab(strs[1], cwd.get(pid, cwd0))))
            elif call in ("symlink", "symlinkat"):
                events.append(("write", ab(strs[1])))
            elif call in ("link", "linkat"):
                events.append(("write", ab(strs[1])))
            elif call in ("truncate",):
                events.append(("write", ab(strs[0])))
            elif call in ("chmod", "fchmodat", "chown", "fchownat", "lchown", "utimensat", "utime", "utimes"):
                if strs:
                    events.append(("meta", ab(strs[0])))
    return events


def resolve(p):
    """Real path of p's parent + p's last component (the object itself may be a symlink being deleted or created)."""
    d, n = os.path.split(p)
    return os.path.join(os.path.realpath(d), n)


def comps(p, base):
    """Path -> components relative to the case directory; paths elsewhere get the marker component '<outside>'."""
    p = os.path.normpath(p)
    if p == base:
        return []
    if p.startswith(base + os.sep):
        return [c for c in p[len(base) + 1:].split(os.sep) if c]
    return ["<outside>", p]


def run_case(case, root):
    base = os.path.join(root, case["name"])
    materialise(base, case["setup"])
    base = os.path.realpath(base)
    cwd = os.path.normpath(os.path.join(base, case["cwd"]))
    fmt = lambda s: s.replace("{B}", base)  # noqa: E731
    pre = snapshot(base)
    jobdir = os.path.join(root, "_jobs", case["name"])
    os.makedirs(jobdir, exist_ok=True)
    job = dict(cmd="lang", lang=case.get("lang", "python"), in_paths=[fmt(x) for x in case["inputs"]], dir=jobdir, force=case["force"],
               flags=case["flags"], export=[], keep_ws=True, markers=True, out=os.path.join(jobdir, "result.json"))
    if case["ws"] is not None:
        job["workspace"] = fmt(case["ws"])
    else:
        job["workspace"] = None
        job["no_w"] = True
    with open(os.path.join(jobdir, "job.json"), "w") as f:
        json.dump(job, f)
    env = dict(os.environ)
    env.update(PYTHONPATH=C.REPO_SRC + os.pathsep + HERE, PYTHONDONTWRITEBYTECODE="1", PYTHONHASHSEED="0",
               MPLCONFIGDIR=os.path.join(C.OUT, "mpl"), LIAN_VERIF_CWD=cwd)
    log = os.path.join(jobdir, "strace.log")
    t0 = time.time()
    status = "ok"
    try:
        subprocess.run(["strace", "-f", "-y", "-s", "4096", "-o", log, "-e", "trace=" + SYSCALLS, C.PY,
                        os.path.join(HERE, "lianrun.py"), os.path.join(jobdir, "job.json")],
                       env=env, cwd=cwd, stdout=subprocess.DEVNULL, stderr=subprocess.DEVNULL, timeout=120)
    except subprocess.TimeoutExpired:
        status = "TIMEOUT"
    wall = time.time() - t0
    res = {}
    if os.path.exists(job["out"]):
        with open(job["out"]) as f:
            res = json.load(f)
    post = snapshot(base)
    raw = parse_strace(log, cwd) if os.path.exists(log) else []
    allow = [os.path.join(C.OUT, "mpl"), "/dev/null", "/dev/tty", "/proc/"]
    events = []
    for op, p in raw:
        rp = resolve(p)
        if any(rp == a or rp.startswith(a.rstrip("/") + "/") or rp.startswith(a) and a.endswith("/") for a in allow):
            continue
        events.append({"op": op, "path": comps(rp, base)})
    # effective inputs: real paths
    inputs = [comps(os.path.realpath(os.path.join(cwd, fmt(x))), base) for x in case["inputs"]]
    ws_opt = fmt(case["ws"]) if case["ws"] is not None else DEFAULT
    ws_abs = os.path.normpath(os.path.join(cwd, ws_opt))
    ws_real = os.path.realpath(ws_abs) if os.path.lexists(ws_abs) else resolve(ws_abs)
    changed = []
    for rel, meta in pre.items():
        now = post.get(rel)
        if now is None:
            changed.append({"path": rel.split(os.sep), "how": "deleted", "kind": meta[0]})
        elif now[:2] != meta[:2]:
            changed.append({"path": rel.split(os.sep), "how": "modified", "kind": meta[0]})
    created = [{"path": rel.split(os.sep), "kind": post[rel][0]} for rel in post if rel not in pre]
    # which input files qualify for copying (extension rule), as relative paths under src/
    trace = {
        "name": case["name"], "force": case["force"], "exit": res.get("exit", status), "status": status,
        "ws_option": [{"n": c, "d": DEFAULT in c} for c in comps(ws_real, base)],
        "ws_option_has_default": DEFAULT in ws_opt,
        "inputs": inputs,
        "pre": [{"p": rel.split(os.sep), "k": pre[rel][0]} for rel in sorted(pre)],
        "events": events, "changed": changed, "created": created,
        "n_pre": len(pre), "n_post": len(post), "wall_s": round(wall, 2),
        "truncated": "__truncated__" in post, "copy_factor": 3 if "-I" in case["flags"] else 1,
        "console": (res.get("console", "") + res.get("stderr", ""))[-400:],
    }
    shutil.rmtree(base, ignore_errors=True)
    shutil.rmtree(jobdir, ignore_errors=True)
    return trace


def sig_of(v):
    return "%s:%s" % (v["clause"], v["name"])


def run(tier, seed):
    t0 = time.time()
    v = C.Verdict(PID)
    root = C.scratch("c18")
    # 1. design level
    mc_stats = []
    for cfg, neg in (("MC_Workspace.cfg", False), ("MC_Workspace_pinned1.cfg", True), ("MC_Workspace_pinned2.cfg", True)):
        r = C.tlc("Workspace", cfg, workers=8, timeout=1200, coverage=not neg)
        d = r.as_dict()
        d.update(cfg=cfg, negative_control=neg)
        if r.error:
            v.machinery_failure("TLC failed on Workspace/%s: %s" % (cfg, r.error[:800]))
        elif neg:
            d["violated_as_expected"] = r.violation is not None
            if r.violation is None:
                v.machinery_failure("negative control Workspace/%s not violated" % cfg)
        elif r.violation:
            v.machinery_failure("Workspace.tla violates its own invariants: %s" % r.violation[:1500])
        mc_stats.append(d)
    # 2. real runs under strace
    all_cases = cases()
    if tier == "quick":
        import random
        rng = random.Random(seed)
        core = [c for c in all_cases if c["force"]]
        rest = [c for c in all_cases if not c["force"]]
        all_cases = core + rng.sample(rest, 6)
    with cf.ThreadPoolExecutor(max_workers=C.NCPU) as ex:
        traces = list(ex.map(lambda c: run_case(c, root), all_cases))
    tf = os.path.join(root, "traces.json")
    with open(tf, "w") as f:
        json.dump({"traces": traces}, f)
    n_events = sum(len(t["events"]) for t in traces)
    r = C.tlc("WorkspaceTrace", "WorkspaceTrace.cfg", env={"TRACE_FILE": tf}, workers=1, timeout=1200)
    bad = []
    if r.error or r.violation:
        v.machinery_failure("trace validation failed to run: %s" % (r.error or r.violation)[:1500])
    else:
        for line in r.printed:
            bad.append(json.loads(line))
        expect = sum(len(t["events"]) + len(t["changed"]) + 2 for t in traces)
        if not bad and r.distinct != expect:
            v.machinery_failure("trace walk incomplete: %d states, expected %d" % (r.distinct, expect))
    by_name = {t["name"]: t for t in traces}
    for b in bad:
        t = by_name.get(b["name"], {})
        v.violation(sig_of(b), {"clause": b["clause"], "case": b["name"], "at": b.get("at"), "event": b.get("event"),
                                "console": t.get("console"), "exit": t.get("exit")})
    rc = v.finish()
    cov = {
        "states": r.distinct + sum(m["distinct"] for m in mc_stats),
        "transitions": r.generated + sum(m["generated"] for m in mc_stats),
        "traces_validated_against_impl": len(traces),
        "samples": [{"case": t["name"], "exit": t["exit"], "events": t["events"][:6], "n_events": len(t["events"])} for t in traces[:2]],
        "spec_level_runs": mc_stats, "fs_events": n_events, "cases": [t["name"] for t in traces],
        "exits": {t["name"]: t["exit"] for t in traces},
        "violating": len(bad), "known_findings_hit": {k: len(x) for k, x in v.hits.items()}, "repo": C.repo_head(),
        "exhaustive": tier == "thorough",
        "rule": "one trace = one placement materialised on disk and run under strace; every mutating system call and every difference "
                "between the before/after snapshots is an event judged by WorkspaceTrace",
    }
    C.write_evidence(PID, tier, seed, "model_checking", cov, time.time() - t0, violations=len(v.unlisted),
                     assumptions=["strace -f sees every file-system mutation of the process tree", "python language, `lang` sub-command",
                                  "interpreter-level caches (MPLCONFIGDIR) are allowlisted", "paths are tokenised and symlink-resolved by the harness"])
    print("C18: %d placements, %d fs events, %d TLC states, %d violating, %.1fs" % (len(traces), n_events, cov["states"], len(bad), time.time() - t0))
    shutil.rmtree(root, ignore_errors=True)
    return rc


def replay(path):
    with open(path) as f:
        doc = json.load(f)
    name = doc["replay"]["case"]
    case = [c for c in cases() if c["name"] == name][0]
    root = C.scratch("c18_replay")
    t = run_case(case, root)
    print(json.dumps({k: t[k] for k in ("name", "exit", "events", "changed", "console")}, indent=1)[:6000])
    tf = os.path.join(root, "traces.json")
    with open(tf, "w") as f:
        json.dump({"traces": [t]}, f)
    r = C.tlc("WorkspaceTrace", "WorkspaceTrace.cfg", env={"TRACE_FILE": tf}, workers=1)
    v = C.Verdict(PID)
    for line in r.printed:
        b = json.loads(line)
        v.violation(sig_of(b), b)
    return v.finish()
