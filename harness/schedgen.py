"""Parameterised adversarial program families for C13 (termination and polynomially bounded work).

family(n) -> {"files": {path: text}, "lang": "python", "flags": [...]}.  Every family is deterministic; n is the size parameter.
The same families double as call-graph inputs for C07 where they are executable.
"""

TAINT_SETTINGS = {
    "entry.yaml": "- method_list: [\"%unit_init\"]\n",
    "source.yaml": "- lang: python\n  rules:\n    - operation: call_stmt\n      name: source\n      tag: [\"%target\"]\n",
    "sink.yaml": "- lang: python\n  rules:\n    - operation: call_stmt\n      name: sink\n      target: [\\%arg0]\n      vuln_type: generic\n",
    "propagation.yaml": "[]\n",
}


def chain(n, k=2):
    """f0 -> f1 -> ... -> fn, every link called from k statements (k^n call paths)."""
    out = ["def f%d(a):\n    return a\n" % n]
    for i in range(n - 1, -1, -1):
        body = ["    r%d = f%d(a)" % (j, i + 1) for j in range(k)]
        out.append("def f%d(a):\n%s\n    return r0\n" % (i, "\n".join(body)))
    out.append("x = f0(1)\n")
    return {"main.py": "\n".join(out)}


def diamond(n):
    """n levels of two functions, each calling both functions of the next level (2^n paths)."""
    out = ["def a%d(x):\n    return x\n\ndef b%d(x):\n    return x\n" % (n, n)]
    for i in range(n - 1, -1, -1):
        for nm in ("a", "b"):
            out.append("def %s%d(x):\n    p = a%d(x)\n    q = b%d(p)\n    return q\n" % (nm, i, i + 1, i + 1))
    out.append("r = a0(1)\n")
    return {"main.py": "\n".join(out)}


def recursion(n):
    """n functions, each recursive on itself and calling the next (direct recursion at every level)."""
    out = []
    for i in range(n):
        nxt = "f%d(a - 1)" % (i + 1) if i + 1 < n else "a"
        out.append("def f%d(a):\n    if a > 0:\n        b = f%d(a - 1)\n        return b\n    c = %s\n    return c\n" % (i, i, nxt))
    out.append("x = f0(3)\n")
    return {"main.py": "\n".join(out)}


def mutual(n):
    """a ring of n mutually recursive functions, every function also calls the one two steps ahead."""
    n = max(n, 2)
    out = []
    for i in range(n):
        out.append("def g%d(a):\n    if a > 0:\n        b = g%d(a - 1)\n        c = g%d(b)\n        return c\n    return a\n" % (i, (i + 1) % n, (i + 2) % n))
    out.append("x = g0(2)\n")
    return {"main.py": "\n".join(out)}


def higher_order(n):
    """self-application and callbacks passed down n levels."""
    out = ["def selfapp(f, x):\n    return f(f, x)\n",
           "def twice(f, x):\n    y = f(x)\n    return f(y)\n"]
    for i in range(n):
        inner = "h%d(f, x)" % (i + 1) if i + 1 < n else "f(x)"
        out.append("def h%d(f, x):\n    a = twice(f, x)\n    b = %s\n    return b\n" % (i, inner))
    out.append("def ident(x):\n    return x\n")
    out.append("r1 = h0(ident, 1)\nr2 = selfapp(selfapp, 2)\nr3 = twice(twice, ident)\n")
    return {"main.py": "\n".join(out)}


def nested_loops(n):
    """n nested while loops around a statement that feeds back into every loop variable."""
    lines = ["def work(m):", "    t = 0"]
    ind = "    "
    for i in range(n):
        lines.append("%si%d = 0" % (ind, i))
        lines.append("%swhile i%d < m:" % (ind, i))
        ind += "    "
    lines.append("%st = t + 1" % ind)
    lines.append("%sif t > 5:" % ind)
    lines.append("%s    t = t - 1" % ind)
    for i in range(n - 1, -1, -1):
        lines.append("%si%d = i%d + t" % (ind, i, i))
        ind = ind[:-4]
    lines.append("    return t")
    lines.append("r = work(2)")
    return {"main.py": "\n".join(lines) + "\n"}


def cyclic_imports(n):
    """n modules in an import ring; each calls the next module's function at top level and from its own function."""
    n = max(n, 2)
    files = {}
    for i in range(n):
        j = (i + 1) % n
        files["m%d.py" % i] = ("from m%d import fn%d\n\ndef fn%d(a):\n    if a > 0:\n        return fn%d(a - 1)\n    return a\n\nv%d = fn%d(1)\n"
                               % (j, j, i, j, i, j))
    return files


def cyclic_objects(n):
    """a ring of n objects linked through .next, traversed by a loop and by a recursive function."""
    lines = ["class Node:", "    def __init__(self, v):", "        self.v = v", "        self.next = None", ""]
    for i in range(n):
        lines.append("n%d = Node(%d)" % (i, i))
    for i in range(n):
        lines.append("n%d.next = n%d" % (i, (i + 1) % n))
    lines += ["def walk(p, k):", "    if k > 0:", "        return walk(p.next, k - 1)", "    return p.v", "",
              "cur = n0", "s = 0", "while s < 10:", "    s = s + cur.v", "    cur = cur.next", "    cur.next.next = cur", "w = walk(n0, 5)"]
    return {"main.py": "\n".join(lines) + "\n"}


def self_containing(n):
    """containers stored into themselves and into one another by subscript assignments, appends and field writes made inside called functions."""
    lines = ["class Cell:", "    def __init__(self):", "        self.me = None", "",
             "def tie(box, slot):", "    box[slot] = box", "    return box", "",
             "def link(a, b):", "    a[0] = b", "    b[0] = a", "    return a", "",
             "def tie_field(o):", "    o.me = o", "    return o", "",
             "def tie_append(ls):", "    ls.append(ls)", "    return ls", "",
             "def tie_dict(d, k):", "    d[k] = d", "    return d", ""]
    for i in range(n):
        lines += ["l%d = [%d, 0]" % (i, i), "t%d = tie(l%d, 1)" % (i, i)]
    for i in range(n):
        lines.append("k%d = link(l%d, l%d)" % (i, i, (i + 1) % n))
    lines += ["c = Cell()", "cc = tie_field(c)", "ap = tie_append([1])", 'dd = tie_dict({"a": 1}, "k")',
              "u = t0[1]", "w = u[1]", "z = w[0]", "q = cc.me.me", "e = ap[1]", 'g = dd["k"]["k"]']
    return {"main.py": "\n".join(lines) + "\n"}


def binop_squaring(n):
    """a two-valued variable combined with itself n times: every level may at most add the new sums (n + 2 values), not square the number of states"""
    lines = ["def f(c):", "    if c:", "        a = 1", "    else:", "        a = 2", "    b0 = a"]
    for i in range(1, n + 1):
        lines.append("    b%d = b%d + b%d" % (i, i - 1, i - 1))
    lines += ["    return b%d" % n, "r = f(1)"]
    return {"main.py": "\n".join(lines) + "\n"}


def wide(n):
    """one function with n call statements to the same helper and n to a second one."""
    lines = ["def h(a):", "    return a", "def k(a):", "    b = h(a)", "    return b", "def top(a):"]
    for i in range(n):
        lines.append("    x%d = h(a)" % i)
        lines.append("    y%d = k(x%d)" % (i, i))
    lines += ["    return a", "r = top(1)"]
    return {"main.py": "\n".join(lines) + "\n"}


def empty_callees(n):
    """callees without any analysable statement (bodies of `pass`), called directly and through each other."""
    lines = []
    for i in range(n):
        lines += ["def e%d():" % i, "    pass", ""]
    lines += ["def top():"]
    for i in range(n):
        lines.append("    e%d()" % i)
    lines += ["    return 1", "r = top()"]
    return {"main.py": "\n".join(lines) + "\n"}


def taint_chain(n):
    """a tainted value copied through n variables, n fields and a loop that feeds every variable back into the first."""
    lines = ["class Box:", "    def __init__(self):", "        self.f = None", "", "def handler():", "    v0 = source()"]
    for i in range(1, n + 1):
        lines.append("    v%d = v%d" % (i, i - 1))
    lines.append("    b = Box()")
    lines.append("    k = 0")
    lines.append("    while k < 3:")
    for i in range(1, n + 1):
        lines.append("        v%d = v%d + v0" % (i, (i % n) + 1))
    lines.append("        b.f = v%d" % n)
    lines.append("        v0 = b.f")
    lines.append("        k = k + 1")
    lines.append("    sink(v%d)" % n)
    lines.append("    sink(b.f)")
    lines.append("handler()")
    return {"main.py": "\n".join(lines) + "\n"}


def contains_dag(n):
    """a chain of n diamonds in the contains-relation built by field writes: on each level a box allocated in either arm of a branch holds the
    same inner box; the outermost one reaches a sink (the sink check walks the inclusion graph: linear when every node is expanded once)."""
    lines = ["class Box:", "    def __init__(self):", "        self.item = None", "", "def handler(flag):", "    data = source()", "    cur = Box()", "    cur.item = data"]
    for k in range(n):
        lines += ["    if flag:", "        mid%d = Box()" % k, "    else:", "        mid%d = Box()" % k, "    mid%d.item = cur" % k, "    cur = Box()", "    cur.item = mid%d" % k]
    lines += ["    sink(cur)", "    return cur", "", "handler(1)"]
    return {"main.py": "\n".join(lines) + "\n"}


def nested_ctor_dag(n):
    """the same diamonds built by passing the inner object to a constructor / a list literal in the two arms: every call copies what its argument
    reaches, the two arms hold different copies, and the number of abstract states doubles per level (growth family: judged by state counts)."""
    lines = ["class Box:", "    def __init__(self, v):", "        self.v = v", "", "def handler(c):", "    t = source()", "    o0 = Box(t)"]
    for i in range(1, n + 1):
        lines += ["    if c:", "        o%d = Box(o%d)" % (i, i - 1), "    else:", "        o%d = [o%d, 1]" % (i, i - 1)]
    lines += ["    sink(o%d)" % n, "handler(1)"]
    return {"main.py": "\n".join(lines) + "\n"}


HOSTILE = [
    'a = \'a"+f()+"b\'\nc = a + "k"\n',
    'a = "x\\\\"\nb = a + "\\""\nc = b + a\n',
    "a = '+ - * / ** ( ) [ ] { }'\nb = a + a\n",
    'a = "__import__(\'os\').system(\'true\')"\nb = a + ""\nc = a * 2\n',
    "d = 9\ne = d ** 99999999\n",
    "d = 99999999\ne = 9 ** d\nf = e + 1\n",
    "d = 2\ne = d << 999999999\n",
    'a = "ab"\nb = a * 999999999\n',
    "d = 10\ne = d ** d ** d\n",
    'a = "9**9**9"\nb = a + "**9"\nc = b + b\n',
    'a = "1" + "2"\nb = a + "3"\n',
    'f = "%1500000000d"\ng = f % 1\n',
    'a = b"ab"\nb = a * 3000000000\n',
    'f = "%.999999999f"\ng = f % 1.5\nh = "%5d" % 3\n',
]


def hostile(n):
    """hostile literal constants; n selects one of the fixed programs."""
    return {"main.py": HOSTILE[n % len(HOSTILE)]}


# name -> (generator, needs taint settings, flags beyond --nomock)
FAMILIES = {
    "chain2": (lambda n: chain(n, 2), False),
    "chain3": (lambda n: chain(n, 3), False),
    "diamond": (diamond, False),
    "recursion": (recursion, False),
    "mutual": (mutual, False),
    "higher_order": (higher_order, False),
    "nested_loops": (nested_loops, False),
    "cyclic_imports": (cyclic_imports, False),
    "cyclic_objects": (cyclic_objects, False),
    "wide": (wide, False),
    "self_containing": (self_containing, False),
    "binop_squaring": (binop_squaring, False),
    "empty_callees": (empty_callees, False),
    "taint_chain": (taint_chain, True),
    "contains_dag": (contains_dag, True),
    "nested_ctor_dag": (nested_ctor_dag, True),
}
# families whose interesting sizes differ from the common sweep
SIZES = {"binop_squaring": {"quick": [2, 4], "thorough": [2, 3, 4]}, "self_containing": {"quick": [1, 3], "thorough": [1, 2, 3, 6]}, "contains_dag": {"quick": [4, 32], "thorough": [4, 16, 32, 48]}, "nested_ctor_dag": {"quick": [8, 12], "thorough": [8, 12, 14]},
         "mutual": {"quick": [2, 6, 10], "thorough": [2, 4, 6, 10, 12]}}
# growth families: the number of abstract states (rows of s2space_p3) at the largest size may be at most GROWTH_FACTOR x the number at the smallest one
# (sizes 8 -> 12: a cubic would give (12/8)^3 = 3.4; doubling per level gives 16)
GROWTH = {"nested_ctor_dag": 8, "mutual": 6, "binop_squaring": 16}    # binop_squaring 2 -> 4: the values grow from 3 to 5; 16x is generous       # mutual: sizes 6 -> 10 (12): a cubic gives 4.6 (8)
GROWTH_FROM = {"mutual": 6}       # the smallest size that takes part in the growth comparison
