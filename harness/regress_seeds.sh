#!/bin/sh
# usage: harness/regress_seeds.sh [pattern]     e.g. harness/regress_seeds.sh 'C1[5-9]-*'
# Re-runs every kept seeded change (seeded/<id>-<X>/patch.diff) against the check named in its meta.json (how_to_rerun), each in a
# scratch worktree of /repo (never /repo itself), and prints one line per change: rc=1 means the check reports it.
cd "$(dirname "$0")/.." || exit 2
pat="${1:-*}"
for d in seeded/$pat; do
    [ -f "$d/patch.diff" ] || continue
    chk=$(/venv/bin/python -c "import json,sys; t=json.load(open(sys.argv[1]))['how_to_rerun'].split(); print(t[[i for i,x in enumerate(t) if x.endswith('patch.diff')][0]+1])" "$d/meta.json" 2>/dev/null)
    [ -n "$chk" ] || chk=$(basename "$d" | cut -d- -f1)
    r=$(harness/try_mutation_wt.sh "$d/patch.diff" "$chk" 2>&1 | head -1)
    echo "$(basename "$d") -> $chk: $r"
done
