"""Loader recorder for C15 on real analyses (lianrun pre_hook/post_hook).  No source change in /repo.

At run time GeneralLoader.save / export / export_indexing are wrapped as class attributes: every save logs the loader object, the item id and a
digest of a canonical form of the content AS SAVED (taken before the call, so later in-place changes of the object do not count).  After the
run, for every loader object that saved something, a FRESH loader of the same class is built on the same bundle path, restore_indexing() is
called, and every id ever saved is read back; the digest of what comes back is logged as a get event.  The events of one loader object form
one history save* export* export_indexing restore get* that LoaderTrace.tla judges with the contract (every get returns the latest save).

config.MAX_ROWS is lowered (job["max_rows"]) so that real analyses produce multi-bundle output.
"""
import functools
import hashlib
import json
import math

# families whose reader gets back an object of the kind that was saved (the loader defines unflatten): judged at the object level as well
OBJECT_LEVEL = {"StmtStatusLoader", "SymbolStateSpaceLoader", "MethodSymbolToDefinedLoader", "MethodSymbolToUsedLoader", "MethodStateToDefinedLoader",
                "BitVectorManagerLoader", "CalleeParameterMapping", "SymbolNameToScopeIDsLoader", "ScopeIDToSymbolInfoLoader",
                "ScopeIDToAvailableScopeIDsLoader", "SymbolNameToDeclIDsLoader", "CFGLoader", "SymbolGraphLoader", "StateFlowGraphLoader",
                "ClassIDToMembersLoader"}
EVENTS = []          # (loader key, op, id key, digest)
LOADERS = {}         # id(obj) -> obj
STATE = {"on": True}


def canon(v, depth=0):
    """canonical, order-free, JSON-able form of loader contents"""
    if depth > 40:
        return "<deep>"
    if v is None:
        return None
    if isinstance(v, bool):
        return bool(v)
    if isinstance(v, int):
        return int(v)
    if isinstance(v, float):
        if math.isnan(v):
            return None
        if v == int(v) and abs(v) < 2 ** 53:
            return int(v)
        return v
    if isinstance(v, str):
        return v
    try:
        import numpy as np
        if isinstance(v, np.integer):
            return int(v)
        if isinstance(v, np.floating):
            return canon(float(v), depth)
        if isinstance(v, np.bool_):
            return bool(v)
        if isinstance(v, np.ndarray):
            return [canon(x, depth + 1) for x in v.tolist()]
    except ImportError:
        pass
    import enum
    if isinstance(v, enum.Enum):
        return canon(v.value, depth)
    if isinstance(v, (list, tuple)):
        return [canon(x, depth + 1) for x in v]
    if isinstance(v, (set, frozenset)):
        seen, out = set(), []
        for x in v:
            c = canon(x, depth + 1)
            k = json.dumps(c, sort_keys=True, default=str)
            if k not in seen:           # elements that differ only in the number type (int / numpy int) are one element for every reader
                seen.add(k)
                out.append((k, c))
        return {"<set>": [c for k, c in sorted(out, key=lambda t: t[0])]}
    if isinstance(v, dict):
        return {"<dict>": sorted(([canon(k, depth + 1), canon(x, depth + 1)] for k, x in v.items()), key=lambda x: json.dumps(x, sort_keys=True, default=str))}
    tn = type(v).__name__
    if tn == "Row" and hasattr(v, "_schema") and hasattr(v, "_row"):
        # a reader's view of one table row: the physical layout (column positions, row position) depends on the bundle it came from
        try:
            return {"<row>": {str(k): canon(v._row[i], depth + 1) for k, i in sorted(v._schema.items()) if canon(v._row[i], depth + 1) is not None}}
        except Exception:  # noqa
            return {"<row>": "unreadable"}
    if tn == "DataModel":
        try:
            return {"<table>": rows_canon(v)}
        except Exception:  # noqa
            return {"<table>": "unreadable"}
    try:
        import networkx as nx
        if isinstance(v, nx.Graph):
            return {"<graph>": "graph", "nodes": canon(set(v.nodes), depth + 1),
                    "edges": sorted(([canon(a, depth + 1), canon(b, depth + 1), canon(dict(d), depth + 1)] for a, b, d in v.edges(data=True)),
                                    key=lambda x: json.dumps(x, sort_keys=True, default=str))}
    except ImportError:
        pass
    d = getattr(v, "__dict__", None)
    if d is None and hasattr(v, "__slots__"):
        d = {k: getattr(v, k, None) for k in v.__slots__}
    if d is not None:
        return {"<obj>": tn, "f": {str(k): canon(x, depth + 1) for k, x in sorted(d.items()) if not str(k).startswith("_cache")}}
    return "<%s>%s" % (tn, v)


def rows_canon(rows, schema=None):
    """storage level: the flattened rows of an item, null fields dropped, in canonical order"""
    out = []
    if rows is None:
        return out
    if type(rows).__name__ == "DataModel":
        rows = rows._data.to_dict("records")
    for r in rows:
        if isinstance(r, (list, tuple)) and schema and len(schema) == len(r):
            r = dict(zip(schema, r))        # positional rows (CFG edges) under the loader's schema
        if not isinstance(r, dict):
            r = getattr(r, "__dict__", {"<value>": r})
        c = {str(k): canon(x) for k, x in r.items()}
        out.append({k: x for k, x in c.items() if x is not None and x != [] and k != "index"})
    out.sort(key=lambda x: json.dumps(x, sort_keys=True, default=str))
    return out


def rows_digest(rows, schema=None):
    c = rows_canon(rows, schema)
    return ("0" if not c else hashlib.md5(json.dumps(c, sort_keys=True, default=str).encode()).hexdigest()[:12]), c


def rows_digest_numeric_text(c):
    """the digest of canonical rows with the text of integral floats ('367.0') read as the integer ('367')"""
    import re
    text = re.sub(r'"(-?\d+)\.0"', r'"\1"', json.dumps(c, sort_keys=True, default=str))
    return "0" if not c else hashlib.md5(text.encode()).hexdigest()[:12]


def digest(v):
    c = canon(v)
    text = json.dumps(c, sort_keys=True, default=str)
    return hashlib.md5(text.encode()).hexdigest()[:12], c


def empty(c):
    """None, [] and structures without content are the same for every reader"""
    if c is None or c == [] or c == {"<table>": []} or c == {"<dict>": []} or c == {"<set>": []} or c == {"<graph>": "graph", "nodes": {"<set>": []}, "edges": []}:
        return True
    return False


def idkey(i):
    return json.dumps(canon(i), sort_keys=True, default=str)


def install(M, job):
    from lian.config import config
    from lian.util import loader as L
    if job.get("max_rows"):
        config.MAX_ROWS = int(job["max_rows"])
    for k in ("LRU_CACHE_CAPACITY", "BUNDLE_CACHE_CAPACITY", "MIN_CACHE_CAPACITY", "MEDIUM_CACHE_CAPACITY", "GIR_CACHE_CAPACITY", "MAX_STMT_CACHE_CAPACITY"):
        if job.get(k) is not None:
            setattr(config, k, int(job[k]))
    STATE["record"] = bool(job.get("record", True))
    G = L.GeneralLoader
    o_save, o_export, o_exidx = G.save, G.export, G.export_indexing

    @functools.wraps(o_save)
    def save(self, _id, item_content):
        if STATE["on"]:
            try:
                dg, c = digest(item_content)
                LOADERS[id(self)] = self
                try:
                    rd, rc = rows_digest(self.flatten_item_when_saving(_id, item_content), self.item_schema)
                    rdn = rows_digest_numeric_text(rc)
                except Exception as e:  # noqa
                    rd, rc, rdn = "flatten_failed:%s" % type(e).__name__, None, None
                EVENTS.append((id(self), "save", _id, "0" if empty(c) else dg, c if job.get("keep_contents") else None, rd, rc if job.get("keep_contents") else None, rdn))
            except Exception as e:  # noqa
                EVENTS.append((id(self), "save", _id, "canon_failed:%s" % type(e).__name__))
        return o_save(self, _id, item_content)

    def wrap_plain(orig, name):
        @functools.wraps(orig)
        def f(self, *a, **k):
            r = orig(self, *a, **k)
            if STATE["on"] and id(self) in LOADERS:
                EVENTS.append((id(self), name, None, None))
            return r
        return f
    G.save = save
    o_get = G.get_item_by_id

    @functools.wraps(o_get)
    def get_item_by_id(self, _id):
        r = o_get(self, _id)
        if STATE["on"] and job.get("log_gets") and id(self) in LOADERS and type(self).__name__ in OBJECT_LEVEL:
            try:
                dg, c = digest(r)
                EVENTS.append((id(self), "get", _id, "0" if empty(c) else dg))
            except Exception as e:  # noqa
                EVENTS.append((id(self), "get", _id, "canon_failed:%s" % type(e).__name__))
        return r
    G.get_item_by_id = get_item_by_id
    # subclasses that override export / export_indexing are wrapped where they define them
    for cls in [G] + [c for c in vars(L).values() if isinstance(c, type) and issubclass(c, G) and c is not G]:
        if "export" in vars(cls):
            cls.export = wrap_plain(vars(cls)["export"], "export")
        if "export_indexing" in vars(cls):
            cls.export_indexing = wrap_plain(vars(cls)["export_indexing"], "export_indexing")
        if "save" in vars(cls) and cls is not G:
            pass        # a subclass save() ends in GeneralLoader.save or does not belong to the bundle machinery


def tables(ws):
    """every table of the workspace, bundles of one stem united, rows in canonical order: what must not depend on row limits and cache sizes"""
    import os
    import pandas as pd
    out = {}
    for sub in ("frontend", "semantic_p1", "semantic_p2", "semantic_p3"):
        d = os.path.join(ws, sub)
        if not os.path.isdir(d):
            continue
        stems = {}
        for fn in sorted(os.listdir(d)):
            if fn.endswith(".indexing") or os.path.isdir(os.path.join(d, fn)):
                continue
            stem = fn.split(".bundle")[0]
            stems.setdefault(stem, []).append(fn)
        for stem, fns in stems.items():
            rows, err = [], ""
            for fn in fns:
                try:
                    df = pd.read_feather(os.path.join(d, fn))
                    cols = list(df.columns)
                    for rec in df.itertuples(index=False, name=None):
                        rows.append(json.dumps(canon(dict(zip(cols, rec))), sort_keys=True, default=str))
                except Exception as e:  # noqa
                    err = "%s:%s" % (fn, type(e).__name__)
            rows.sort()
            out["%s/%s" % (sub, stem)] = {"n": len(rows), "d": hashlib.md5("\n".join(rows).encode()).hexdigest()[:12], "err": err,
                                           "rows": rows if len(rows) <= 400 else None}
    return out


def collect(lian, job):
    """fresh loaders on the same paths; read everything back"""
    import contextlib
    import io
    STATE["on"] = False
    out = []
    if job.get("tables"):
        import os
        ws = job.get("workspace") or os.path.join(job["dir"], "ws")
        if "lian_workspace" not in ws:
            ws = os.path.join(ws, "lian_workspace")
        return {"tables": tables(ws)}
    for key, ld in LOADERS.items():
        evs = [e for e in EVENTS if e[0] == key]
        ids = []
        for e in evs:
            if e[1] == "save" and e[2] not in ids:
                ids.append(e[2])
        hist = [{"op": e[1], "id": idkey(e[2]) if e[1] in ("save", "get") else None, "d": e[3], "c": e[4] if len(e) > 4 else None,
                 "rd": e[5] if len(e) > 5 else None, "rc": e[6] if len(e) > 6 else None, "rdn": e[7] if len(e) > 7 else None} for e in evs]
        rec = {"cls": type(ld).__name__, "path": ld.bundle_path_summary, "hist": hist, "gets": [], "error": ""}
        try:
            with contextlib.redirect_stdout(io.StringIO()), contextlib.redirect_stderr(io.StringIO()):
                fresh = type(ld)(ld.options, ld.item_schema, ld.bundle_path_summary, ld.item_cache.capacity if hasattr(ld.item_cache, "capacity") else 10,
                                 ld.bundle_cache.capacity if hasattr(ld.bundle_cache, "capacity") else 10)
                fresh.restore_indexing()
                for i in ids:
                    crash, rd, rc = "", None, None
                    try:
                        got = fresh.get_item_by_id(i)
                        dg, c = digest(got)
                        if empty(c):
                            dg = "0"
                        rd, rc = rows_digest(fresh.get_raw_item_by_id(i))
                    except BaseException as e:  # noqa
                        import traceback
                        dg, crash, c = "crash", type(e).__name__ + ": " + traceback.format_exc()[-600:], None
                    rec["gets"].append({"id": idkey(i), "d": dg, "crash": crash, "got": c if job.get("keep_contents") else None, "rd": rd,
                                        "rc": rc if job.get("keep_contents") else None})
        except BaseException as e:  # noqa
            rec["error"] = "%s: %s" % (type(e).__name__, e)
        out.append(rec)
    return {"loaders": out, "max_rows": job.get("max_rows")}
