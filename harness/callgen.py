"""Call-graph programs for C07: call kind x calling context (python, single- and multi-file).

Every program is executable by GIRMachine (deterministic, or branching only on choice()).  A program is
{"name", "files": {path: text}, "main": file whose %unit_init starts the execution, "start": "" | method name (configured entry)}.
"""

LEAF = "def leaf(a):\n    return a\n\ndef tgt(a):\n    b = leaf(a)\n    return b\n\ndef other(a):\n    return a\n\n"
CLS_K = "class K:\n    def __init__(self, v):\n        self.v = v\n\n    def m(self, x):\n        y = tgt(x)\n        return y\n\n"
CLS_ABC = ("class A:\n    def __init__(self, v):\n        self.v = v\n\n    def m(self, x):\n        y = tgt(x)\n        return y\n\n"
           "class B(A):\n    def extra(self, x):\n        return x\n\n"
           "class C(B):\n    def n(self, x):\n        z = self.m(x)\n        return z\n\n")

# kind -> (definitions, setup lines, call expression, extra files)
KINDS = {
    "direct": (LEAF, [], "tgt(1)", {}),
    "ctor": (LEAF + CLS_K, [], "K(1)", {}),
    "method": (LEAF + CLS_K, ["o = K(1)"], "o.m(2)", {}),
    "inherited2": (LEAF + CLS_ABC, ["o = B(1)"], "o.m(2)", {}),
    "inherited3": (LEAF + CLS_ABC, ["o = C(1)"], "o.m(2)", {}),
    "inherited_ctor3": (LEAF + CLS_ABC, [], "C(1)", {}),
    "self_call_inherited": (LEAF + CLS_ABC, ["o = C(1)"], "o.n(2)", {}),
    "override": (LEAF + CLS_ABC + "class D(A):\n    def m(self, x):\n        w = other(x)\n        return w\n\n", ["o = D(1)"], "o.m(2)", {}),
    "callback": (LEAF + "def apply(g, x):\n    r = g(x)\n    return r\n\n", [], "apply(tgt, 1)", {}),
    "callback_twice": (LEAF + "def apply(g, x):\n    r = g(x)\n    return r\n\ndef apply2(g, x):\n    s = apply(g, x)\n    return s\n\n", [], "apply2(tgt, 1)", {}),
    "returned": (LEAF + "def mk():\n    return tgt\n\n", ["h = mk()"], "h(1)", {}),
    "field_stored": (LEAF + CLS_K, ["o = K(1)", "o.cb = tgt"], "o.cb(1)", {}),
    "list_stored": (LEAF, ["fs = [other, tgt]"], "fs[1](1)", {}),
    "dict_stored": (LEAF, ['d = {"k": tgt}'], 'd["k"](1)', {}),
    "assigned": (LEAF, ["g = tgt"], "g(1)", {}),
    "closure": (LEAF + "def outer():\n    def inner(a):\n        c = tgt(a)\n        return c\n    return inner\n\n", ["h = outer()"], "h(1)", {}),
    "nested_def": (LEAF + "def outer(a):\n    def inner(b):\n        c = tgt(b)\n        return c\n    d = inner(a)\n    return d\n\n", [], "outer(1)", {}),
    "method_returns_call": (LEAF + "class K:\n    def __init__(self, v):\n        self.v = v\n\n    def m(self, x):\n        return tgt(x)\n\n", ["o = K(1)"], "o.m(2)", {}),
    # keyword arguments written in another order than the alphabetical one, one of them a function the callee calls
    "callback_keywords": (LEAF + "def retry(times, action, arg):\n    r = action(arg)\n    return r\n\n", [], "retry(times=3, action=tgt, arg=4)", {}),
    "callback_keywords_mixed": (LEAF + "def retry(times, action, arg):\n    r = action(arg)\n    return r\n\n", [], "retry(3, arg=4, action=tgt)", {}),
    # a file inside a package that imports through the package-qualified absolute path
    "package_import": ("from shop.core.pricing import tgt\n\ndef other(a):\n    return a\n\n", [], "tgt(1)", {"shop/core/pricing.py": LEAF}, "shop/api/orders.py"),
    "cross_module": ("from lib import tgt\n\ndef other(a):\n    return a\n\n", [], "tgt(1)", {"lib.py": LEAF}),
    "cross_module_alias": ("from lib import tgt as t2\n\ndef other(a):\n    return a\n\n", [], "t2(1)", {"lib.py": LEAF}),
    "cross_module_class": ("from lib import K\n\ndef other(a):\n    return a\n\n", ["o = K(1)"], "o.m(2)", {"lib.py": LEAF + CLS_K}),
    "cross_module_chain": ("from mid import via\n\ndef other(a):\n    return a\n\n", [], "via(1)", {"mid.py": "from lib import tgt\n\ndef via(a):\n    e = tgt(a)\n    return e\n", "lib.py": LEAF}),
    "cross_module_inherited": ("from lib import A\n\ndef other(a):\n    return a\n\nclass E(A):\n    def p(self, x):\n        return x\n\n", ["o = E(1)"], "o.m(2)", {"lib.py": LEAF + CLS_ABC}),
}


def ctx_top(setup, call):
    return setup + ["r = " + call], ""


def ctx_function(setup, call):
    body = ["def main():"] + ["    " + s for s in setup] + ["    r = " + call, "    return r", "", "main()"]
    return body, ""


def ctx_entry(setup, call):
    body = ["def main():"] + ["    " + s for s in setup] + ["    r = " + call, "    return r"]
    return body, "main"


def ctx_branch(setup, call):
    return setup + ["if choice():", "    r = " + call, "else:", "    r = other(5)"], ""


def ctx_loop(setup, call):
    return setup + ["for i in range(2):", "    r = " + call, "k = 0", "while k < 2:", "    q = other(k)", "    k = k + 1"], ""


def ctx_recursive(setup, call):
    body = ["def rec(n):"] + ["    " + s for s in setup] + ["    if n > 0:", "        s = rec(n - 1)", "        return s", "    r = " + call, "    return r", "", "rec(2)"]
    return body, ""


def ctx_mutual(setup, call):
    body = ["def ping(n):", "    if n > 0:", "        s = pong(n - 1)", "        return s", "    return n", "", "def pong(n):"] + ["    " + s for s in setup] + \
           ["    r = " + call, "    t = ping(n)", "    return t", "", "ping(2)"]
    return body, ""


def ctx_two_sites(setup, call):
    return setup + ["r1 = " + call, "r2 = " + call, "r3 = other(3)", "r4 = other(4)", "r5 = other(5)", "r6 = other(6)"], ""


CONTEXTS = {"top": ctx_top, "function": ctx_function, "entry": ctx_entry, "branch": ctx_branch, "loop": ctx_loop, "recursive": ctx_recursive,
            "mutual": ctx_mutual, "two_sites": ctx_two_sites}


def program(kind, ctx):
    defs, setup, call, extra = KINDS[kind][:4]
    main = KINDS[kind][4] if len(KINDS[kind]) > 4 else "main.py"
    body, start = CONTEXTS[ctx](list(setup), call)
    files = dict(extra)
    files[main] = defs + "\n".join(body) + "\n"
    return {"name": "%s__%s" % (kind, ctx), "files": files, "main": main.rsplit("/", 1)[-1], "start": start, "kind": kind, "ctx": ctx}


# ------------------------------------------------------------------------------------------ javascript
JS_LEAF = "function leaf(a) {\n    return a;\n}\nfunction tgt(a) {\n    var b = leaf(a);\n    return b;\n}\nfunction other(a) {\n    return a;\n}\n"
JS_K = "class K {\n    constructor(v) {\n        this.v = v;\n    }\n    m(x) {\n        var y = tgt(x);\n        return y;\n    }\n}\n"
JS_ABC = ("class A {\n    constructor(v) {\n        this.v = v;\n    }\n    m(x) {\n        var y = tgt(x);\n        return y;\n    }\n}\n"
          "class B extends A {\n    extra(x) {\n        return x;\n    }\n}\n"
          "class C extends B {\n    n(x) {\n        var z = this.m(x);\n        return z;\n    }\n}\n")
JS_KINDS = {
    "direct": (JS_LEAF, [], "tgt(1)"),
    "ctor": (JS_LEAF + JS_K, [], "new K(1)"),
    "method": (JS_LEAF + JS_K, ["var o = new K(1);"], "o.m(2)"),
    "inherited2": (JS_LEAF + JS_ABC, ["var o = new B(1);"], "o.m(2)"),
    "inherited3": (JS_LEAF + JS_ABC, ["var o = new C(1);"], "o.m(2)"),
    "self_call_inherited": (JS_LEAF + JS_ABC, ["var o = new C(1);"], "o.n(2)"),
    "override": (JS_LEAF + JS_ABC + "class D extends A {\n    m(x) {\n        var w = other(x);\n        return w;\n    }\n}\n", ["var o = new D(1);"], "o.m(2)"),
    "callback": (JS_LEAF + "function apply(g, x) {\n    var r = g(x);\n    return r;\n}\n", [], "apply(tgt, 1)"),
    "returned": (JS_LEAF + "function mk() {\n    return tgt;\n}\n", ["var h = mk();"], "h(1)"),
    "field_stored": (JS_LEAF + JS_K, ["var o = new K(1);", "o.cb = tgt;"], "o.cb(1)"),
    "list_stored": (JS_LEAF, ["var fs = [other, tgt];"], "fs[1](1)"),
    "assigned": (JS_LEAF, ["var g = tgt;"], "g(1)"),
    "closure": (JS_LEAF + "function outer() {\n    function inner(a) {\n        var c = tgt(a);\n        return c;\n    }\n    return inner;\n}\n", ["var h = outer();"], "h(1)"),
    "nested_def": (JS_LEAF + "function outer(a) {\n    function inner(b) {\n        var c = tgt(b);\n        return c;\n    }\n    var d = inner(a);\n    return d;\n}\n", [], "outer(1)"),
}


def js_ctx_top(setup, call):
    return setup + ["var r = " + call + ";"]


def js_ctx_function(setup, call):
    return ["function main() {"] + ["    " + x for x in setup] + ["    var r = " + call + ";", "    return r;", "}", "main();"]


def js_ctx_branch(setup, call):
    return setup + ["var r = null;", "if (choice()) {", "    r = " + call + ";", "} else {", "    r = other(5);", "}"]


def js_ctx_loop(setup, call):
    return setup + ["var r = null;", "for (var i = 0; i < 2; i++) {", "    r = " + call + ";", "}"]


def js_ctx_two_sites(setup, call):
    return setup + ["var r1 = " + call + ";", "var r2 = " + call + ";", "var r3 = other(3);"]


JS_CONTEXTS = {"top": js_ctx_top, "function": js_ctx_function, "branch": js_ctx_branch, "loop": js_ctx_loop, "two_sites": js_ctx_two_sites}


def js_program(kind, ctx):
    defs, setup, call = JS_KINDS[kind]
    body = JS_CONTEXTS[ctx](list(setup), call)
    return {"name": "js_%s__%s" % (kind, ctx), "files": {"main.js": defs + "\n".join(body) + "\n"}, "main": "main.js", "start": "", "kind": "js_" + kind, "ctx": ctx,
            "lang": "javascript"}


def multi_entry(n):
    """n modules with top-level code (n entry points) whose call chains converge on one call site three levels down."""
    lib = "def deep(a):\n    return a\n\ndef helper(a):\n    b = deep(a)\n    return b\n\ndef run(a):\n    c = helper(a)\n    return c\n"
    files = {"lib.py": lib}
    for i in range(1, n + 1):
        files["m%d.py" % i] = "from lib import run\n\nv%d = run(%d)\n" % (i, i)
    return {"name": "multi_entry%d__top" % n, "files": files, "main": "m1.py", "mains": ["m%d.py" % i for i in range(1, n + 1)], "start": "",
            "kind": "multi_entry%d" % n, "ctx": "top"}


def universe(tier, seed):
    import random
    alls = [program(k, c) for k in KINDS for c in CONTEXTS]
    multi = [multi_entry(3), multi_entry(5)]
    js = [js_program(k, c) for k in JS_KINDS for c in JS_CONTEXTS]
    if tier == "thorough":
        return alls + multi + js
    multi = multi + [p for p in js if p["ctx"] in ("top", "branch")]
    core = [p for p in alls if p["ctx"] in ("top", "function") or (p["kind"] in ("direct", "method", "callback") and p["ctx"] != "top")]
    rest = [p for p in alls if p not in core]
    return core + multi + random.Random(seed).sample(rest, 30)
