"""C13 — analysis terminates within bounded (polynomial) work on every program.

1. Scheduler.tla (design): TLC proves, for every call graph of a small size (callee sets of all call statements chosen in Init)
   and every visiting order, that the top-down scheduler terminates (liveness under weak fairness) and that frame pushes,
   interruptions, decisions and the stack depth stay inside explicit bounds in the number of call sites.
2. SchedulerTrace.tla (binding): real lian runs on parameterised adversarial families are recorded by harness/schedtrace.py
   (run-time wrapping of the schedulers' linearisation points) and every run is walked by TLC: the bounds of (1), instantiated with
   the run's own iteration constants, must hold at every event (verdict); the decision at every call statement must be the one
   Scheduler's cut-off rule computes from the modelled path store / counter / frame (conformance, reported as drift).
3. A run that exceeds its event budget or its (generous) wall-clock budget diverges.
"""
import concurrent.futures as cf
import json
import os
import shutil
import time

import common as C
import schedgen as SG

PID = "C13"
KEEP = {"push", "popf", "init", "addpath", "dpre", "decide", "enter", "leave", "proc", "tstart", "tpop", "tend", "truncated"}
SLACK = 2          # the bounds are evaluated with this factor; the design bound itself is proved with factor 1
MC_QUICK = [(2, 1, 2, 2, 2), (3, 1, 1, 2, 2)]
MC_THOROUGH = MC_QUICK + [(2, 2, 1, 1, 1), (2, 1, 2, 3, 3), (3, 1, 2, 1, 1)]
INVS = ["PushBound", "InterruptBound", "DecideBound", "DepthBound", "Antichain", "CounterDomain", "CycleCut"]
SETTINGS_PLAIN = {"entry.yaml": "- method_list: [\"%unit_init\"]\n", "source.yaml": "[]\n", "sink.yaml": "[]\n", "propagation.yaml": "[]\n"}


def model_check(tier, root, v):
    """spec |= bounds and termination, at small constants."""
    out = []
    cfgs = MC_QUICK if tier == "quick" else MC_THOROUGH

    def one(k):
        nm, ns, mc, mr, cs = k
        cfg = os.path.join(root, "MC_Scheduler_%d%d%d%d%d.cfg" % k)
        C.write_cfg(cfg, constants={"NM": nm, "NS": ns, "MaxCallees": mc, "MaxRound": mr, "MaxCS": cs}, spec="Spec",
                    invariants=INVS, properties=["Terminates"])
        return k, C.tlc("Scheduler", cfg, name="c13_mc_%d%d%d%d%d" % k, workers=4, timeout=3000, heap="6g")
    with cf.ThreadPoolExecutor(max_workers=4) as ex:
        for k, r in ex.map(one, cfgs):
            if not r.ok:
                if r.violation:
                    v.violation("design:%s" % "_".join(map(str, k)), {"config": k, "tlc": r.violation[:3000]})
                else:
                    v.machinery_failure("Scheduler.tla %s: %s" % (k, (r.error or "")[:1500]))
            out.append({"NM": k[0], "NS": k[1], "MaxCallees": k[2], "MaxRound": k[3], "MaxCS": k[4], **r.as_dict()})
    return out


def universe(tier, seed):
    """(family, n, p2) triples: a fixed family, the tier decides how far n is swept."""
    sizes = [1, 2, 4, 8] if tier == "quick" else [1, 2, 3, 4, 6, 8, 12, 16]
    out = []
    for fam in SG.FAMILIES:
        for n in (SG.SIZES.get(fam, {}).get(tier) or sizes):
            if fam in ("chain3", "diamond") and n > 10:
                continue
            for p2 in (False, True):
                if tier == "quick" and p2 and n not in (2, 8):
                    continue
                out.append((fam, n, p2))
    for k in range(len(SG.HOSTILE)):
        out.append(("hostile", k, False))
        if tier == "thorough":
            out.append(("hostile", k, True))
    return out


def build(uni, root, tier):
    jobs = []
    for i, (fam, n, p2) in enumerate(uni):
        if fam == "hostile":
            files, taint = SG.hostile(n), False
        else:
            gen, taint = SG.FAMILIES[fam]
            files = gen(n)
        size = sum(t.count("\n") for t in files.values())
        jobs.append(dict(cmd="run", lang="python", files=files, dir=os.path.join(root, "r%04d" % i),
                         settings=SG.TAINT_SETTINGS if taint else SETTINGS_PLAIN, flags=["--nomock"] + (["--enable-p2"] if p2 else []),
                         export=[], pre_hook="schedtrace", post_hook="schedtrace", post_always=True,
                         trace_limit=4000 + 600 * size, timeout=150 if tier == "quick" else 400,
                         _fam=fam, _n=n, _p2=p2, _size=size))
    return jobs


def slim(ev):
    e = ev["e"]
    if e == "push":
        return {k: ev[k] for k in ("e", "f", "m", "caller", "cs", "meta")}
    if e == "popf":
        return {"e": e, "f": ev["f"]}
    if e == "init":
        return {k: ev[k] for k in ("e", "f", "ok", "path")}
    if e == "addpath":
        return {k: ev[k] for k in ("e", "path", "ok", "n")}
    if e in ("dpre",):
        return {k: ev[k] for k in ("e", "f", "m", "s", "pre")}
    if e == "decide":
        return {k: ev[k] for k in ("e", "f", "m", "s", "sched")}
    if e == "enter":
        return {k: ev[k] for k in ("e", "f", "nstmts", "maxround", "phase")}
    if e == "leave":
        return {k: ev[k] for k in ("e", "f", "intr")}
    if e == "proc":
        return {k: ev[k] for k in ("e", "f", "cnt")}
    if e == "tstart":
        return {k: ev[k] for k in ("e", "nodes", "edges")}
    return {"e": e}


def wl_slim(ev):
    e = ev["e"]
    if e == "enter":
        return {"e": e, "f": ev["f"], "first": bool(ev.get("first")), "wl": ev.get("wlist", []), "prio": ev.get("prio", [])}
    if e == "peek":
        return {"e": e, "f": ev["f"], "s": ev["s"]}
    if e == "add":
        return {"e": e, "f": ev["f"], "new": ev["new"], "wl": ev.get("wlist", [])}
    if e in ("tstart", "tend"):
        return {"e": e}
    if e == "tenq":
        return {"e": e, "n": ev["n"], "fresh": bool(ev["fresh"])}
    if e == "tpop":
        return {"e": e, "n": ev["n"]}
    return {"e": e, "f": ev["f"], "s": ev["s"], "wl": ev.get("wlist", [])}


def worklist_design(root, v):
    """StmtWorklist.tla on the loop CFG: bounds and termination hold for the code as pinned, PopRemovesProcessed is violated by it
    (negative control: the model has to exhibit the defect recorded as C06-F1) and holds for the repaired variant."""
    out = []
    for cfg, must_hold in (("MC_StmtWorklist_pinned.cfg", True), ("MC_StmtWorklist_repaired.cfg", True), ("MC_StmtWorklist_negative.cfg", False)):
        r = C.tlc("MC_StmtWorklist", cfg, name="c13_" + cfg[:-4], workers=2, timeout=600)
        if must_hold and not r.ok:
            v.machinery_failure("StmtWorklist.tla %s: %s" % (cfg, (r.violation or r.error or "")[:800]))
        if not must_hold and not (r.violation and "PopRemovesProcessed" in r.violation):
            v.machinery_failure("negative control: StmtWorklist.tla with the pinned pop(0) no longer violates PopRemovesProcessed")
        out.append({"config": cfg, "ok": r.ok, "distinct": r.distinct, "expected": "holds" if must_hold else "PopRemovesProcessed violated (negative control)"})
    return out


def run_worklist_traces(wcases, root, v):
    files, cur, cnt = [], [], 0
    for c in wcases:
        cur.append(c)
        cnt += len(c["events"])
        if cnt > 40000:
            files.append(cur)
            cur, cnt = [], 0
    if cur:
        files.append(cur)
    paths = []
    for k, chunk in enumerate(files):
        p = os.path.join(root, "wl_%03d.json" % k)
        with open(p, "w") as f:
            json.dump({"cases": chunk}, f)
        paths.append(p)
    cfg = os.path.join(root, "WorklistTrace.cfg")
    C.write_cfg(cfg, spec="Spec", constraints=["ReportConstraint"])

    def one(p):
        return p, C.tlc("WorklistTrace", cfg, name="c13w_" + os.path.basename(p), env={"CASES": p}, workers=2, timeout=3000, heap="6g")
    tot = dict(states=0, ops=0, verdicts=[])
    with cf.ThreadPoolExecutor(max_workers=6) as ex:
        for p, r in ex.map(one, paths):
            if r.error or r.violation:
                v.machinery_failure("WorklistTrace failed on %s: %s" % (p, (r.error or r.violation)[:2000]))
                continue
            tot["states"] += r.distinct
            tot["verdicts"] += [json.loads(x) for x in r.printed]
    tot["ops"] = sum(x["ops"] for x in tot["verdicts"])
    return tot


def run_tlc(cases, root, v):
    files, cur, cnt = [], [], 0
    for c in cases:
        cur.append(c)
        cnt += len(c["events"])
        if cnt > 60000:
            files.append(cur)
            cur, cnt = [], 0
    if cur:
        files.append(cur)
    paths = []
    for k, chunk in enumerate(files):
        p = os.path.join(root, "traces_%03d.json" % k)
        with open(p, "w") as f:
            json.dump({"cases": chunk}, f)
        paths.append(p)
    cfg = os.path.join(root, "SchedulerTrace.cfg")
    C.write_cfg(cfg, spec="Spec", constraints=["ReportConstraint"])

    def one(p):
        return p, C.tlc("SchedulerTrace", cfg, name="c13_" + os.path.basename(p), env={"CASES": p}, workers=2, timeout=3000, heap="6g")
    tot = dict(states=0, transitions=0, verdicts=[])
    with cf.ThreadPoolExecutor(max_workers=6) as ex:
        for p, r in ex.map(one, paths):
            if r.error or r.violation:
                v.machinery_failure("SchedulerTrace failed on %s: %s" % (p, (r.error or r.violation)[:2500]))
                continue
            tot["states"] += r.distinct
            tot["transitions"] += r.generated
            tot["verdicts"] += [json.loads(x) for x in r.printed]
    return tot


MAX_RSS_KB = 1500000


def run(tier, seed):
    t0 = time.time()
    v = C.Verdict(PID)
    root = C.scratch("c13")
    mc = model_check(tier, root, v)
    uni = universe(tier, seed)
    jobs = build(uni, root, tier)
    res = C.lian_batch(jobs, parallel=12)
    cases, stats, crashes, wcases = [], [], 0, []
    for job, r in zip(jobs, res):
        name = "%s:n=%d:%s" % (job["_fam"], job["_n"], "p2" if job["_p2"] else "p3")
        tag = "%s:%s" % (job["_fam"] if job["_fam"] != "hostile" else "hostile_%d" % job["_n"], "p2" if job["_p2"] else "p3")
        src = job["files"]
        if r["exit"] == "TIMEOUT":
            v.violation("diverges:" + tag, {"case": name, "why": "no result within %ss" % job["timeout"], "files": src})
            continue
        post = r.get("post") or {}
        evs = post.get("events")
        if evs is None:
            v.machinery_failure("no trace for %s: exit=%s %s %s" % (name, r["exit"], r.get("post_error", ""), (r.get("traceback") or "")[-600:]))
            continue
        if r["exit"] in ("RecursionError", "MemoryError"):
            # unbounded recursion / memory growth stopped by the interpreter's limit: the analysis did not terminate by itself
            v.violation("diverges:%s" % tag, {"case": name, "why": "the run ended with %s: %s" % (r["exit"], (r.get("traceback") or "").strip().splitlines()[-1][:200] if r.get("traceback") else ""),
                                             "traceback_tail": (r.get("traceback") or "")[-1500:], "files": src})
        elif (r.get("maxrss_kb") or 0) > MAX_RSS_KB:
            # memory is work too: a program of a few lines whose analysis needs gigabytes has blown up
            v.violation("memory_blowup:%s" % tag, {"case": name, "why": "peak resident set %.1f GB (an ordinary run stays below 0.4 GB)" % (r["maxrss_kb"] / 1e6),
                                                   "wall_s": r.get("wall_s"), "files": src})
        elif r["exit"] not in ("ok", "TraceLimit"):
            crashes += 1
            v.note("%s ended with %s (a crash is not a divergence; its trace up to that point is still judged)" % (name, r["exit"]))
        cfgk = post.get("config") or {}
        kept = [slim(e) for e in evs if e["e"] in KEEP]
        cases.append({"name": name, "events": kept, "k": {"maxcs": int(cfgk.get("MAX_ROUND_CALL_SITE", 2)), "slack": SLACK}})
        wcases.append({"name": name, "events": [wl_slim(e) for e in evs if e["e"] in ("enter", "peek", "add", "pop", "tstart", "tenq", "tpop")]})
        kinds = {}
        for e in evs:
            kinds[e["e"]] = kinds.get(e["e"], 0) + 1
        stats.append({"case": name, "size_lines": job["_size"], "events": len(evs), "frames": post.get("frames"), "wall_s": r.get("wall_s"), "states_p3": post.get("states_p3", -1),
                      "_fam": job["_fam"], "_n": job["_n"], "_p2": job["_p2"],
                      "exit": r["exit"], "kinds": kinds, "_tag": tag, "_files": src})
    tot = run_tlc(cases, root, v)
    wdesign = worklist_design(root, v)
    wtot = run_worklist_traces(wcases, root, v)
    wdrift = {}
    for vd in wtot["verdicts"]:
        if vd.get("drift"):
            wdrift.setdefault(vd["drift"].split("@")[0], []).append(vd["case"])
    for d, cs in sorted(wdrift.items()):
        v.note("model drift of the statement worklist (%s) in %d run(s), e.g. %s: StmtWorklist.tla no longer describes SimpleWorkList" % (d, len(cs), cs[0]))
    if wcases and not wtot["ops"] and not v.machinery:
        v.machinery_failure("no worklist operation was replayed (the tracer is not attached to SimpleWorkList any more)")
    by = {s["case"]: s for s in stats}
    seen = set()
    drifts = {}
    n_bad = 0
    for vd in tot["verdicts"]:
        seen.add(vd["case"])
        s = by[vd["case"]]
        if vd.get("drift"):
            drifts.setdefault(vd["drift"].split("@")[0], []).append(vd["case"])
        if vd["clause"]:
            n_bad += 1
            v.violation("%s:%s" % (vd["clause"].split(":")[0], s["_tag"]), {"case": vd["case"], "clause": vd["clause"], "at_event": vd["at"],
                                                                         "files": s["_files"], "event_kinds": s["kinds"]})
        elif s["exit"] == "TraceLimit":
            n_bad += 1
            v.violation("event_budget:%s" % s["_tag"], {"case": vd["case"], "why": "more than %d scheduler events for %d lines" % (s["events"], s["size_lines"]),
                                                        "files": s["_files"], "event_kinds": s["kinds"]})
    missing = [c["name"] for c in cases if c["name"] not in seen]
    if missing and not v.machinery:
        v.machinery_failure("%d traces without a verdict, e.g. %s" % (len(missing), missing[:3]))
    # growth families: work inside the steps, measured as abstract states produced
    growth = []
    for fam, factor in SG.GROWTH.items():
        for p2 in (False, True):
            pts = sorted((s["_n"], s["states_p3"], s) for s in stats if s["_fam"] == fam and s["_p2"] == p2 and s["states_p3"] and s["states_p3"] > 0)
            pts = [x for x in pts if x[0] >= SG.GROWTH_FROM.get(fam, 0)]
            if len(pts) >= 2:
                (n1, a, _), (n2, b, s2) = pts[0], pts[-1]
                growth.append({"family": fam, "p2": p2, "n": [n1, n2], "states": [a, b], "allowed_factor": factor})
                if b > factor * a:
                    n_bad += 1
                    v.violation("state_growth:%s:%s" % (fam, "p2" if p2 else "p3"), {"family": fam, "sizes": [n1, n2], "abstract_states": [a, b], "allowed_factor": factor,
                                                                                "why": "the abstract state space grew %.1fx from n=%d to n=%d" % (b / a, n1, n2), "files": s2["_files"]})
    for d, cs in sorted(drifts.items()):
        v.note("model drift (%s) in %d run(s), e.g. %s: Scheduler.tla no longer describes this step of the code" % (d, len(cs), cs[0]))
    # vacuity: the families must exercise the schedulers
    tk = {}
    for s in stats:
        for k, n in s["kinds"].items():
            tk[k] = tk.get(k, 0) + n
    for need in ("push", "dpre", "decide", "addpath", "proc", "tpop", "leave"):
        if not tk.get(need) and not v.machinery:
            v.machinery_failure("no '%s' event in any run: the tracer is not attached to the scheduler any more" % need)
    rc = v.finish(max_print=30)
    cov = {
        "states": tot["states"] + wtot["states"] + sum(m["distinct"] for m in mc), "transitions": tot["transitions"] + sum(m["generated"] for m in mc),
        "traces_validated_against_impl": len(cases),
        "design_model_checking": mc, "trace_states": tot["states"], "statement_worklist_design": wdesign,
        "statement_worklist_operations_replayed": wtot["ops"], "statement_worklist_trace_states": wtot["states"], "statement_worklist_drift": {k: len(x) for k, x in wdrift.items()},
        "samples": [{k: s[k] for k in ("case", "size_lines", "events", "frames", "wall_s", "exit")} for s in stats[:3]],
        "runs": len(jobs), "families": sorted(SG.FAMILIES) + ["hostile"], "event_totals": tk, "drift": {k: len(x) for k, x in drifts.items()},
        "crashes_not_judged_as_divergence": crashes, "growth_families": growth, "slack_factor": SLACK, "largest_run_events": max([s["events"] for s in stats] or [0]),
        "known_findings_hit": {k: len(x) for k, x in v.hits.items()}, "repo": C.repo_head(),
        "rule": "a trace = one full lian run (bottom-up if enabled, top-down, taint) of one member of a parameterised adversarial family",
    }
    C.write_evidence(PID, tier, seed, "model_checking", cov, time.time() - t0, violations=len(v.unlisted),
                     assumptions=["time per scheduler step is not modelled: a step that never returns is only caught by the wall-clock budget",
                                  "bounds are evaluated with slack factor %d; the design bound is proved with factor 1 at small constants" % SLACK,
                                  "python frontend families; sizes n up to %d" % (8 if tier == "quick" else 16)])
    print("C13: %d design states, %d runs, %d trace states, %d violating, drift kinds %s, %.1fs" % (
        sum(m["distinct"] for m in mc), len(jobs), tot["states"], n_bad, sorted(drifts), time.time() - t0))
    shutil.rmtree(root, ignore_errors=True)
    return rc


def replay(path):
    doc = json.load(open(path))["replay"]
    for fn, text in (doc.get("files") or {}).items():
        print("# ---- %s\n%s" % (fn, text))
    print(json.dumps({k: doc[k] for k in doc if k != "files"})[:2000])
    return 0
