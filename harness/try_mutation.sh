#!/bin/sh
# usage: try_mutation.sh <patch.diff> <property id> [tier]   -- applies the patch to /repo, runs the check, reverts.
set -u
patch="$1"; pid="$2"; tier="${3:-quick}"
cd /repo || exit 2
if [ -n "$(git status --porcelain -- src)" ]; then echo "repo dirty, refusing"; exit 2; fi
git apply "$patch" || { echo "patch does not apply"; exit 2; }
cd /verif
./check "$pid" --tier "$tier" > /verif/out/mut_$pid.log 2>&1
rc=$?
cd /repo && git checkout -- . 
echo "check rc=$rc"
grep -c "^VIOLATION" /verif/out/mut_$pid.log | sed 's/^/violations printed: /'
grep "^VIOLATION" /verif/out/mut_$pid.log | head -3
grep -v "^VIOLATION" /verif/out/mut_$pid.log | tail -4
exit 0
