"""C15 — every result saved through the loader is what later reads and the files return."""
import json
import os

import c15real
import common as C
import patterna as A
from tree import load_history, load_meta

PID = "C15"
HERE = os.path.dirname(os.path.abspath(__file__))
DRIVER = os.path.join(HERE, "drive_c15.py")
FIELDS = ("op", "id", "c")


def short(h):
    if h["op"] == "save":
        return "save(%d,%d)" % (h["id"], h["c"])
    if h["op"] == "get":
        return "get(%d)" % h["id"]
    return h["op"]


def sig(clause, hist):
    if hist and hist[-1].get("loader"):         # a trace of a real analysis: named by loader family, not by the (project-specific) history
        e = hist[-1]
        return "real:%s:%s:%s:%s" % (clause, e["loader"], e["stem"], "after_restore" if e.get("after_restore") else "in_run")
    return "%s:%s" % (clause, ";".join(short(h) for h in hist))


def cfg_for(path):
    c = load_meta(path)["config"]
    out = os.path.join(os.path.dirname(path), os.path.basename(path) + ".cfg")
    ids = "{1, 2, 3}" if not c.get("real") else "{%s}" % ", ".join(str(i) for i in range(0, c["n_ids"] + 1))
    return C.write_cfg(out, constants={
        "Id": ids, "Content": "{0, 1, 2}", "None": "None",
        "ItemCap": c["item_cap"], "BundleCap": c["bundle_cap"], "MaxRows": c["max_rows"],
        "MaxOps": 100000, "MaxBundles": 100000, "SaveDropsCachedItem": "TRUE", "SaveAdjustsLength": "TRUE",
        "PutsExportedBundleInCache": "TRUE" if c["puts_bundle"] else "FALSE"}, spec="TraceSpec")


def mc_cfgs(tier):
    """Spec-level runs over the grid of capacities (generated cfg files in out/)."""
    d = C.scratch("c15_mc")
    runs, negs = [], []
    grid = [(1, 1, 2, True)] if tier == "quick" else [(ic, bc, mr, pb) for ic in (1, 2) for bc in (1, 2) for mr in (1, 2, 3) for pb in (True, False)]
    for ic, bc, mr, pb in grid:
        p = os.path.join(d, "MC_LoaderImpl_i%d_b%d_m%d_%s.cfg" % (ic, bc, mr, "g" if pb else "u"))
        C.write_cfg(p, constants={"Id": "{1, 2}", "Content": "{0, 1, 2}", "None": "None", "ItemCap": ic, "BundleCap": bc,
                                  "MaxRows": mr, "MaxOps": 6 if tier == "quick" else 7, "MaxBundles": 5,
                                  "SaveDropsCachedItem": "TRUE", "SaveAdjustsLength": "TRUE",
                                  "PutsExportedBundleInCache": "TRUE" if pb else "FALSE"},
                    spec="Spec", properties=["ReadsReturnLatest"],
                    invariants=["FilesHoldEverything", "ActiveConsistent", "CachesBounded", "NoEmptyBundleFile", "LengthIsExact"])
        runs.append(("LoaderImpl", p))
    negs.append(("LoaderImpl", "MC_LoaderImpl_pinned.cfg"))
    negs.append(("LoaderImpl", "MC_LoaderImpl_pinned2.cfg"))
    return runs, negs


def samples(files):
    out = []
    for path, n in files[:2]:
        h = load_history(path, n)
        out.append(load_meta(path)["config"]["tag"] + ": " + " ; ".join(short(x) + ("->%s" % x["res"] if x["op"] == "get" else "") for x in h))
    return out


def post_driver(summary, v):
    for pr in summary.get("write_failure_probe", []):
        if not pr["raised"] and not pr["printed"]:
            v.violation("write_failure_silent:%s" % pr["family"], pr)


def real_part(out_dir, tier, v):
    files, cov = c15real.run_part(out_dir, tier, v)
    if not v.machinery and (cov["restored_histories"] < 5 or cov["events"] < 100):
        v.machinery_failure("real analyses: only %d restored loader histories / %d events (vacuous)" % (cov["restored_histories"], cov["events"]))
    return files, cov


def run(tier, seed):
    runs, negs = mc_cfgs(tier)
    return A.run_component(
        PID, tier, seed, DRIVER, "LoaderTrace", cfg_for, runs, negs, sig, samples,
        assumptions=["an item with zero rows and an absent item are the same for every reader (None, [] and an empty structure are identified)",
                     "restore is only exercised when nothing is dirty (export, then export_indexing, no save in between)",
                     "content fidelity is judged by family-specific canonical rows (unit-level rows, CFG edges)",
                     "a failed write counts as reported when export raises or prints", "TLC, CommunityModules Json"],
        impl_name="LoaderImpl", post_driver=post_driver, extra_forests=real_part,
        rule="tree nodes are save/get/export/export_indexing/restore calls on real loader objects (ScopeHierarchyLoader, UnitGIRLoader, "
             "CFGLoader) with small cache capacities and MAX_ROWS; every get is judged by the contract; a trace = one root-to-leaf history")


def replay(path):
    with open(path) as f:
        d = json.load(f)
    if str(d.get("signature", "")).startswith("real:") or (d.get("replay", {}).get("config") or {}).get("real"):
        print(json.dumps(d["replay"], indent=1)[:6000])
        print("re-run: ./check C15 --tier quick   (the history above is one loader object of a real analysis; see harness/c15real.py)")
        return 0

    def extra(doc):
        return {"config": doc["replay"]["config"]}
    return A.replay_component(PID, path, DRIVER, "LoaderTrace", cfg_for, sig, FIELDS, extra_doc=extra, show=("res", "crash", "proj"))
