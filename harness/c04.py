"""C04 — every concrete execution of a method is a path in its control-flow graph (GIRControl.tla over real GIR + real CFG)."""
import concurrent.futures as cf
import json
import os
import random
import shutil
import time

import common as C
import girjson as G
import skeleton as S

PID = "C04"
KINDS = {"s", "if", "while", "for", "forin", "dowhile", "break", "continue", "return", "try", "switch", "def", "class"}
PER_UNIT = 150
CASES_PER_TLC = 1500


def universe(tier, seed):
    """(renderer, body) pairs: exhaustive small sizes in every frontend, a seeded sample of the next size."""
    rng = random.Random(seed)
    small = S.enumerate_methods(3 if tier == "quick" else 4, 3, KINDS)
    nxt = S.enumerate_methods(4 if tier == "quick" else 5, 3, KINDS)
    nxt = [b for b in nxt if S.size_of_body(b) == (4 if tier == "quick" else 5)]
    # constructs whose smallest instances are larger than the exhaustive bound get their own exhaustive families
    feature = [b for b in S.enumerate_methods(6, 2, {"s", "switch", "switch_default_first", "break", "return"}) if "switch" in S.features(b)]
    feature += [b for b in S.enumerate_methods(7, 3, {"s", "switch", "break", "continue", "while"})
                if "switch" in S.features(b) and "while" in S.features(b) and S.size_of_body(b) <= (7 if tier == "thorough" else 6)]
    feature += [b for b in S.enumerate_methods(5, 2, {"s", "try", "return", "if"}) if "try" in S.features(b) and S.size_of_body(b) >= 4]
    feature += [b for b in S.enumerate_methods(5, 3, {"s", "for", "dowhile", "continue", "break"})
                if S.size_of_body(b) >= 4 and ({"for", "dowhile"} & S.features(b)) and ({"continue", "break"} & S.features(b))]
    feature += [b for b in S.enumerate_methods(5, 3, {"s", "whileelse", "break", "continue", "if", "return"}) if "whileelse" in S.features(b)]
    # break / continue in the handlers, the else clause and the finally clause of a try statement inside a loop
    feature += [b for b in S.enumerate_methods(6, 3, {"s", "while", "try", "break", "continue"})
                if {"try", "while"} <= S.features(b) and ({"break", "continue"} & S.features(b)) and S.size_of_body(b) <= 6 and len(b) == 1 and b[0][0] == "while"]
    small = small + feature + S.goto_shapes()
    out = []
    for r in S.RENDERERS:
        a = [b for b in small if S.supported(r, b)]
        b = [x for x in nxt if S.supported(r, x)]
        k = 250 if tier == "quick" else 3000
        out += [(r, x) for x in a] + [(r, x) for x in (rng.sample(b, k) if len(b) > k else b)]
    return out


def build_jobs(pairs, root):
    jobs = []
    by_r = {}
    for r, b in pairs:
        by_r.setdefault(r.name, (r, []))[1].append(b)
    for name, (r, bodies) in by_r.items():
        for k in range(0, len(bodies), PER_UNIT * 4):
            files, meta = {}, {}
            for u in range(4):
                chunk = bodies[k + u * PER_UNIT: k + (u + 1) * PER_UNIT]
                if not chunk:
                    continue
                text, names = S.render_unit(r, chunk, prefix="m%d_" % u)
                fn = "u%d%s" % (u, r.ext)
                files[fn] = text
                for nm, b in zip(names, chunk):
                    meta[nm] = b
            jname = "%s_%05d" % (name, k)
            jobs.append(dict(cmd="semantic", lang=name, files=files, dir=os.path.join(root, jname), export=["gir", "cfg"],
                             flags=["--nomock"], settings={"entry.yaml": "[]\n"}, timeout=1200, _r=r, _meta=meta, _name=jname))
    return jobs


def cases_of(job, res, raise_mode):
    """One case per generated method: its rows, lian's CFG edges for it, and the language constants."""
    r = job["_r"]
    gir = res["exports"].get("gir") or []
    cfg = res["exports"].get("cfg") or []
    edges = {}
    for e in cfg:
        edges.setdefault(e.get("method_id"), []).append([G.as_int(e.get("src_stmt_id")), G.as_int(e.get("dst_stmt_id"))])
    out = []
    for uid, rows in G.units_of(gir):
        for decl, sl in G.method_slices(rows):
            nm = str(decl.get("name"))
            if nm not in job["_meta"] or decl.get("parent_stmt_id") not in (0, None):
                # generated methods only (java: inside the class methods block -> parent is a block)
                if nm not in job["_meta"]:
                    continue
            mid = decl.get("stmt_id")
            body = job["_meta"][nm]
            mode = raise_mode if "try" in S.features(body) else "none"
            out.append({"name": "%s/%s" % (job["_name"], nm), "lang": r.name, "method": mid,
                        "rows": [G.norm_row(x) for x in sl], "cfg": edges.get(mid, []),
                        "fallthrough": r.fallthrough, "switch_break": r.switch_break, "raise_mode": mode,
                        "check": "cfg", "loop_bound": 2, "rd": {},
                        "skeleton": json.dumps(body), "source": r.method(nm, body)})
    return out


def run_tlc_batches(cases, root, v, tag):
    files = []
    for k in range(0, len(cases), CASES_PER_TLC):
        p = os.path.join(root, "cases_%s_%04d.json" % (tag, k))
        with open(p, "w") as f:
            json.dump({"cases": cases[k:k + CASES_PER_TLC]}, f)
        files.append(p)

    def one(p):
        return p, C.tlc("GIRControl", "GIRControl.cfg", name="c04_" + os.path.basename(p), env={"CASES": p}, workers=2,
                        timeout=3000, heap="6g")

    tot = dict(states=0, transitions=0, bad=[])
    with cf.ThreadPoolExecutor(max_workers=8) as ex:
        for p, r in ex.map(one, files):
            if r.error or r.violation:
                v.machinery_failure("GIRControl run failed on %s: %s" % (p, (r.error or r.violation)[:1500]))
                continue
            tot["states"] += r.distinct
            tot["transitions"] += r.generated
            for line in r.printed:
                tot["bad"].append(json.loads(line))
    return tot


def signature(b, case):
    """lang : clause : source op -> destination op (the construct pair that lacks the edge)."""
    feats = S.features(_tuplify(json.loads(case["skeleton"])))
    return "%s:%s:%s->%s%s" % (case["lang"], b["clause"], b["srcop"], b["dstop"], ":switch" if "switch" in feats else "")


def _tuplify(body):
    def tup(x):
        if isinstance(x, list) and x and isinstance(x[0], str):
            return tuple(tup(y) for y in x)
        if isinstance(x, list):
            return [tup(y) for y in x]
        return x
    return [tup(s) for s in body]


def run(tier, seed):
    t0 = time.time()
    v = C.Verdict(PID)
    root = C.scratch("c04")
    pairs = universe(tier, seed)
    jobs = build_jobs(pairs, root)
    res = C.lian_batch(jobs)
    cases_end, crashed = [], []
    for job, r in zip(jobs, res):
        if r["exit"] != "ok":
            crashed.append((job["_name"], r["exit"], (r.get("traceback") or "")[-600:]))
            continue
        cases_end += cases_of(job, r, "end")
    for name, ex, tb in crashed:
        v.violation("lian_failed:%s:%s" % (name.split("_")[0], ex), {"job": name, "exit": ex, "traceback": tb})
    tot = run_tlc_batches(cases_end, root, v, "end")
    # second pass: exceptions raised in the middle of a try body (a separate family so that its verdicts do not mask the first)
    cases_any = [dict(c, raise_mode="any", name=c["name"] + "#raise_any") for c in cases_end if c["raise_mode"] == "end"]
    tot2 = run_tlc_batches(cases_any, root, v, "any") if cases_any else dict(states=0, transitions=0, bad=[])
    by_name = {c["name"]: c for c in cases_end + cases_any}
    n_bad = 0
    for b in tot["bad"] + tot2["bad"]:
        case = by_name[b["case"]]
        n_bad += 1
        sig = signature(b, case) + ("#raise_any" if case["name"].endswith("#raise_any") else "")
        v.violation(sig, {"case": b["case"], "lang": case["lang"], "missing_edge": [b["src"], b["dst"]], "ops": [b["srcop"], b["dstop"]],
                          "skeleton": case["skeleton"], "source": case["source"], "cfg": case["cfg"]})
    rc = v.finish(max_print=40)
    by_lang = {}
    for c in cases_end:
        by_lang[c["lang"]] = by_lang.get(c["lang"], 0) + 1
    cov = {
        "states": tot["states"] + tot2["states"], "transitions": tot["transitions"] + tot2["transitions"],
        "traces_validated_against_impl": len(cases_end) + len(cases_any),
        "samples": [{"case": c["name"], "source": c["source"], "cfg": c["cfg"][:12]} for c in cases_end[:2]],
        "methods_by_language": by_lang, "methods_with_mid_body_raise": len(cases_any), "lian_runs": len(jobs),
        "violating_methods": n_bad, "known_findings_hit": {k: len(x) for k, x in v.hits.items()}, "repo": C.repo_head(),
        "exhaustive": False, "loop_bound": 2,
        "rule": "a case = one generated method: the GIR rows lian emitted for it + lian's CFG edges; TLC explores every branch-decision "
                "vector (loops <= 2 iterations per activation) of the GIR control semantics and requires each step to be a CFG edge",
    }
    C.write_evidence(PID, tier, seed, "model_checking", cov, time.time() - t0, violations=len(v.unlisted),
                     assumptions=["GIR control semantics as documented (3-2.gir.md): compound rows are their tests, for = init; (prebody; test; body; update)*",
                                  "a nested method/class declaration is one step of the enclosing method",
                                  "return leaves the activation directly (finally blocks are not run on return)",
                                  "exceptions: a statement of a try body may raise; uncaught exceptions are not modelled"])
    print("C04: %d methods (+%d with mid-body raise), %d TLC states, %d violating, %.1fs" % (
        len(cases_end), len(cases_any), cov["states"], n_bad, time.time() - t0))
    shutil.rmtree(root, ignore_errors=True)
    return rc


def replay(path):
    with open(path) as f:
        doc = json.load(f)["replay"]
    r = [x for x in S.RENDERERS if x.name == doc["lang"]][0]
    body = _tuplify(json.loads(doc["skeleton"]))
    root = C.scratch("c04_replay")
    jobs = build_jobs([(r, body)], root)
    res = C.lian_batch(jobs)
    mode = "any" if doc["case"].endswith("#raise_any") else "end"
    cases = cases_of(jobs[0], res[0], mode)
    print(cases[0]["source"])
    print("cfg:", cases[0]["cfg"])
    v = C.Verdict(PID)
    tot = run_tlc_batches(cases, root, v, "r")
    for b in tot["bad"]:
        print(b)
        v.violation(signature(b, cases[0]) + ("#raise_any" if mode == "any" else ""), b)
    return v.finish()
