#!/bin/sh
# Offline setup: verify the tools the checks need and that every specification parses.
set -e
cd "$(dirname "$0")"
mkdir -p out evidence
command -v java >/dev/null || { echo "java missing"; exit 1; }
test -f /opt/veriftools/tla/tla2tools.jar || { echo "tla2tools.jar missing"; exit 1; }
test -x /venv/bin/python || { echo "/venv/bin/python missing"; exit 1; }
/venv/bin/python - <<'PY'
import builtins
builtins.profile = lambda f: f
import lian.common_structs, pandas, pyarrow  # noqa
print("lian importable from", lian.common_structs.__file__)
PY
fail=0
for f in specs/*.tla; do
  out=$(cd specs && java -cp /opt/veriftools/tla/tla2tools.jar:/opt/veriftools/tla/CommunityModules-deps.jar tla2sany.SANY "$(basename "$f")" 2>&1) || true
  if echo "$out" | grep -q "Semantic errors\|Parse Error\|Fatal errors\|Could not"; then echo "SANY FAILED: $f"; echo "$out" | tail -20; fail=1; fi
done
[ $fail -eq 0 ] && echo "setup ok: $(ls specs/*.tla | wc -l) specifications parse"
exit $fail
