--------------------------- MODULE WorklistTrace ---------------------------
(***************************************************************************)
(* Conformance of the real statement worklist with StmtWorklist's          *)
(* heap-on-a-list operators.  Events (harness/schedtrace.py, recorded at   *)
(* SimpleWorkList.peek/add/pop while analyze_stmts runs, and at its entry):*)
(*   enter f first wl prio   the list and the priority table of frame f    *)
(*   peek  f s               work_list[0] is s                             *)
(*   add   f new wl          `new` = the nodes pushed, in push order;      *)
(*                           wl = the list afterwards                      *)
(*   pop   f s wl            s was removed; wl = the list afterwards       *)
(*   tstart / tenq n fresh / tpop n   the taint worklist (a FIFO with a    *)
(*                           queued-set): enqueue order and pop order      *)
(* One TLC state per event; the model list of every frame is evolved by    *)
(* HeapPush / PopFront and compared with the logged list after every       *)
(* operation.  A mismatch is model drift (the proof of StmtWorklist's      *)
(* bounds does not transfer to this code), reported by name.               *)
(***************************************************************************)
EXTENDS Naturals, Integers, Sequences, SequencesExt, FiniteSets, TLC, Json, IOUtils

Doc == JsonDeserialize(IOEnv.CASES)

(* operators of StmtWorklist (restated: that module has constants for its design model) *)
Less(a, b) == a[1] < b[1] \/ (a[1] = b[1] /\ a[2] < b[2])
RECURSIVE SiftUp(_, _)
SiftUp(h, pos) == IF pos = 1 THEN h
                  ELSE LET par == pos \div 2 IN
                       IF Less(h[pos], h[par]) THEN SiftUp([h EXCEPT ![pos] = h[par], ![par] = h[pos]], par) ELSE h
HeapPush(h, x) == SiftUp(Append(h, x), Len(h) + 1)
PopFront(h) == Tail(h)
Stmts(h) == [j \in 1..Len(h) |-> h[j][2]]

VARIABLES c, i, heaps, prios, drift, ops,
          tq          \* the taint worklist of the propagation in progress (PathFinder.propagate_taint): a FIFO of state-flow-graph nodes
vars == <<c, i, heaps, prios, drift, ops, tq>>
Ev == Doc.cases[c].events
Has(f) == f \in DOMAIN heaps
Set(fn, k, v) == [x \in DOMAIN fn \cup {k} |-> IF x = k THEN v ELSE fn[x]]
PrioOf(f, s) == IF f \in DOMAIN prios /\ s \in DOMAIN prios[f] THEN prios[f][s] ELSE 0       \* priority_dict.get(item, 0)
Mark(d) == IF drift = "" THEN d \o "@" \o ToString(i) ELSE drift
RECURSIVE PushSeq(_, _, _)
PushSeq(h, f, new) == IF new = << >> THEN h ELSE PushSeq(HeapPush(h, <<PrioOf(f, Head(new)), Head(new)>>), f, Tail(new))

Init == c \in 1..Len(Doc.cases) /\ i = 1 /\ heaps = << >> /\ prios = << >> /\ drift = "" /\ ops = 0 /\ tq = << >>

Step ==
  /\ i <= Len(Ev)
  /\ LET e == Ev[i] IN
     CASE e.e = "enter" ->
            IF e.first
            THEN /\ heaps' = Set(heaps, e.f, [j \in 1..Len(e.wl) |-> <<e.wl[j][1], e.wl[j][2]>>])
                 /\ prios' = Set(prios, e.f, [s \in {e.prio[j][1] : j \in 1..Len(e.prio)} |->
                                               e.prio[CHOOSE j \in 1..Len(e.prio) : e.prio[j][1] = s][2]])
                 /\ UNCHANGED <<drift, ops>>
            ELSE /\ drift' = IF Has(e.f) /\ Stmts(heaps[e.f]) # [j \in 1..Len(e.wl) |-> e.wl[j][2]] THEN Mark("list_changed_while_interrupted") ELSE drift
                 /\ UNCHANGED <<heaps, prios, ops>>
       [] e.e = "peek" ->
            /\ drift' = IF Has(e.f) /\ (heaps[e.f] = << >> \/ heaps[e.f][1][2] # e.s) THEN Mark("peek_is_not_the_first_list_element") ELSE drift
            /\ ops' = ops + 1 /\ UNCHANGED <<heaps, prios>>
       [] e.e = "add" ->
            IF ~Has(e.f) THEN UNCHANGED <<heaps, prios, drift, ops>>
            ELSE LET h2 == PushSeq(heaps[e.f], e.f, e.new) IN
                 /\ heaps' = Set(heaps, e.f, h2)
                 /\ drift' = IF Stmts(h2) # e.wl THEN Mark("list_after_push_differs_from_heappush") ELSE drift
                 /\ ops' = ops + 1 /\ UNCHANGED prios
       [] e.e = "pop" ->
            IF ~Has(e.f) \/ heaps[e.f] = << >> THEN UNCHANGED <<heaps, prios, drift, ops>>
            ELSE LET h2 == PopFront(heaps[e.f]) IN
                 /\ heaps' = Set(heaps, e.f, h2)
                 /\ drift' = IF heaps[e.f][1][2] # e.s THEN Mark("pop_did_not_remove_the_first_list_element")
                             ELSE IF Stmts(h2) # e.wl THEN Mark("list_after_pop_differs") ELSE drift
                 /\ ops' = ops + 1 /\ UNCHANGED prios
       (* taint worklist: _enqueue appends a node unless it is already queued (fresh = it was not); the loop pops from the left *)
       [] e.e = "tstart" -> UNCHANGED <<heaps, prios, drift, ops>>
       [] e.e = "tenq" -> UNCHANGED <<heaps, prios, ops>> /\ drift' = IF e.fresh = (\E j \in 1..Len(tq) : tq[j] = e.n) THEN Mark("taint_enqueue_dedup_differs") ELSE drift
       [] e.e = "tpop" -> UNCHANGED <<heaps, prios>> /\ ops' = ops + 1
                          /\ drift' = IF tq = << >> \/ Head(tq) # e.n THEN Mark("taint_pop_is_not_fifo") ELSE drift
       [] OTHER -> UNCHANGED <<heaps, prios, drift, ops>>
  /\ tq' = LET e == Ev[i] IN
           CASE e.e = "tstart" -> << >>
             [] e.e = "tenq" -> IF e.fresh THEN Append(tq, e.n) ELSE tq
             [] e.e = "tpop" -> IF tq # << >> /\ Head(tq) = e.n THEN Tail(tq) ELSE SelectSeq(tq, LAMBDA x : x # e.n)
             [] OTHER -> tq
  /\ i' = i + 1 /\ c' = c

Next == Step
Spec == Init /\ [][Next]_vars
Report == i > Len(Ev) => PrintT("@@" \o ToJson([case |-> Doc.cases[c].name, drift |-> drift, ops |-> ops, frames |-> Cardinality(DOMAIN heaps)]))
ReportConstraint == Report
=============================================================================
