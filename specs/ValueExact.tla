----------------------------- MODULE ValueExact -----------------------------
(***************************************************************************)
(* C09 - on loop-free code the abstract value of a variable or field is    *)
(* exactly the union, over the paths reaching the point, of the last value *)
(* written on each path.                                                   *)
(*                                                                         *)
(* A case is one program.  Its items are the definition points             *)
(* (statement, name[, field]) that some behaviour of GIRMachine reached:   *)
(*   concrete : the integer values observed there over ALL behaviours of   *)
(*              the machine (the exact collecting semantics; the events    *)
(*              come from the C08 run of GIRMachine.tla)                   *)
(*   abstract : the regular integer values of lian's states for that point *)
(*   unknown  : an UNSOLVED / ANYTHING state is among them                 *)
(* Soundness (concrete within abstract) is C08; here:                      *)
(*   Retained : abstract \ concrete  - a value that no path leaves there   *)
(*              (overwritten value kept, value of another field / object / *)
(*              call site, wrong operand combination)                      *)
(*   Unknown  : an unknown state although every input is a constant        *)
(***************************************************************************)
EXTENDS Naturals, Integers, Sequences, SequencesExt, FiniteSets, TLC, Json, IOUtils

Doc == JsonDeserialize(IOEnv.CASES)
VARIABLES c, done
vars == <<c, done>>

Items == Doc.cases[c].items
Retained(it) == ToSet(it.abstract) \ ToSet(it.concrete)
BadRetained == {j \in 1..Len(Items) : Retained(Items[j]) # {}}
BadUnknown  == {j \in 1..Len(Items) : Items[j].unknown}
Verdict == IF BadRetained # {} THEN "value_retained_that_no_path_leaves"
           ELSE IF BadUnknown # {} THEN "unknown_state_on_constant_program" ELSE ""

Init == c \in 1..Len(Doc.cases) /\ done = FALSE
Judge == /\ ~done /\ done' = TRUE /\ c' = c
         /\ PrintT("@@" \o ToJson([case |-> Doc.cases[c].name, clause |-> Verdict,
                                   retained |-> {[key |-> Items[j].key, extra |-> Retained(Items[j])] : j \in BadRetained},
                                   unknown |-> {Items[j].key : j \in BadUnknown}, items |-> Len(Items)]))
Next == Judge
Spec == Init /\ [][Next]_vars
=============================================================================
