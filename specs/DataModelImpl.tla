--------------------------- MODULE DataModelImpl ---------------------------
(***************************************************************************)
(* Implementation-shaped model of DataModel: the pandas frame plus the     *)
(* three caches of the wrapper, one action per public method.              *)
(*                                                                         *)
(*   rows, cols   the frame (self._data): labels, cells, column names      *)
(*   need         self._need_refresh_rows                                  *)
(*   cache        self._rows, a snapshot of the cells taken by             *)
(*                refresh_rows (DataFrame.values copies when the columns   *)
(*                have different dtypes, which is the case for GIR)        *)
(*   schema       self._schema (column name -> position), a snapshot       *)
(*   indexer      self._column_indexer: column name -> snapshot of that    *)
(*                column taken when the index was built                    *)
(*                                                                         *)
(* Deviations of the pinned code are switchable so that TLC exhibits them: *)
(*   FlagResetsIndexer = FALSE : set_refresh_flag leaves _column_indexer   *)
(*                               (reset only inside refresh_rows, which    *)
(*                               the index queries never call)             *)
(*   FillnaSetsFlag    = FALSE : fillna mutates the frame without marking  *)
(*                               the caches dirty                          *)
(* The repaired code corresponds to TRUE/TRUE.                             *)
(***************************************************************************)
EXTENDS DataModel, TLC

CONSTANTS Ops,                \* the operation alphabet (records)
          InitRows, InitCols, \* the constructed table
          MaxOps, MaxRows,
          FlagResetsIndexer, FillnaSetsFlag

VARIABLES rows, cols, need, cache, schema, indexer, res, last, n
vars == <<rows, cols, need, cache, schema, indexer, res, last, n>>

NoIndex == [c \in {} |-> << >>]
Ok(v)   == [ok |-> TRUE, v |-> v]
Crash   == [ok |-> FALSE, v |-> << >>]

Init == /\ rows = InitRows /\ cols = InitCols
        /\ need = TRUE /\ cache = << >> /\ schema = InitCols /\ indexer = NoIndex
        /\ res = Ok(<< >>) /\ last = [op |-> "construct"] /\ n = 0

(* set_refresh_flag / refresh_rows as state transformers on (need, cache, schema, indexer) *)
FlagIndexer(ix) == IF FlagResetsIndexer THEN NoIndex ELSE ix

(* positions recorded in a cached column snapshot *)
RECURSIVE SnapPos(_, _, _)
SnapPos(col, v, i) == IF i > Len(col) THEN << >>
                      ELSE (IF col[i] = v THEN <<i - 1>> ELSE << >>) \o SnapPos(col, v, i + 1)

LiveColumn(name) == [i \in 1..Len(rows) |-> Cell(rows, cols, i, name)]
Indexer1(ix, name) == IF name \in DOMAIN ix THEN ix ELSE (name :> LiveColumn(name)) @@ ix
IdxPositions(ix, name, v) == IF v = NaN THEN << >> ELSE SnapPos(ix[name], v, 1)
InRange(ps) == \A k \in 1..Len(ps) : ps[k] < Len(rows)

Mutate(o) ==
  /\ rows' = NextRows(o, rows, cols) /\ cols' = NextCols(o, cols)
  /\ Len(rows') <= MaxRows
  /\ res' = Ok(<< >>)
  /\ IF o.op = "slice"
     THEN \* a new DataModel object over the sliced frame: nothing cached
          need' = TRUE /\ cache' = << >> /\ schema' = cols /\ indexer' = NoIndex
     ELSE IF o.op = "wrap_and_touch"
     THEN \* the second object shares the frame, the cached rows and the index dictionary of the first; its own dirty flag starts set
          need' = TRUE /\ schema' = cols /\ UNCHANGED <<cache, indexer>>
     ELSE IF o.op \in {"reset_index", "touch_source"} \/ (o.op = "fillna" /\ ~FillnaSetsFlag)
     THEN UNCHANGED <<need, cache, schema, indexer>>
     ELSE need' = TRUE /\ schema' = cols' /\ indexer' = FlagIndexer(indexer) /\ UNCHANGED cache

(* queries that go through refresh_rows *)
Refreshed == IF need THEN [c |-> [i \in 1..Len(rows) |-> rows[i].c], ix |-> NoIndex]
                     ELSE [c |-> cache, ix |-> indexer]

QueryRows(o) ==
  LET r == Refreshed IN
  /\ need' = FALSE /\ cache' = r.c /\ indexer' = r.ix
  /\ UNCHANGED <<rows, cols, schema>>
  /\ res' = IF o.op = "access"
            THEN (IF o.pos >= 0 /\ o.pos < Len(r.c)
                  THEN (IF o.pos < Len(rows) THEN Ok(<<r.c[o.pos + 1], rows[o.pos + 1].lab>>) ELSE Crash)
                  ELSE Ok(<< >>))
            ELSE \* iter: zip(self._rows, self._data.index)
                 IF Len(r.c) > Len(rows) THEN Crash
                 ELSE Ok([i \in 1..Len(r.c) |-> <<rows[i].lab, r.c[i]>>])

(* queries that go through the column indexer *)
QueryIndex(o) ==
  LET name == IF o.op \in {"read_block", "read_block_with", "boundary"} THEN "stmt_id" ELSE o.col
      ix   == IF o.op = "boundary"
              THEN (IF \E k \in 1..Len(o.ids) : o.ids[k] # NaN THEN Indexer1(indexer, name) ELSE indexer)
              ELSE IF o.op # "bundle" /\ o.v = NaN THEN indexer ELSE Indexer1(indexer, name)
      ps(v) == IF v = NaN THEN << >> ELSE IdxPositions(ix, name, v)
  IN
  /\ indexer' = ix
  /\ UNCHANGED <<rows, cols, need, cache, schema>>
  /\ res' =
      CASE o.op \in {"index", "bundle"} -> Ok(ps(o.v))
        [] o.op = "index_first" ->
             IF ps(o.v) = << >> THEN Ok(<< >>)
             ELSE IF ~InRange(ps(o.v)) THEN Crash ELSE Ok(<<rows[ps(o.v)[1] + 1].c, ps(o.v)[1]>>)
        [] o.op = "index_dm" -> IF ~InRange(ps(o.v)) THEN Crash ELSE Ok(Rows(Pick(rows, ps(o.v))))
        [] o.op = "read_block" ->
             IF Len(ps(o.v)) # 2 THEN Crash          \* error_and_quit
             ELSE Ok(Rows(SubSeq(rows, ps(o.v)[1] + 2, ps(o.v)[2])))
        [] o.op = "read_block_with" ->
             IF Len(ps(o.v)) < 2 THEN Ok(<< >>) ELSE Ok(Rows(SubSeq(rows, ps(o.v)[1] + 1, ps(o.v)[2] + 1)))
        [] o.op = "boundary" ->
             LET all == UNION {ToSet(ps(o.ids[k])) : k \in 1..Len(o.ids)} IN
             Ok(<<IF all = {} THEN -1 ELSE CHOOSE m \in all : \A x \in all : x <= m>>)

QueryLive(o) ==
  /\ UNCHANGED <<rows, cols, need, cache, schema, indexer>>
  /\ res' = Ok(IF o.op = "len" THEN <<Len(rows)>> ELSE LiveColumn(o.col))

Do(o) ==
  /\ n < MaxOps /\ n' = n + 1 /\ last' = o
  /\ Enabled(o, rows, cols)
  /\ CASE IsMutation(o)                  -> Mutate(o)
       [] o.op \in {"access", "iter"}    -> QueryRows(o)
       [] o.op \in {"len", "column"}     -> QueryLive(o)
       [] OTHER                          -> QueryIndex(o)

Next == \E o \in Ops : Do(o)
Spec == Init /\ [][Next]_vars

---------------------------------------------------------------------------
(* C16: whatever the history, a query answers from the current rows. *)
QueryReflectsTable == (last.op # "construct" /\ ~IsMutation(last) /\ res.ok) => res.v = Result(last, rows, cols)
PositionsAreValid  == (last.op # "construct") => PositionsValid(last, res.v, rows)
NeverCrashes       == res.ok
(* Cache coherence, the reason the property holds: *)
CacheCoherent   == ~need => cache = [i \in 1..Len(rows) |-> rows[i].c]
IndexerCoherent == \A name \in DOMAIN indexer : HasCol(cols, name) /\ indexer[name] = LiveColumn(name)
SchemaCoherent  == schema = cols
=============================================================================
