CONSTANTS
  LangSets = {}
  Rets = {}
  Events = {}
  Langs = {}
  MaxHandlers = 0
SPECIFICATION TraceSpec
CHECK_DEADLOCK FALSE
