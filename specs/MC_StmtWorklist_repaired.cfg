CONSTANTS
  Node <- MCNode
  Succ <- MCSucc
  Prio <- MCPrio
  Entry = 1
  MaxRound = 2
  RemoveProcessed = TRUE
SPECIFICATION Spec
INVARIANT QueuedIsHeap
INVARIANT IterationBound
INVARIANT VisitBound
PROPERTY Terminates
CHECK_DEADLOCK FALSE
INVARIANT PopRemovesProcessed
INVARIANT EveryReachableVisited
