------------------------------- MODULE Edits -------------------------------
(***************************************************************************)
(* C12 - results are invariant under meaning-preserving edits.             *)
(*                                                                         *)
(* The program is a sequence of line tokens; the edits of the property are *)
(* the actions.  The state carries where every original line is now and    *)
(* what every renameable entity is called now, so the observables the      *)
(* property speaks about can be predicted after any sequence of edits:     *)
(*   flows  (source line, sink line)   -> through Loc                      *)
(*   calls  (caller name, callee name) -> through ren                      *)
(*   binds  (use line, declaration line) -> through Loc                    *)
(* TLC enumerates every edit sequence up to MaxEdits; each reachable state *)
(* is printed (tokens of both files, rename map, predicted observables)    *)
(* and replayed by the harness on the real source text through lian.       *)
(*                                                                         *)
(* Doc (JSON): n (lines), indent[l], blank_ok / noop_ok (original lines    *)
(* before which a blank or comment / a no-op statement may be inserted),   *)
(* defs (sequence of [name, first, last, movable]: independent top-level   *)
(* definitions, adjacent in the order given), names (renameable entities), *)
(* flows, calls, binds of the unedited program as lian reported them.      *)
(***************************************************************************)
EXTENDS Naturals, Integers, Sequences, SequencesExt, FiniteSets, TLC, Json, IOUtils

Doc == JsonDeserialize(IOEnv.PROGRAM)
N == Doc.n
MaxEdits == Doc.max_edits
Names == ToSet(Doc.names)
Defs == Doc.defs

VARIABLES prog,     \* file 1: sequence of tokens [k, l, ind, name]   k: "o" original line l | "b" blank | "c" comment | "n" no-op | "i" import of name
          lib,      \* file 2 (created by MoveToFile): sequence of tokens
          lib2,     \* file 3 (a definition moved out of file 2, which then re-exports it: a two-hop import chain)
          ren,      \* current name of every renameable entity
          hist      \* the edits applied so far (labels)
vars == <<prog, lib, lib2, ren, hist>>

Orig(l) == [k |-> "o", l |-> l, ind |-> Doc.indent[l], name |-> ""]
Init == /\ prog = [l \in 1..N |-> Orig(l)] /\ lib = << >> /\ lib2 = << >>
        /\ ren = [x \in Names |-> x] /\ hist = << >>

IndexIn(s, l) == IF \E j \in 1..Len(s) : s[j].k = "o" /\ s[j].l = l
                 THEN CHOOSE j \in 1..Len(s) : s[j].k = "o" /\ s[j].l = l ELSE 0
InsertBefore(s, j, tok) == SubSeq(s, 1, j - 1) \o <<tok>> \o SubSeq(s, j, Len(s))
Fresh(x) == x \o "_r" \o ToString(Len(hist) + 1)
Log(label) == hist' = Append(hist, label)

(* insert a blank line / a comment / a no-op statement before original line l (which may be in either file) *)
Insert(kind, l) ==
  /\ kind \in {"b", "c"} => l \in ToSet(Doc.blank_ok)
  /\ kind = "n" => l \in ToSet(Doc.noop_ok)
  /\ LET tok == [k |-> kind, l |-> 0, ind |-> Doc.indent[l], name |-> ""] IN
     IF IndexIn(prog, l) # 0
     THEN prog' = InsertBefore(prog, IndexIn(prog, l), tok) /\ UNCHANGED <<lib, lib2>>
     ELSE IF IndexIn(lib, l) # 0
     THEN lib' = InsertBefore(lib, IndexIn(lib, l), tok) /\ UNCHANGED <<prog, lib2>>
     ELSE lib2' = InsertBefore(lib2, IndexIn(lib2, l), tok) /\ UNCHANGED <<prog, lib>>
  /\ UNCHANGED ren /\ Log(<<kind, l>>)

Rename(x) == /\ ren[x] = x                 \* each entity is renamed at most once per sequence (a fresh name each time would add nothing)
             /\ ren' = [ren EXCEPT ![x] = Fresh(x)]
             /\ UNCHANGED <<prog, lib, lib2>> /\ Log(<<"r", x>>)

(* swap two adjacent independent top-level definitions, both still in file 1 *)
Block(d) == LET a == IndexIn(prog, Defs[d].first)  b == IndexIn(prog, Defs[d].last) IN <<a, b>>
Reorder(d) ==
  /\ d \in 1..(Len(Defs) - 1)
  /\ LET A == Block(d)  B == Block(d + 1) IN
     /\ A[1] # 0 /\ B[1] # 0 /\ A[2] < B[1]
     /\ prog' = SubSeq(prog, 1, A[1] - 1) \o SubSeq(prog, B[1], B[2]) \o SubSeq(prog, A[2] + 1, B[1] - 1)
                \o SubSeq(prog, A[1], A[2]) \o SubSeq(prog, B[2] + 1, Len(prog))
  /\ UNCHANGED <<lib, lib2, ren>> /\ Log(<<"s", d>>)

(* move a definition into another file and import it where it was: from file 1 into file 2, or - applied to a definition that already
   lives in file 2 - on into file 3, file 2 importing (re-exporting) it *)
BlockIn(s, d) == <<IndexIn(s, Defs[d].first), IndexIn(s, Defs[d].last)>>
ImportTok(d) == [k |-> "i", l |-> 0, ind |-> 0, name |-> Defs[d].name]
Move(d) ==
  /\ d \in 1..Len(Defs) /\ Defs[d].movable
  /\ LET A == BlockIn(prog, d)  B == BlockIn(lib, d) IN
     \/ /\ A[1] # 0
        /\ lib' = lib \o SubSeq(prog, A[1], A[2])
        /\ prog' = <<ImportTok(d)>> \o SubSeq(prog, 1, A[1] - 1) \o SubSeq(prog, A[2] + 1, Len(prog))
        /\ UNCHANGED lib2
     \/ /\ A[1] = 0 /\ B[1] # 0
        /\ lib2' = lib2 \o SubSeq(lib, B[1], B[2])
        /\ lib' = <<[ImportTok(d) EXCEPT !.k = "j"]>> \o SubSeq(lib, 1, B[1] - 1) \o SubSeq(lib, B[2] + 1, Len(lib))
        /\ UNCHANGED prog
  /\ UNCHANGED ren /\ Log(<<"m", d>>)

Next == /\ Len(hist) < MaxEdits
        /\ \/ \E kind \in {"b", "c", "n"}, l \in 1..N : Insert(kind, l)
           \/ \E x \in Names : Rename(x)
           \/ \E d \in 1..Len(Defs) : Reorder(d) \/ Move(d)
Spec == Init /\ [][Next]_vars

(* ---------------- predicted observables ---------------- *)
Loc(l) == IF IndexIn(prog, l) # 0 THEN <<1, IndexIn(prog, l)>>                                  \* <<file, 1-based line>>
          ELSE IF IndexIn(lib, l) # 0 THEN <<2, IndexIn(lib, l)>> ELSE <<3, IndexIn(lib2, l)>>
Cur(x) == IF x \in Names THEN ren[x] ELSE x
ExpFlows == {<<Loc(Doc.flows[j][1]), Loc(Doc.flows[j][2])>> : j \in 1..Len(Doc.flows)}
ExpCalls == {<<Cur(Doc.calls[j][1]), Cur(Doc.calls[j][2])>> : j \in 1..Len(Doc.calls)}
ExpBinds == {<<Loc(Doc.binds[j][1]), Cur(Doc.binds[j][2]), Loc(Doc.binds[j][3])>> : j \in 1..Len(Doc.binds)}

(* invariants of the edit model itself *)
NoLineLost == \A l \in 1..N : Cardinality({f \in 1..3 : IndexIn(<<prog, lib, lib2>>[f], l) # 0}) = 1      \* every original line is in exactly one file
OrderKeptInsideDefs == \A d \in 1..Len(Defs) : \A l \in Defs[d].first..(Defs[d].last - 1) :
                          Loc(l)[1] = Loc(l + 1)[1] /\ Loc(l)[2] < Loc(l + 1)[2]
FreshNames == \A x, y \in Names : x # y => ren[x] # ren[y]

Emit == PrintT("@@" \o ToJson([hist |-> hist, prog |-> prog, lib |-> lib, lib2 |-> lib2, ren |-> ren,
                               flows |-> ExpFlows, calls |-> ExpCalls, binds |-> ExpBinds]))
EmitConstraint == Emit
=============================================================================
