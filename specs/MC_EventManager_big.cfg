CONSTANTS
  LangSets <- MCLangSets3
  Rets <- MCRetsSmall
  Events = {1}
  Langs = {"py", "js"}
  MaxHandlers = 3
SPECIFICATION Spec
INVARIANT LoopMeetsContract
INVARIANT OnlyMatchingRun
CHECK_DEADLOCK FALSE
