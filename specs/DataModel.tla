----------------------------- MODULE DataModel -----------------------------
(***************************************************************************)
(* Contract of lian.util.data_model.DataModel (C16).                       *)
(*                                                                         *)
(* The state is the true table only: a sequence of rows, each with its     *)
(* pandas index label and its cells, plus the column names.  Mutations     *)
(* follow the pandas semantics the wrapper exposes (label-addressed        *)
(* modify_element, position-addressed modify_row / access / slice,         *)
(* append with ignore_index, row removal keeping labels).  Every query is  *)
(* DEFINED as a scan of the current rows; this is the property.            *)
(*                                                                         *)
(* Cell values are 0..2 where 0 stands for the missing value (NaN/None).   *)
(***************************************************************************)
EXTENDS Naturals, Integers, Sequences, SequencesExt, FiniteSets

NaN == 0

(* ---------- tables ---------- *)
Row(lab, c)      == [lab |-> lab, c |-> c]
Renumber(rs)     == [i \in 1..Len(rs) |-> Row(i - 1, rs[i].c)]
Canonical(rs)    == \A i \in 1..Len(rs) : rs[i].lab = i - 1
HasCol(cs, name) == \E j \in 1..Len(cs) : cs[j] = name
ColIdx(cs, name) == CHOOSE j \in 1..Len(cs) : cs[j] = name
Cell(rs, cs, i, name) == rs[i].c[ColIdx(cs, name)]
HasLabel(rs, lab) == \E i \in 1..Len(rs) : rs[i].lab = lab

(* ---------- mutations (pure) ---------- *)
MElem(rs, cs, lab, name, v) ==
  LET j == ColIdx(cs, name) IN
  [i \in 1..Len(rs) |-> IF rs[i].lab = lab THEN Row(lab, [rs[i].c EXCEPT ![j] = v]) ELSE rs[i]]
MRow(rs, pos, newc)      == [rs EXCEPT ![pos + 1] = Row(rs[pos + 1].lab, newc)]
MCol(rs, cs, name, v)    == LET j == ColIdx(cs, name) IN
                            [i \in 1..Len(rs) |-> Row(rs[i].lab, [rs[i].c EXCEPT ![j] = v])]
MAppend(rs, newcs)       == Renumber(rs \o [i \in 1..Len(newcs) |-> Row(0, newcs[i])])
MRemove(rs, cs, name, v) == LET j == ColIdx(cs, name) IN
                            SelectSeq(rs, LAMBDA r : v = NaN \/ r.c[j] # v)     \* NaN != x is true for every x
MRename(cs, old, new)    == [j \in 1..Len(cs) |-> IF cs[j] = old THEN new ELSE cs[j]]
(* a mapping given as a sequence of <<old, new>> pairs is applied simultaneously *)
MRenameMap(cs, m)        == [j \in 1..Len(cs) |->
                               IF \E k \in 1..Len(m) : m[k][1] = cs[j]
                               THEN m[CHOOSE k \in 1..Len(m) : m[k][1] = cs[j]][2] ELSE cs[j]]
MSlice(rs, a, b)         == SubSeq(rs, a + 1, b)                                 \* iloc[a:b], 0 <= a <= b <= len
MReset(rs)               == Renumber(rs)
MFillna(rs, v)           == [i \in 1..Len(rs) |->
                               Row(rs[i].lab, [j \in 1..Len(rs[i].c) |-> IF rs[i].c[j] = NaN THEN v ELSE rs[i].c[j]])]

(* ---------- queries (scans) ---------- *)
Positions(rs, cs, name, v) ==          \* 0-based positions, ascending
  IF v = NaN THEN << >>
  ELSE LET j == ColIdx(cs, name)
           RECURSIVE P(_)
           P(i) == IF i > Len(rs) THEN << >>
                   ELSE (IF rs[i].c[j] = v THEN <<i - 1>> ELSE << >>) \o P(i + 1)
       IN P(1)

Rows(rs)  == [i \in 1..Len(rs) |-> <<rs[i].lab, rs[i].c>>]
Pick(rs, ps) == [k \in 1..Len(ps) |-> rs[ps[k] + 1]]

QAccess(rs, pos)              == IF pos >= 0 /\ pos < Len(rs) THEN <<rs[pos + 1].c, rs[pos + 1].lab>> ELSE << >>
QColumn(rs, cs, name)         == [i \in 1..Len(rs) |-> Cell(rs, cs, i, name)]
QIndex(rs, cs, name, v)       == Positions(rs, cs, name, v)
QIndexFirst(rs, cs, name, v)  == LET ps == Positions(rs, cs, name, v) IN
                                 IF ps = << >> THEN << >> ELSE <<rs[ps[1] + 1].c, ps[1]>>
QIndexDM(rs, cs, name, v)     == Rows(Pick(rs, Positions(rs, cs, name, v)))
QIter(rs)                     == Rows(rs)
QLen(rs)                      == <<Len(rs)>>
BlockDefined(rs, cs, id)      == HasCol(cs, "stmt_id") /\ Len(Positions(rs, cs, "stmt_id", id)) = 2
QReadBlock(rs, cs, id)        == LET ps == Positions(rs, cs, "stmt_id", id) IN Rows(SubSeq(rs, ps[1] + 2, ps[2]))
QReadBlockWith(rs, cs, id)    == LET ps == Positions(rs, cs, "stmt_id", id) IN
                                 IF Len(ps) < 2 THEN << >> ELSE Rows(SubSeq(rs, ps[1] + 1, ps[2] + 1))
QBoundary(rs, cs, ids)        ==
  LET all == UNION {ToSet(Positions(rs, cs, "stmt_id", ids[k])) : k \in 1..Len(ids)} IN
  <<IF all = {} THEN -1 ELSE CHOOSE m \in all : \A x \in all : x <= m>>

(* ---------- the operation alphabet: a record o with field op ---------- *)
IsMutation(o) == o.op \in {"rename_map", "modify_element", "modify_row", "modify_column", "append", "remove_rows",
                           "rename_column", "slice", "reset_index", "fillna", "touch_source", "wrap_and_touch"}

Enabled(o, rs, cs) ==
  CASE o.op = "modify_element" -> HasLabel(rs, o.lab) /\ HasCol(cs, o.col)
    [] o.op = "modify_row"     -> o.pos >= 0 /\ o.pos < Len(rs) /\ Len(o.cells) = Len(cs)
    [] o.op = "modify_column"  -> HasCol(cs, o.col) /\ Len(rs) > 0
    [] o.op = "append"         -> \A i \in 1..Len(o.rows) : Len(o.rows[i]) = Len(cs)
    [] o.op = "remove_rows"    -> HasCol(cs, o.col)
    [] o.op = "rename_column"  -> HasCol(cs, o.old) /\ ~HasCol(cs, o.new)
    [] o.op = "rename_map"     -> /\ \A k \in 1..Len(o.map) : HasCol(cs, o.map[k][1])
                                  /\ LET cs2 == MRenameMap(cs, o.map) IN \A i, j \in 1..Len(cs2) : i # j => cs2[i] # cs2[j]
    [] o.op = "slice"          -> 0 <= o.a /\ o.a <= o.b /\ o.b <= Len(rs)
    [] o.op \in {"reset_index", "fillna", "iter", "len", "access"} -> TRUE
    \* touch_source: the table that was appended last is modified in place afterwards; this table is a different table and keeps its contents
    [] o.op = "touch_source"   -> TRUE
    \* wrap_and_touch: from here on the table is a second DataModel built from this one (DataModel(t)); the first one then gets a row
    \* appended (which gives it a frame of its own) and is queried by every column: this table keeps its contents
    [] o.op = "wrap_and_touch" -> TRUE
    [] o.op \in {"column", "index", "index_first", "index_dm", "bundle"} -> HasCol(cs, o.col)
    [] o.op = "read_block"     -> BlockDefined(rs, cs, o.v)
    [] o.op \in {"read_block_with", "boundary"} -> HasCol(cs, "stmt_id")
    [] OTHER -> FALSE

NextRows(o, rs, cs) ==
  CASE o.op = "modify_element" -> MElem(rs, cs, o.lab, o.col, o.v)
    [] o.op = "modify_row"     -> MRow(rs, o.pos, o.cells)
    [] o.op = "modify_column"  -> MCol(rs, cs, o.col, o.v)
    [] o.op = "append"         -> MAppend(rs, o.rows)
    [] o.op = "remove_rows"    -> MRemove(rs, cs, o.col, o.v)
    [] o.op = "slice"          -> MSlice(rs, o.a, o.b)
    [] o.op = "reset_index"    -> MReset(rs)
    [] o.op = "fillna"         -> MFillna(rs, o.v)
    [] OTHER -> rs
NextCols(o, cs) == IF o.op = "rename_column" THEN MRename(cs, o.old, o.new)
                   ELSE IF o.op = "rename_map" THEN MRenameMap(cs, o.map) ELSE cs

(* Result of a query on the table (rs, cs); mutations return << >>. *)
Result(o, rs, cs) ==
  CASE o.op = "access"          -> QAccess(rs, o.pos)
    [] o.op = "column"          -> QColumn(rs, cs, o.col)
    [] o.op = "index"           -> QIndex(rs, cs, o.col, o.v)
    [] o.op = "bundle"          -> QIndex(rs, cs, o.col, o.v)
    [] o.op = "index_first"     -> QIndexFirst(rs, cs, o.col, o.v)
    [] o.op = "index_dm"        -> QIndexDM(rs, cs, o.col, o.v)
    [] o.op = "iter"            -> QIter(rs)
    [] o.op = "len"             -> QLen(rs)
    [] o.op = "read_block"      -> QReadBlock(rs, cs, o.v)
    [] o.op = "read_block_with" -> QReadBlockWith(rs, cs, o.v)
    [] o.op = "boundary"        -> QBoundary(rs, cs, o.ids)
    [] OTHER -> << >>

(* Positions handed out are valid for the current table. *)
PositionsValid(o, r, rs) ==
  o.op \in {"index", "bundle"} => \A k \in 1..Len(r) : r[k] >= 0 /\ r[k] < Len(rs)
=============================================================================
