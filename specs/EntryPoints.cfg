SPECIFICATION Spec
INVARIANT ModelOK
CHECK_DEADLOCK FALSE
