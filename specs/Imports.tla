------------------------------ MODULE Imports ------------------------------
(***************************************************************************)
(* C05, multi-file part - a name imported from another analysed file is    *)
(* bound to the declaration in the file that defines it.                   *)
(*                                                                         *)
(* A case is a project: units [id, decls (names declared at top level),    *)
(* imports (sequence of [kind, src (unit id, 0 = not an analysed file),    *)
(* name, alias])] and reads [unit, name, target] where target is what the  *)
(* analyser bound the read to: [unit, name] of a top-level declaration,    *)
(* [unit, "%module"] for a module object, or unit 0 = unresolved.          *)
(*                                                                         *)
(* kinds: "from"   from src import name [as alias]                         *)
(*        "star"   from src import *                                       *)
(*        "module" import src [as alias]   (also: from pkg import module)  *)
(* Lookup follows the language: the unit's own declarations first, then    *)
(* its imports, later imports shadowing earlier ones; a from-import of a   *)
(* name that the source unit itself imported is followed through           *)
(* (re-export), to any depth the project has.                              *)
(***************************************************************************)
EXTENDS Naturals, Integers, Sequences, SequencesExt, FiniteSets, TLC, Json, IOUtils

Doc == JsonDeserialize(IOEnv.CASES)
VARIABLES c, done
vars == <<c, done>>
Case == Doc.cases[c]
Unit(u) == CHOOSE x \in ToSet(Case.units) : x.id = u
HasUnit(u) == \E x \in ToSet(Case.units) : x.id = u
None == [unit |-> 0, name |-> ""]

(* what `name` denotes at the top level of unit u; fuel bounds re-export chains (and import cycles) *)
RECURSIVE Denotes(_, _, _)
Denotes(u, name, fuel) ==
  IF fuel = 0 \/ ~HasUnit(u) THEN None
  ELSE LET un == Unit(u) IN
       IF name \in ToSet(un.decls) THEN [unit |-> u, name |-> name]
       ELSE LET imps == un.imports
                \* the imports that can bring `name` into u, the last one wins
                hits == {j \in 1..Len(imps) :
                           \/ imps[j].kind = "from" /\ (IF imps[j].alias # "" THEN imps[j].alias ELSE imps[j].name) = name
                           \/ imps[j].kind = "module" /\ (IF imps[j].alias # "" THEN imps[j].alias ELSE imps[j].name) = name
                           \/ imps[j].kind = "star" /\ imps[j].src # 0 /\ Denotes(imps[j].src, name, fuel - 1).unit # 0}
            IN IF hits = {} THEN None
               ELSE LET j == CHOOSE x \in hits : \A y \in hits : y <= x
                        im == imps[j]
                    IN IF im.src = 0 THEN None
                       ELSE IF im.kind = "module" THEN [unit |-> im.src, name |-> "%module"]
                       ELSE IF im.kind = "from" THEN Denotes(im.src, im.name, fuel - 1)
                       ELSE Denotes(im.src, name, fuel - 1)
Expected(rd) == Denotes(rd.unit, rd.name, Len(Case.units) + 2)

Reads == Case.reads
Wrong == {j \in 1..Len(Reads) : [unit |-> Reads[j].target.unit, name |-> Reads[j].target.name] # Expected(Reads[j])}
Kind(j) == LET w == Expected(Reads[j])  g == Reads[j].target IN
           IF w.unit # 0 /\ g.unit = 0 THEN "imported_name_reported_unresolved"
           ELSE IF w.unit = 0 THEN "unresolvable_name_bound_to_a_declaration"
           ELSE "imported_name_bound_to_another_declaration"
Verdict == IF Wrong = {} THEN "" ELSE Kind(CHOOSE j \in Wrong : \A k \in Wrong : j <= k)

Init == c \in 1..Len(Doc.cases) /\ done = FALSE
Judge == /\ ~done /\ done' = TRUE /\ c' = c
         /\ PrintT("@@" \o ToJson([case |-> Case.name, clause |-> Verdict,
                                   wrong |-> {[read |-> j, kind |-> Kind(j), want |-> Expected(Reads[j]), got |-> Reads[j].target] : j \in Wrong}]))
Next == Judge
Spec == Init /\ [][Next]_vars
=============================================================================
