------------------------------- MODULE Loader -------------------------------
(***************************************************************************)
(* Contract of lian's result loaders (GeneralLoader and subclasses), C15.  *)
(*                                                                         *)
(*   latest[i]   the content most recently saved for item i (None: never)  *)
(*   dirtyData   a save happened since the last export                     *)
(*   dirtyIndex  the index file is older than the last save/export         *)
(*                                                                         *)
(* Get(i) returns latest[i], whatever saves, reads, cache evictions and    *)
(* exports happened in between.  When nothing is dirty, a fresh loader     *)
(* restored from the files (Restore) must behave the same: it returns      *)
(* latest[i] for every item.  Content 0 is the item with zero rows; it is  *)
(* indistinguishable from an absent item for every reader, so None and 0   *)
(* are identified by Norm.                                                 *)
(***************************************************************************)
EXTENDS Naturals, Sequences, FiniteSets

CONSTANTS Id, Content, None

Norm(x) == IF x = None THEN 0 ELSE x       \* what a reader can tell apart

VARIABLES latest, dirtyData, dirtyIndex, res
cvars == <<latest, dirtyData, dirtyIndex, res>>

CInit == /\ latest = [i \in Id |-> None] /\ dirtyData = FALSE /\ dirtyIndex = FALSE /\ res = None

CSave(i, c) == /\ latest' = [latest EXCEPT ![i] = c]
               /\ dirtyData' = TRUE /\ dirtyIndex' = TRUE /\ res' = None
CGet(i)     == /\ res' = Norm(latest[i]) /\ UNCHANGED <<latest, dirtyData, dirtyIndex>>
CExport     == /\ dirtyData' = FALSE /\ UNCHANGED <<latest, dirtyIndex>> /\ res' = None
CExportIdx  == /\ dirtyIndex' = dirtyData /\ UNCHANGED <<latest, dirtyData>> /\ res' = None
Synced      == ~dirtyData /\ ~dirtyIndex
CRestore    == /\ Synced /\ UNCHANGED <<latest, dirtyData, dirtyIndex>> /\ res' = None

CNext == \/ \E i \in Id, c \in Content : CSave(i, c)
         \/ \E i \in Id : CGet(i)
         \/ CExport \/ CExportIdx \/ CRestore
CSpec == CInit /\ [][CNext]_cvars
=============================================================================
