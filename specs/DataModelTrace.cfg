CONSTANTS
  Ops <- MCOps
  InitRows = 0
  InitCols = 0
  MaxOps = 100000
  MaxRows = 100
  FlagResetsIndexer = TRUE
  FillnaSetsFlag = TRUE
SPECIFICATION TraceSpec
CHECK_DEADLOCK FALSE
