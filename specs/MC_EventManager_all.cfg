CONSTANTS
  LangSets <- MCLangSets
  Rets <- MCRetsAll
  Events = {1, 2}
  Langs = {"py", "js"}
  MaxHandlers = 2
SPECIFICATION Spec
INVARIANT LoopMeetsContract
INVARIANT OnlyMatchingRun
CHECK_DEADLOCK FALSE
