CONSTANTS
  NM = 2
  NS = 2
  MaxCallees = 2
  MaxRound = 2
  MaxCS = 2
SPECIFICATION Spec
INVARIANT PushBound
INVARIANT InterruptBound
INVARIANT DecideBound
INVARIANT DepthBound
INVARIANT Antichain
INVARIANT CounterDomain
INVARIANT CycleCut
PROPERTY Terminates
CHECK_DEADLOCK FALSE
