-------------------------- MODULE DataModelTrace --------------------------
(***************************************************************************)
(* Trace validation of the real DataModel (C16).                           *)
(*                                                                         *)
(* Every tree node is one call on the real object: the operation with its  *)
(* arguments, the result, the frame read straight through pandas after the *)
(* call and the cache flags.  The contract (module DataModel) keeps its    *)
(* own table (crows, ccols):                                               *)
(*   - after a mutation the logged frame must be the contract's table      *)
(*     (validates the mutation rules and detects a mutation that does      *)
(*     something else than documented);                                    *)
(*   - a query's logged result must be the scan of the contract's table.   *)
(* DataModelImpl runs alongside on the same operations; its cache flags    *)
(* are compared with the logged ones (model drift, not a verdict).         *)
(***************************************************************************)
EXTENDS DataModelImpl, Json, IOUtils

Forest == JsonDeserialize(IOEnv.TRACE_FILE)
(* Only Forest is a zero-arity constant definition: TLC evaluates each such definition once per
   worker while it processes the specification, and would re-read the file for every one of them. *)
Nd(k)     == Forest.nodes[k]
T0Rows(f) == [i \in 1..Len(f.table.rows) |-> Row(i - 1, f.table.rows[i])]
T0Cols(f) == f.table.cols

VARIABLES node, crows, ccols, bad, drift
tvars == <<vars, node, crows, ccols, bad, drift>>

Kids(k) == IF k = 0 THEN Forest.roots ELSE Forest.nodes[k].kids

FrameRows(fr) == [i \in 1..Len(fr.labels) |-> Row(fr.labels[i], fr.cells[i])]

(* Row index of query_index_column_value_first is a position; judged only when labels = positions. *)
ResultOK(o, logged, rs, cs) ==
  LET exp == Result(o, rs, cs) IN
  IF o.op = "index_first" /\ ~Canonical(rs)
  THEN (exp = << >> /\ logged = << >>) \/ (exp # << >> /\ logged # << >> /\ logged[1] = exp[1])
  ELSE logged = exp

Verdict(ev, rs2, cs2) ==
  IF ~Enabled(ev, crows, ccols) THEN "harness_op_not_enabled"
  ELSE IF FrameRows(ev.frame) # rs2 \/ ev.frame.cols # cs2
       THEN (IF IsMutation(ev) THEN "mutation_" ELSE "query_changed_table_") \o ev.op
  ELSE IF IsMutation(ev) THEN (IF ev.crash # "" THEN "crash_" \o ev.op ELSE "")
  ELSE IF ev.crash # "" THEN "crash_" \o ev.op
  ELSE IF ~ResultOK(ev, ev.res, rs2, cs2) THEN "stale_or_wrong_" \o ev.op
  ELSE IF ~PositionsValid(ev, ev.res, rs2) THEN "invalid_position_" \o ev.op
  ELSE ""

Step(k) ==
  LET ev  == Nd(k)
      rs2 == NextRows(ev, crows, ccols)
      cs2 == NextCols(ev, ccols)
      v   == Verdict(ev, rs2, cs2)
  IN
  /\ node' = k
  /\ crows' = rs2 /\ ccols' = cs2
  /\ bad' = v
  /\ (v # "" => PrintT("@@" \o ToJson([file |-> IOEnv.TRACE_FILE, node |-> k, clause |-> v])))
  /\ IF v = "" /\ ~drift
     THEN /\ Do(ev)
          /\ drift' = (need' # ev.caches.need \/ DOMAIN indexer' # ToSet(ev.caches.idx))
          /\ (drift' => PrintT("@@" \o ToJson([file |-> IOEnv.TRACE_FILE, node |-> k, clause |-> "model_drift"])))
     ELSE UNCHANGED vars /\ drift' = drift

TraceInit == /\ rows = T0Rows(Forest) /\ cols = T0Cols(Forest)
             /\ need = TRUE /\ cache = << >> /\ schema = T0Cols(Forest) /\ indexer = NoIndex
             /\ res = Ok(<< >>) /\ last = [op |-> "construct"] /\ n = 0
             /\ node = 0 /\ crows = T0Rows(Forest) /\ ccols = T0Cols(Forest) /\ bad = "" /\ drift = FALSE
TraceNext == bad = "" /\ \E k \in ToSet(Kids(node)) : Step(k)
TraceSpec == TraceInit /\ [][TraceNext]_tvars
=============================================================================
