----------------------------- MODULE GIRControl -----------------------------
(***************************************************************************)
(* Control skeleton of the GIR semantics (docs/en/03.frontend/3-2): which  *)
(* statement can execute immediately after which, inside one activation of *)
(* a method.  Data is abstracted away: every test, every case selection,   *)
(* every "does this raise" is a nondeterministic choice, loop bodies run   *)
(* at most LoopBound times per activation of the loop.                     *)
(*                                                                         *)
(* The program is NOT written here: Case(c).rows are the flattened GIR     *)
(* rows that the real `lang` phase emitted for one unit, Case(c).method    *)
(* the method to run, and the block structure (block_start/block_end,      *)
(* parent_stmt_id, body-valued attributes) is interpreted by this module.  *)
(* lian's control-flow graph for the same method is Case(c).cfg; C04 says  *)
(* that every step of every behaviour of this machine is one of its edges. *)
(*                                                                         *)
(* A continuation frame is [blk, idx, kind, phase, it]:                    *)
(*   blk   the block whose statements are being run                        *)
(*   idx   position (in Children(blk)) of the statement to run next        *)
(*   kind  "plain" | "loop" (a loop body) | "try" (a try body) | "switch"  *)
(*   phase progress inside the compound statement at idx (for/try/...)     *)
(*   it    iterations started of the loop at idx                           *)
(***************************************************************************)
EXTENDS Naturals, Integers, Sequences, SequencesExt, FiniteSets, TLC, Json, IOUtils

CONSTANTS MaxSteps         \* safety net against non-termination of the walk

Doc == JsonDeserialize(IOEnv.CASES)
Case(c) == Doc.cases[c]

VARIABLES c, pc, kont, steps, done, bad,
          lastdef          \* C06: variable name -> statement that defined it last on this path (history variable)
vars == <<c, pc, kont, steps, done, bad, lastdef>>

LoopBound == Case(c).loop_bound        \* iterations per loop activation (2 for C04, 1 for C06)

Rows == Case(c).rows
IsMarker(r) == r.op \in {"block_start", "block_end"}
Children(b) == SelectSeq(Rows, LAMBDA r : r.parent = b /\ ~IsMarker(r))
RowOf(id) == CHOOSE r \in ToSet(Rows) : r.id = id /\ ~IsMarker(r)

Frame(b, kind) == [blk |-> b, idx |-> 1, kind |-> kind, phase |-> 0, it |-> 0]

Top  == kont[Len(kont)]
Kids == Children(Top.blk)
AtEnd == Top.idx > Len(Kids)
Cur  == Kids[Top.idx]

SetTop(k, f) == [k EXCEPT ![Len(k)] = f]
Adv(k) == SetTop(k, [k[Len(k)] EXCEPT !.idx = @ + 1, !.phase = 0, !.it = 0])
Push(k, b, kind) == IF b = 0 THEN k ELSE Append(k, Frame(b, kind))

LoopOps   == {"while_stmt", "forin_stmt", "for_value_stmt"}
AlwaysTrue(r) == r.condition \in {"true", "True"}

(* innermost frame of one of the given kinds (0 if none) *)
Innermost(kinds) == IF \E j \in 1..Len(kont) : kont[j].kind \in kinds
                    THEN CHOOSE j \in 1..Len(kont) : kont[j].kind \in kinds /\ \A i \in (j + 1)..Len(kont) : kont[i].kind \notin kinds
                    ELSE 0

Init == /\ c \in 1..Len(Doc.cases)
        /\ pc = 0 /\ steps = 0 /\ done = FALSE /\ bad = "" /\ lastdef = << >>
        /\ LET m == RowOf(Case(c).method) IN
           kont = IF m.parameters # 0 THEN <<Frame(m.body, "plain"), Frame(m.parameters, "plain")>>
                  ELSE <<Frame(m.body, "plain")>>

(* ------------------------------------------------------------------ *)
(* A step that executes the statement s: the property hooks live here. *)
EdgeOK(a, b) == a = 0 \/ <<a, b>> \in ToSet(Case(c).cfg)
(* where the step starts, for the report: which kinds of constructs enclose the statement that has just run *)
Has(kind) == \E j \in 1..Len(kont) : kont[j].kind = kind
Ctx == (IF Has("switch") THEN "switch." ELSE "") \o (IF Has("try") THEN "try." ELSE "") \o (IF Has("loop") THEN "loop." ELSE "") \o "top"

(* ---- definitions and uses of a row, from its attributes (the documented roles of the instruction set) ---- *)
DeclOps == {"parameter_decl", "variable_decl"}
Defs(r) == (IF r.target_v THEN {r.target} ELSE {})
           \cup (IF r.op \in DeclOps \cup {"forin_stmt", "for_value_stmt"} /\ r.name_v THEN {r.name} ELSE {})
Uses(r) == (IF r.operand_v THEN {r.operand} ELSE {}) \cup (IF r.operand2_v THEN {r.operand2} ELSE {})
           \cup (IF r.condition_v THEN {r.condition} ELSE {}) \cup (IF r.receiver_v THEN {r.receiver} ELSE {})
           \cup (IF r.op = "return_stmt" /\ r.name_v THEN {r.name} ELSE {})
           \cup ToSet(r.arg_names)
(* what lian treats as reaching the use of v at statement id: Case(c).rd[ToString(id)] = sequence of <<name, def stmt>> *)
RDof(id, v) == LET key == ToString(id) IN
               IF key \in DOMAIN Case(c).rd
               THEN {Case(c).rd[key][j][2] : j \in {i \in 1..Len(Case(c).rd[key]) : Case(c).rd[key][i][1] = v}}
               ELSE {}
ReachBad(id) == IF Case(c).check # "rd" THEN {}
                ELSE {v \in Uses(RowOf(id)) : v \in DOMAIN lastdef /\ lastdef[v] \notin RDof(id, v)}
NextDef(id) == IF Case(c).check # "rd" THEN lastdef
               ELSE [v \in (DOMAIN lastdef) \cup Defs(RowOf(id)) |-> IF v \in Defs(RowOf(id)) THEN id ELSE lastdef[v]]

(* every node of the method's CFG is a statement of the method: an edge from or to a statement of another method (state that leaked from the
   analysis of a method analysed earlier) gives the method a wrong entry or a foreign successor.  Judged once, when the first statement runs. *)
OwnIds == {Case(c).rows[j].id : j \in 1..Len(Case(c).rows)}
Foreign == {e \in ToSet(Case(c).cfg) : (e[1] > 0 /\ e[1] \notin OwnIds) \/ (e[2] > 0 /\ e[2] \notin OwnIds)}
Exec(id, k2) ==
  /\ pc' = id /\ kont' = k2 /\ steps' = steps + 1 /\ UNCHANGED <<c, done>>
  /\ lastdef' = NextDef(id)
  /\ bad' = IF Case(c).check = "cfg" /\ pc = 0 /\ Foreign # {} THEN "cfg_contains_statement_of_another_method"
            ELSE IF Case(c).check = "cfg" /\ ~EdgeOK(pc, id) THEN "edge_missing"
            ELSE IF ReachBad(id) # {} THEN "reaching_definition_missing" ELSE ""
  /\ (bad' = "cfg_contains_statement_of_another_method" =>
        LET e == CHOOSE x \in Foreign : TRUE IN
        PrintT("@@" \o ToJson([case |-> Case(c).name, clause |-> bad', src |-> e[1], dst |-> e[2], ctx |-> "top",
                               srcop |-> "foreign", dstop |-> IF id > 0 THEN RowOf(id).op ELSE "exit"])))
  /\ (bad' = "edge_missing" =>
        PrintT("@@" \o ToJson([case |-> Case(c).name, clause |-> bad', src |-> pc, dst |-> id, ctx |-> Ctx,
                               srcop |-> IF pc > 0 THEN RowOf(pc).op ELSE "entry",
                               dstop |-> IF id > 0 THEN RowOf(id).op ELSE "exit"])))
  /\ (bad' = "reaching_definition_missing" =>
        LET v == CHOOSE x \in ReachBad(id) : TRUE IN
        PrintT("@@" \o ToJson([case |-> Case(c).name, clause |-> bad', use |-> id, var |-> v, def |-> lastdef[v],
                               lian |-> RDof(id, v), useop |-> RowOf(id).op])))
Silent(k2) == /\ kont' = k2 /\ UNCHANGED <<c, pc, steps, done, bad, lastdef>>

(* ------------------------------------------------------------------ *)
PopFrame == /\ kont # << >> /\ AtEnd /\ Len(kont) > 1
            /\ Silent(SubSeq(kont, 1, Len(kont) - 1))

Finish == /\ ~done /\ (IF kont = << >> THEN TRUE ELSE AtEnd /\ Len(kont) = 1)
          /\ pc' = -1 /\ done' = TRUE /\ kont' = << >> /\ steps' = steps + 1 /\ UNCHANGED <<c, lastdef>>
          /\ bad' = IF Case(c).check = "cfg" /\ ~EdgeOK(pc, -1) THEN "exit_edge_missing" ELSE ""
          /\ (bad' # "" => PrintT("@@" \o ToJson([case |-> Case(c).name, clause |-> bad', src |-> pc, dst |-> -1, ctx |-> "top",
                                                   srcop |-> IF pc > 0 THEN RowOf(pc).op ELSE "entry", dstop |-> "exit"])))

(* class-like declarations: the declaration, then its static initialiser, initialiser, member methods and nested
   declarations in that order (each member declaration is one step; their bodies belong to other methods) *)
ClassOps == {"class_decl", "record_decl", "interface_decl", "struct_decl"}
ClassDecl == /\ Cur.op \in ClassOps
             /\ CASE Top.phase = 0 -> Exec(Cur.id, Push(SetTop(kont, [Top EXCEPT !.phase = 1]), Cur.static_init, "plain"))
                  [] Top.phase = 1 -> Silent(Push(SetTop(kont, [Top EXCEPT !.phase = 2]), Cur.init, "plain"))
                  [] Top.phase = 2 -> Silent(Push(SetTop(kont, [Top EXCEPT !.phase = 3]), Cur.methods, "plain"))
                  [] Top.phase = 3 -> Silent(Push(SetTop(kont, [Top EXCEPT !.phase = 4]), Cur.nested, "plain"))
                  [] Top.phase = 4 -> Silent(Adv(kont))

Simple == /\ Cur.op \notin (LoopOps \cup ClassOps \cup {"if_stmt", "for_stmt", "dowhile_stmt", "break_stmt", "continue_stmt", "return_stmt",
                                          "try_stmt", "switch_stmt", "case_stmt", "default_stmt", "catch_clause", "goto_stmt"})
          /\ Exec(Cur.id, Adv(kont))

(* goto name: control continues at the label_stmt of that name.  The continuation is rebuilt from the label's position: the block it
   sits in from the label on, then the rest of each enclosing block after the statement that encloses it.  Supported when every
   statement that encloses the label is an if (or the label sits in the method body itself); a goto whose label sits inside a loop,
   a try or a switch ends the walk of this behaviour without a verdict (the jump may start anywhere: out of loops, ifs, tries). *)
LabelRows(name) == {r \in ToSet(Rows) : r.op = "label_stmt" /\ r.name = name}
PosIn(b, id) == CHOOSE j \in 1..Len(Children(b)) : Children(b)[j].id = id
OwnerOf(b) == (CHOOSE r \in ToSet(Rows) : r.id = b /\ r.op = "block_start").parent
RECURSIVE KontAt(_, _, _)
KontAt(b, j, fuel) ==
  LET o == OwnerOf(b) IN
  IF fuel = 0 THEN << >>
  ELSE IF o = Case(c).method THEN <<[Frame(b, "plain") EXCEPT !.idx = j]>>
  ELSE LET orow == RowOf(o) IN
       IF orow.op # "if_stmt" THEN << >>
       ELSE LET outer == KontAt(orow.parent, PosIn(orow.parent, o) + 1, fuel - 1) IN
            IF outer = << >> THEN << >> ELSE Append(outer, [Frame(b, "plain") EXCEPT !.idx = j])
Goto == /\ Cur.op = "goto_stmt"
        /\ LET ls == LabelRows(Cur.name)
               k2 == IF ls = {} THEN << >> ELSE LET l == CHOOSE r \in ls : TRUE IN KontAt(l.parent, PosIn(l.parent, l.id), 8)
           IN IF k2 = << >>
              THEN /\ done' = TRUE /\ kont' = << >> /\ UNCHANGED <<c, pc, steps, bad, lastdef>>      \* unsupported target: no verdict for this path
              ELSE Exec(Cur.id, k2)

If == /\ Cur.op = "if_stmt"
      /\ \E b \in BOOLEAN : Exec(Cur.id, Push(Adv(kont), IF b THEN Cur.then_body ELSE Cur.else_body, "plain"))

(* while / for-in / for-of: the row itself is the test; the body frame sits on top while idx stays on the row.
   A condition_prebody (the statements that evaluate the condition; C and Java frontends) runs before every test:
   phase 0 = prebody still to run, phase 1 = test. *)
While == /\ Cur.op \in LoopOps
         /\ IF Top.phase = 0 /\ Cur.condition_prebody # 0
            THEN Silent(Push(SetTop(kont, [Top EXCEPT !.phase = 1]), Cur.condition_prebody, "plain"))
            ELSE \/ /\ Top.it < LoopBound
                    /\ Exec(Cur.id, Push(SetTop(kont, [Top EXCEPT !.it = @ + 1, !.phase = 0]), Cur.body, "loop"))
                 \/ /\ ~AlwaysTrue(Cur)
                    /\ Exec(Cur.id, Push(Adv(kont), Cur.else_body, "plain"))

(* for (init_body; condition_prebody; condition; update_body) body *)
For == /\ Cur.op = "for_stmt"
       /\ CASE Top.phase = 0 -> Silent(Push(SetTop(kont, [Top EXCEPT !.phase = 1]), Cur.init_body, "plain"))
            [] Top.phase = 1 -> Silent(Push(SetTop(kont, [Top EXCEPT !.phase = 2]), Cur.condition_prebody, "plain"))
            [] Top.phase = 2 -> \/ /\ Top.it < LoopBound
                                   /\ Exec(Cur.id, Push(SetTop(kont, [Top EXCEPT !.phase = 3, !.it = @ + 1]), Cur.body, "loop"))
                                \/ /\ ~AlwaysTrue(Cur) /\ Exec(Cur.id, Adv(kont))
            [] Top.phase = 3 -> Silent(Push(SetTop(kont, [Top EXCEPT !.phase = 1]), Cur.update_body, "plain"))

(* do body while (condition): phase 0 = enter the body, 1 = body done: run the condition_prebody, 2 = test *)
DoWhile == /\ Cur.op = "dowhile_stmt"
           /\ CASE Top.phase = 0 -> Silent(Push(SetTop(kont, [Top EXCEPT !.phase = 1, !.it = 1]), Cur.body, "loop"))
                [] Top.phase = 1 -> Silent(Push(SetTop(kont, [Top EXCEPT !.phase = 2]), Cur.condition_prebody, "plain"))
                [] Top.phase = 2 -> \/ /\ Top.it < LoopBound
                                       /\ Exec(Cur.id, Push(SetTop(kont, [Top EXCEPT !.it = @ + 1, !.phase = 1]), Cur.body, "loop"))
                                    \/ Exec(Cur.id, Adv(kont))

(* break leaves the innermost loop (or switch, in languages where break ends a case) *)
BreakKinds == IF Case(c).switch_break THEN {"loop", "switch"} ELSE {"loop"}
Break == /\ Cur.op = "break_stmt"
         /\ LET j == Innermost(BreakKinds) IN
            IF j <= 1 THEN Exec(Cur.id, << >>)          \* stray break: leaves the activation
            ELSE IF kont[j].kind = "switch" THEN Exec(Cur.id, SubSeq(kont, 1, j - 1))   \* the switch row was left already
            ELSE Exec(Cur.id, Adv(SubSeq(kont, 1, j - 1)))

(* continue goes back to the statement that owns the innermost loop body: re-test, or update for a counted loop *)
Continue == /\ Cur.op = "continue_stmt"
            /\ LET j == Innermost({"loop"}) IN
               IF j <= 1 THEN Exec(Cur.id, << >>)
               ELSE Exec(Cur.id, SubSeq(kont, 1, j - 1))

Return == /\ Cur.op = "return_stmt" /\ Exec(Cur.id, << >>)

(* try {body} catch {catch_body} else {else_body} finally {final_body} *)
CatchClauses(r) == IF r.catch_body = 0 THEN << >> ELSE Children(r.catch_body)
Try == /\ Cur.op = "try_stmt"
       /\ CASE Top.phase = 0 -> Exec(Cur.id, Push(SetTop(kont, [Top EXCEPT !.phase = 1]), Cur.body, "try"))
            [] Top.phase = 1 -> Silent(Push(SetTop(kont, [Top EXCEPT !.phase = 3]), Cur.else_body, "plain"))   \* no exception
            [] Top.phase = 2 -> \* an exception arrived: one of the clauses takes it
                 \E k \in 1..Len(CatchClauses(Cur)) :
                    LET cl == CatchClauses(Cur)[k] IN
                    Exec(cl.id, Push(SetTop(kont, [Top EXCEPT !.phase = 3]), cl.body, "plain"))
            [] Top.phase = 3 -> Silent(Push(SetTop(kont, [Top EXCEPT !.phase = 4]), Cur.final_body, "plain"))
            [] Top.phase = 4 -> Silent(Adv(kont))

(* a statement of a try body raises: control goes to the clauses of the innermost try that has some.
   RaiseMode "end": only when the try body has just completed its last statement; "any": after any statement. *)
Raise == /\ Case(c).raise_mode # "none" /\ kont # << >>
         /\ LET j == Innermost({"try"}) IN
            /\ j > 1
            /\ pc # 0
            /\ LET owner == Children(kont[j - 1].blk)[kont[j - 1].idx] IN
               /\ owner.catch_body # 0 /\ kont[j - 1].phase = 1
               /\ pc # owner.id                                  \* some statement of the body has run
               /\ (Case(c).raise_mode = "any" \/ (j = Len(kont) /\ AtEnd))
               /\ Silent(SetTop(SubSeq(kont, 1, j - 1), [kont[j - 1] EXCEPT !.phase = 2]))

(* switch (condition) { case ...: body  default: body } *)
Switch == /\ Cur.op = "switch_stmt"
          /\ LET cs == IF Cur.body = 0 THEN << >> ELSE Children(Cur.body)
                 hasDefault == \E k \in 1..Len(cs) : cs[k].op = "default_stmt"
             IN \/ \E k \in 1..Len(cs) :
                     Exec(Cur.id, Append(Adv(kont), [Frame(Cur.body, "switch") EXCEPT !.idx = k]))
                \/ /\ ~hasDefault /\ Exec(Cur.id, Adv(kont))      \* nothing matches

(* inside the switch frame: phase 0 = the case label is reached by selection, phase 1 = its body has run,
   phase 2 = reached by falling through from the previous body (the label itself is not executed) *)
Case_ == /\ Cur.op \in {"case_stmt", "default_stmt"}
         /\ CASE Top.phase = 0 -> Exec(Cur.id, Push(SetTop(kont, [Top EXCEPT !.phase = 1]), Cur.body, "plain"))
              [] Top.phase = 2 -> Silent(Push(SetTop(kont, [Top EXCEPT !.phase = 1]), Cur.body, "plain"))
              [] Top.phase = 1 ->
                   IF Case(c).fallthrough /\ Top.idx < Len(Kids)
                   THEN Silent(SetTop(kont, [Top EXCEPT !.idx = @ + 1, !.phase = 2]))
                   ELSE Silent(SubSeq(kont, 1, Len(kont) - 1))

Step == /\ kont # << >> /\ ~AtEnd
        /\ (Simple \/ Goto \/ ClassDecl \/ If \/ While \/ For \/ DoWhile \/ Break \/ Continue \/ Return \/ Try \/ Switch \/ Case_)

Next == /\ bad = "" /\ ~done /\ steps < MaxSteps
        /\ (Step \/ PopFrame \/ Finish \/ Raise)
Spec == Init /\ [][Next]_vars

(* C04 as an action property (the same clause is what sets bad; spec-level use is for hand-written cases) *)
EveryStepIsAnEdge == [][pc' # pc => EdgeOK(pc, pc')]_vars
=============================================================================
