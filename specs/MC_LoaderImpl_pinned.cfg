CONSTANTS
  Id = {1, 2}
  Content = {0, 1, 2}
  None = None
  ItemCap = 1
  BundleCap = 1
  MaxRows = 2
  MaxOps = 6
  MaxBundles = 4
  SaveDropsCachedItem = FALSE
  SaveAdjustsLength = TRUE
  PutsExportedBundleInCache = TRUE
SPECIFICATION Spec
PROPERTY ReadsReturnLatest
INVARIANT FilesHoldEverything
INVARIANT ActiveConsistent
INVARIANT CachesBounded
INVARIANT NoEmptyBundleFile
INVARIANT LengthIsExact
CHECK_DEADLOCK FALSE
