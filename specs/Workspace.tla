------------------------------ MODULE Workspace ------------------------------
(***************************************************************************)
(* Design-level model of how lian prepares its workspace (C18):            *)
(* main.Lian.set_workspace_dir, preparation.WorkspaceBuilder.              *)
(* manage_directory / run / copytree_with_extension, step by step, over a  *)
(* small universe of paths (sequences of names).  TLC explores every       *)
(* placement of the workspace relative to the input, with and without      *)
(* --force, fresh and pre-populated.                                       *)
(*                                                                         *)
(*   PruneWorkspace    = TRUE : the repaired copy walk (the workspace is   *)
(*                              pruned from os.walk); FALSE is the pinned  *)
(*                              code, which re-copies its own copies       *)
(*   RefuseInputInside = TRUE : the repaired manage_directory (quits when  *)
(*                              an input lies inside the workspace);       *)
(*                              FALSE is the pinned code, which deletes it *)
(***************************************************************************)
EXTENDS Naturals, Sequences, SequencesExt, FiniteSets

CONSTANTS MaxDepth, PruneWorkspace, RefuseInputInside

D == "lw"                                   \* the default workspace name
Under(a, p)       == IsPrefix(a, p)
StrictUnder(a, p) == IsPrefix(a, p) /\ Len(p) > Len(a)
Parent(p)         == SubSeq(p, 1, Len(p) - 1)
ChildOf(d, p)     == Len(p) = Len(d) + 1 /\ IsPrefix(d, p)
PrefixesOf(p)     == {SubSeq(p, 1, k) : k \in 1..Len(p)}

(* the input project at path i *)
InputDirs(i)  == {i, i \o <<"sub">>}
InputFiles(i) == {i \o <<"a">>, i \o <<"sub", "a">>}

(* set_workspace_dir: the default name is appended unless the option already contains it *)
Eff(w) == IF \E k \in 1..Len(w) : w[k] = D THEN w ELSE w \o <<D>>

Placements ==
  { [w |-> <<"ws">>,       i |-> <<"in">>,             pre |-> FALSE],      \* disjoint
    [w |-> <<"ws">>,       i |-> <<"in">>,             pre |-> TRUE],
    [w |-> <<"in", "ws">>, i |-> <<"in">>,             pre |-> FALSE],      \* workspace inside the input
    [w |-> <<"in", "ws">>, i |-> <<"in">>,             pre |-> TRUE],
    [w |-> <<"in">>,       i |-> <<"in">>,             pre |-> FALSE],      \* identical
    [w |-> <<"ws">>,       i |-> <<"ws", D, "in">>,    pre |-> FALSE],      \* input inside the workspace
    [w |-> <<"ws">>,       i |-> <<"ws", "in">>,       pre |-> FALSE],      \* input inside the option directory only
    [w |-> <<D>>,          i |-> <<"in">>,             pre |-> TRUE],       \* option names the workspace itself
    [w |-> << >>,          i |-> <<"in">>,             pre |-> FALSE] }     \* workspace next to the input (cwd)

VARIABLES pl, force, dirs, files, phase, frontier, created, deleted, copies, overflow
vars == <<pl, force, dirs, files, phase, frontier, created, deleted, copies, overflow>>

eff == Eff(pl.w)
PreDirs(p)  == IF p.pre THEN PrefixesOf(Eff(p.w)) \cup {Eff(p.w) \o <<"od">>} ELSE {}
PreFiles(p) == IF p.pre THEN {Eff(p.w) \o <<"old">>, Eff(p.w) \o <<"od", "x">>} ELSE {}
InitDirs(p)  == InputDirs(p.i) \cup (PrefixesOf(p.i) \ {p.i}) \cup PreDirs(p)
InitFiles(p) == InputFiles(p.i) \cup PreFiles(p)

Init == /\ pl \in Placements /\ force \in BOOLEAN
        /\ dirs = InitDirs(pl) /\ files = InitFiles(pl)
        /\ phase = "start" /\ frontier = {} /\ created = {} /\ deleted = {} /\ copies = 0 /\ overflow = FALSE

(* manage_directory: quit without --force; (repaired) quit when the input is inside the workspace *)
Start == /\ phase = "start"
         /\ phase' = IF ~force THEN "quit"
                     ELSE IF RefuseInputInside /\ Under(eff, pl.i) THEN "quit" ELSE "mk"
         /\ UNCHANGED <<pl, force, dirs, files, frontier, created, deleted, copies, overflow>>

MkWorkspace == /\ phase = "mk"
               /\ dirs' = dirs \cup PrefixesOf(eff)
               /\ created' = created \cup (PrefixesOf(eff) \ dirs)
               /\ phase' = "clean"
               /\ UNCHANGED <<pl, force, files, frontier, deleted, copies, overflow>>

(* every child of the workspace directory is unlinked / rmtree'd *)
Clean == /\ phase = "clean"
         /\ IF \E x \in dirs \cup files : ChildOf(eff, x)
            THEN \E x \in dirs \cup files :
                   /\ ChildOf(eff, x)
                   /\ LET gone == {p \in dirs \cup files : Under(x, p)} IN
                      /\ dirs' = dirs \ gone /\ files' = files \ gone /\ deleted' = deleted \cup gone
                   /\ UNCHANGED phase
            ELSE phase' = "subdirs" /\ UNCHANGED <<dirs, files, deleted>>
         /\ UNCHANGED <<pl, force, frontier, created, copies, overflow>>

Subdirs == /\ phase = "subdirs"
           /\ dirs' = dirs \cup {eff \o <<"src">>} /\ created' = created \cup {eff \o <<"src">>}
           /\ phase' = "inputs"
           /\ UNCHANGED <<pl, force, files, frontier, deleted, copies, overflow>>

(* run(): an input whose real path contains the default name is skipped *)
Inputs == /\ phase = "inputs"
          /\ IF (\E k \in 1..Len(pl.i) : pl.i[k] = D) \/ pl.i \notin dirs
             THEN phase' = "done" /\ UNCHANGED frontier
             ELSE phase' = "walk" /\ frontier' = {pl.i}
          /\ UNCHANGED <<pl, force, dirs, files, created, deleted, copies, overflow>>

(* one iteration of os.walk inside copytree_with_extension: the listing is taken at visit time *)
Visit(d) ==
  /\ phase = "walk" /\ d \in frontier
  /\ LET rel  == SubSeq(d, Len(pl.i) + 1, Len(d))
         dst  == eff \o <<"src", Last(pl.i)>> \o rel
         subs == {x \in dirs : ChildOf(d, x) /\ ~(PruneWorkspace /\ x = eff)}
         fs   == {x \in files : ChildOf(d, x)}
     IN IF Len(dst) + 1 > MaxDepth
        THEN /\ overflow' = TRUE /\ frontier' = {} /\ UNCHANGED <<dirs, files, created, copies>>
        ELSE /\ dirs' = dirs \cup PrefixesOf(dst)
             /\ files' = files \cup {dst \o <<Last(x)>> : x \in fs}
             /\ created' = created \cup (PrefixesOf(dst) \ dirs) \cup {dst \o <<Last(x)>> : x \in fs}
             /\ copies' = copies + Cardinality(fs)
             /\ frontier' = (frontier \ {d}) \cup subs
             /\ UNCHANGED overflow
  /\ UNCHANGED <<pl, force, phase, deleted>>

WalkDone == /\ phase = "walk" /\ frontier = {} /\ phase' = "done"
            /\ UNCHANGED <<pl, force, dirs, files, frontier, created, deleted, copies, overflow>>

Next == Start \/ MkWorkspace \/ Clean \/ Subdirs \/ Inputs \/ (\E d \in frontier : Visit(d)) \/ WalkDone
Spec == Init /\ [][Next]_vars /\ WF_vars(Next)

---------------------------------------------------------------------------
(* C18 *)
IsInputContent(p) == Under(pl.i, p) /\ (Under(eff, pl.i) \/ ~Under(eff, p))
CreatedOnlyInWorkspace == \A p \in created : Under(eff, p) \/ IsPrefix(p, eff)
DeletedOnlyPreviousContents == \A p \in deleted : StrictUnder(eff, p) /\ force
InputsIntact == \A p \in InitFiles(pl) \cup InitDirs(pl) : IsInputContent(p) => p \in dirs \cup files
OutsideIntact == \A p \in InitFiles(pl) \cup InitDirs(pl) : ~Under(eff, p) => p \in dirs \cup files
BoundedCopy == ~overflow /\ copies <= Cardinality(InputFiles(pl.i))
NothingWithoutForce == ~force => (created = {} /\ deleted = {})
Terminates == <>(phase \in {"done", "quit"})
=============================================================================
