CONSTANTS
  Ops <- MCOps
  InitRows <- MCInitRows
  InitCols <- MCInitCols
  MaxOps = 4
  MaxRows = 4
  FlagResetsIndexer = TRUE
  FillnaSetsFlag = TRUE
SPECIFICATION Spec
INVARIANT QueryReflectsTable
INVARIANT PositionsAreValid
INVARIANT NeverCrashes
INVARIANT CacheCoherent
INVARIANT IndexerCoherent
INVARIANT SchemaCoherent
CHECK_DEADLOCK FALSE
