CONSTANTS
  MaxSteps = 3000
SPECIFICATION Spec
CONSTRAINT ReportConstraint
CHECK_DEADLOCK FALSE
