CONSTANTS
  MaxSteps = 40000
SPECIFICATION Spec
CONSTRAINT ReportConstraint
CHECK_DEADLOCK FALSE
