---------------------------- MODULE EventManager ----------------------------
(***************************************************************************)
(* C17 - event dispatch of lian.events.event_manager.EventManager.         *)
(*                                                                         *)
(* Contract (pure operators, shared with the trace specification):         *)
(*   for a registry (sequence of handlers in registration order), an event *)
(*   kind and a language, which handlers run, what each one sees, where    *)
(*   the dispatch stops and what notify returns.                           *)
(* Implementation-shaped model: the notify loop, one action per iteration. *)
(* TLC checks loop => contract for every registry of bounded size.         *)
(*                                                                         *)
(* Return values: -1 stands for "returned nothing" (None), otherwise the   *)
(* integer flag word: 0 UNPROCESSED, 1 SUCCESS, 2 STOP_OTHER_HANDLERS,     *)
(* 4 STOP_REQUESTERS, 8 INTERRUPTION_CALL.  As in the code, any word other *)
(* than UNPROCESSED counts as processed (it contributes SUCCESS), and a    *)
(* handler that returns nothing contributes no flag but its data is handed *)
(* on (default handlers rely on that).                                     *)
(***************************************************************************)
EXTENDS Naturals, Integers, Sequences, SequencesExt, FiniteSets

AnyLang == "%"
FlagBits == {1, 2, 4, 8}
Bits(r) == IF r < 0 THEN {} ELSE {b \in FlagBits : (r \div b) % 2 = 1}
HasStop(r)   == 2 \in Bits(r)
Processed(r) == r # 0                      \* None (-1) included, see above
Contributes(r) == Bits(r) \cup (IF r > 0 THEN {1} ELSE {})

(* handler record: [id, ev, langs (sequence), ret, w]; w: the stub writes out_data even when it declines (ret = 0) *)
Matches(h, lang) == lang \in ToSet(h.langs) \/ AnyLang \in ToSet(h.langs)
Cand(reg, ev, lang) == SelectSeq(reg, LAMBDA h : h.ev = ev /\ Matches(h, lang))

(* Given the candidates and the returns observed for the first m of them. *)
FirstStop(rets) == IF \E k \in 1..Len(rets) : HasStop(rets[k])
                   THEN CHOOSE k \in 1..Len(rets) : HasStop(rets[k]) /\ \A j \in 1..(k - 1) : ~HasStop(rets[j])
                   ELSE 0
ExpectedCount(cand, rets) ==                \* how many candidates must have run
  IF FirstStop(rets) # 0 THEN FirstStop(rets) ELSE Len(cand)
ExpectedReturn(rets) == UNION {Contributes(rets[k]) : k \in 1..Len(rets)}
(* token seen by the k-th invoked handler: what the last processed predecessor left, else the original *)
RECURSIVE LastProcessed(_, _)
LastProcessed(rets, k) == IF k = 0 THEN 0 ELSE IF Processed(rets[k]) THEN k ELSE LastProcessed(rets, k - 1)
ExpectedSeen(rets, outs, in0, k) ==
  LET j == LastProcessed(rets, k - 1) IN IF j = 0 THEN in0 ELSE outs[j]

(* The whole judgement of one notify call. *)
NotifyVerdict(reg, ev, lang, in0, invoked, rets, seen, outs, ret) ==
  LET cand == Cand(reg, ev, lang)
      ids  == [k \in 1..Len(cand) |-> cand[k].id]
  IN
  IF Len(invoked) > Len(ids) \/ invoked # SubSeq(ids, 1, Len(invoked))
  THEN "wrong_handlers_or_order"
  ELSE IF Len(invoked) # ExpectedCount(cand, rets)
  THEN (IF Len(invoked) < ExpectedCount(cand, rets) THEN "stopped_early_or_handler_skipped" ELSE "ran_after_stop")
  ELSE IF \E k \in 1..Len(invoked) : seen[k] # ExpectedSeen(rets, outs, in0, k)
  THEN "wrong_data_seen"
  ELSE IF Bits(ret) # ExpectedReturn(rets)
  THEN "wrong_return_flags"
  ELSE ""

---------------------------------------------------------------------------
(* Implementation-shaped model of notify(): the loop over the per-event list. *)
CONSTANTS LangSets,     \* set of sequences of language names
          Rets,         \* set of return words
          Events, Langs, MaxHandlers

VARIABLES reg, ev, lang, cursor, acc, inTok, outTok, invoked, rets, seen, outs, done
vars == <<reg, ev, lang, cursor, acc, inTok, outTok, invoked, rets, seen, outs, done>>

Handler(i, e, ls, r, w) == [id |-> i, ev |-> e, langs |-> ls, ret |-> r, w |-> w]
(* a return "word" 100 stands for: declines (UNPROCESSED) but has written out_data *)
RetOf(r) == IF r = 100 THEN 0 ELSE r
Registries(n) == {[i \in 1..n |-> Handler(i, f[i][1], f[i][2], RetOf(f[i][3]), f[i][3] = 100)] : f \in [1..n -> Events \X LangSets \X Rets]}

Init == /\ reg \in UNION {Registries(n) : n \in 0..MaxHandlers}
        /\ ev \in Events /\ lang \in Langs
        /\ cursor = 1 /\ acc = {} /\ inTok = 0 /\ outTok = 0     \* data.out_data = data.in_data
        /\ invoked = << >> /\ rets = << >> /\ seen = << >> /\ outs = << >> /\ done = FALSE

(* self.event_handlers.get(data.event): the list of this event kind, registration order *)
List == SelectSeq(reg, LAMBDA h : h.ev = ev)

Skip == /\ ~done /\ cursor <= Len(List) /\ ~Matches(List[cursor], lang)
        /\ cursor' = cursor + 1
        /\ UNCHANGED <<reg, ev, lang, acc, inTok, outTok, invoked, rets, seen, outs, done>>

Invoke ==
  /\ ~done /\ cursor <= Len(List) /\ Matches(List[cursor], lang)
  /\ LET h    == List[cursor]
         out2 == IF h.ret # 0 \/ h.w THEN h.id ELSE outTok  \* stubs write their token when they process (or w)
         acc2 == acc \cup Contributes(h.ret)               \* sync_event_return
     IN /\ invoked' = Append(invoked, h.id) /\ rets' = Append(rets, h.ret)
        /\ seen' = Append(seen, inTok) /\ outs' = Append(outs, out2)
        /\ outTok' = out2 /\ acc' = acc2
        /\ IF 2 \in acc2                                   \* should_block_other_event_handlers(event_return)
           THEN done' = TRUE /\ UNCHANGED <<inTok, cursor>>
           ELSE /\ done' = FALSE /\ cursor' = cursor + 1
                /\ inTok' = IF Processed(h.ret) THEN out2 ELSE inTok
  /\ UNCHANGED <<reg, ev, lang>>

Finish == /\ ~done /\ cursor > Len(List) /\ done' = TRUE
          /\ UNCHANGED <<reg, ev, lang, cursor, acc, inTok, outTok, invoked, rets, seen, outs>>

Next == Skip \/ Invoke \/ Finish
Spec == Init /\ [][Next]_vars /\ WF_vars(Next)

(* loop => contract *)
RetWord == IF acc = {} THEN 0 ELSE (IF 1 \in acc THEN 1 ELSE 0) + (IF 2 \in acc THEN 2 ELSE 0)
                                  + (IF 4 \in acc THEN 4 ELSE 0) + (IF 8 \in acc THEN 8 ELSE 0)
LoopMeetsContract == done => NotifyVerdict(reg, ev, lang, 0, invoked, rets, seen, outs, RetWord) = ""
OnlyMatchingRun   == \A k \in 1..Len(invoked) : \E h \in ToSet(reg) : h.id = invoked[k] /\ h.ev = ev /\ Matches(h, lang)
Terminates        == <>done
=============================================================================
