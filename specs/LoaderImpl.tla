----------------------------- MODULE LoaderImpl -----------------------------
(***************************************************************************)
(* Implementation-shaped model of util.loader.GeneralLoader: one action    *)
(* per public method, following the branches of the code.                  *)
(*                                                                         *)
(*   itemLRU    item_cache: sequence of <<id, content>>, least recent first*)
(*   bundleLRU  bundle_cache: sequence of bundle ids, least recent first   *)
(*   active     active_bundle: id -> content | None                        *)
(*   activeLen  active_bundle_length                                       *)
(*   index      item_id_to_bundle_id: id -> None | -1 (active) | bundle id *)
(*   count      bundle_count                                               *)
(*   files      bundle id -> (id -> content | None): the .bundleN files    *)
(*   fileIndex  the .indexing file (None: not written yet)                 *)
(*                                                                         *)
(* SaveDropsCachedItem = TRUE is the repaired save() (the cached copy of   *)
(* the item is dropped); FALSE is the pinned code, where a get after a     *)
(* re-save keeps answering from item_cache (named deviation, kept as the   *)
(* negative control of the refinement check).                              *)
(* SaveAdjustsLength = TRUE is the repaired save() (the rows of an         *)
(* overwritten active item are subtracted from active_bundle_length);      *)
(* FALSE is the pinned code: the length over-counts, export() may write a  *)
(* bundle without any row (and, the schema being empty, without columns),  *)
(* and reading an item from that file ends in error_and_quit.              *)
(* PutsExportedBundleInCache distinguishes GeneralLoader.export (TRUE)     *)
(* from UnitGIRLoader.export (FALSE).                                      *)
(***************************************************************************)
EXTENDS Integers, Sequences, SequencesExt, FiniteSets, Functions, TLC

CONSTANTS Id, Content, None, ItemCap, BundleCap, MaxRows, MaxOps, MaxBundles,
          SaveDropsCachedItem, SaveAdjustsLength, PutsExportedBundleInCache

Rows(c) == c                      \* content token c has c rows
Norm(x) == IF x = None THEN 0 ELSE x

VARIABLES itemLRU, bundleLRU, active, activeLen, index, count, files, fileIndex,
          latest, dirtyData, dirtyIndex, res, n
ivars == <<itemLRU, bundleLRU, active, activeLen, index, count, files, fileIndex>>
vars  == <<itemLRU, bundleLRU, active, activeLen, index, count, files, fileIndex, latest, dirtyData, dirtyIndex, res, n>>

Empty == [i \in Id |-> None]

(* util.LRUCache *)
LruHas(l, k)  == \E j \in 1..Len(l) : l[j][1] = k
LruVal(l, k)  == l[CHOOSE j \in 1..Len(l) : l[j][1] = k][2]
LruDrop(l, k) == SelectSeq(l, LAMBDA e : e[1] # k)
LruTouch(l, k) == Append(LruDrop(l, k), <<k, LruVal(l, k)>>)
LruPut(l, k, v, cap) == LET l2 == Append(LruDrop(l, k), <<k, v>>) IN
                        IF Len(l2) > cap THEN Tail(l2) ELSE l2

(* export(): the state transformer, shared by Export and by save() on overflow *)
DoExport(act, len, idx, cnt, fls, blru) ==
  IF len > 0
  THEN [active |-> Empty, activeLen |-> 0,
        index |-> [i \in Id |-> IF idx[i] = -1 THEN cnt ELSE idx[i]],
        count |-> cnt + 1,
        files |-> (cnt :> act) @@ fls,
        bundleLRU |-> IF PutsExportedBundleInCache THEN LruPut(blru, cnt, cnt, BundleCap) ELSE blru]
  ELSE [active |-> act, activeLen |-> len, index |-> idx, count |-> cnt, files |-> fls, bundleLRU |-> blru]

Save(i, c) ==
  /\ n < MaxOps /\ n' = n + 1 /\ count < MaxBundles
  /\ latest' = [latest EXCEPT ![i] = c] /\ dirtyData' = TRUE /\ dirtyIndex' = TRUE /\ res' = 0
  /\ LET act2 == [active EXCEPT ![i] = c]
         idx2 == [index EXCEPT ![i] = -1]
         len2 == activeLen + Rows(c) - (IF SaveAdjustsLength /\ active[i] # None THEN Rows(active[i]) ELSE 0)
         e    == IF len2 > MaxRows THEN DoExport(act2, len2, idx2, count, files, bundleLRU)
                 ELSE [active |-> act2, activeLen |-> len2, index |-> idx2, count |-> count, files |-> files,
                       bundleLRU |-> bundleLRU]
     IN /\ active' = e.active /\ activeLen' = e.activeLen /\ index' = e.index /\ count' = e.count
        /\ files' = e.files /\ bundleLRU' = e.bundleLRU
        /\ itemLRU' = IF SaveDropsCachedItem THEN LruDrop(itemLRU, i) ELSE itemLRU
  /\ UNCHANGED fileIndex

(* get_raw_item_by_id *)
Get(i) ==
  /\ n < MaxOps /\ n' = n + 1
  /\ UNCHANGED <<active, activeLen, index, count, files, fileIndex, latest, dirtyData, dirtyIndex>>
  /\ IF LruHas(itemLRU, i)
     THEN /\ res' = Norm(LruVal(itemLRU, i)) /\ itemLRU' = LruTouch(itemLRU, i) /\ UNCHANGED bundleLRU
     ELSE IF index[i] = None
     THEN /\ res' = 0 /\ UNCHANGED <<itemLRU, bundleLRU>>
     ELSE IF index[i] = -1
     THEN /\ res' = Norm(active[i]) /\ UNCHANGED bundleLRU
          /\ itemLRU' = IF active[i] # None THEN LruPut(itemLRU, i, active[i], ItemCap) ELSE itemLRU
     ELSE LET b == index[i]
              item == IF b \in DOMAIN files THEN files[b][i] ELSE None
          IN /\ bundleLRU' = IF LruHas(bundleLRU, b) THEN LruTouch(bundleLRU, b) ELSE LruPut(bundleLRU, b, b, BundleCap)
             /\ itemLRU' = LruPut(itemLRU, i, Norm(item), ItemCap)
             /\ res' = Norm(item)

Export ==
  /\ n < MaxOps /\ n' = n + 1 /\ count < MaxBundles
  /\ LET e == DoExport(active, activeLen, index, count, files, bundleLRU)
     IN /\ active' = e.active /\ activeLen' = e.activeLen /\ index' = e.index /\ count' = e.count
        /\ files' = e.files /\ bundleLRU' = e.bundleLRU
  /\ dirtyData' = FALSE /\ res' = 0
  /\ UNCHANGED <<itemLRU, fileIndex, latest, dirtyIndex>>

ExportIndexing ==
  /\ n < MaxOps /\ n' = n + 1
  /\ fileIndex' = index /\ dirtyIndex' = dirtyData /\ res' = 0
  /\ UNCHANGED <<itemLRU, bundleLRU, active, activeLen, index, count, files, latest, dirtyData>>

(* a fresh loader object on the same path + restore_indexing() *)
Restore ==
  /\ n < MaxOps /\ n' = n + 1
  /\ ~dirtyData /\ ~dirtyIndex /\ fileIndex # None
  /\ itemLRU' = << >> /\ bundleLRU' = << >> /\ active' = Empty /\ activeLen' = 0
  /\ index' = fileIndex
  /\ count' = LET used == {fileIndex[i] : i \in {j \in Id : fileIndex[j] # None}} \cup {-1}
              IN (CHOOSE m \in used : \A x \in used : x <= m) + 1
  /\ res' = 0
  /\ UNCHANGED <<files, fileIndex, latest, dirtyData, dirtyIndex>>

Init == /\ itemLRU = << >> /\ bundleLRU = << >> /\ active = Empty /\ activeLen = 0
        /\ index = Empty /\ count = 0 /\ files = << >> /\ fileIndex = None
        /\ latest = Empty /\ dirtyData = FALSE /\ dirtyIndex = FALSE /\ res = 0 /\ n = 0

Next == \/ \E i \in Id, c \in Content : Save(i, c)
        \/ \E i \in Id : Get(i)
        \/ Export \/ ExportIndexing \/ Restore
Spec == Init /\ [][Next]_vars

---------------------------------------------------------------------------
(* C15 at the level of the model *)
LastOpWasGet == TRUE
ReadsReturnLatest ==        \* checked as an action property: every Get answers latest
  [][\A i \in Id : (Get(i)) => res' = Norm(latest[i])]_vars
(* after a synced restore nothing is lost *)
FilesHoldEverything ==
  (~dirtyData /\ ~dirtyIndex /\ fileIndex # None) =>
     \A i \in Id : LET b == fileIndex[i] IN
        Norm(latest[i]) = (IF b = None \/ b = -1 THEN 0 ELSE IF b \in DOMAIN files THEN Norm(files[b][i]) ELSE 0)
(* no bundle file without rows is ever written (reading from one quits the process) *)
NoEmptyBundleFile == \A b \in DOMAIN files : \E i \in Id : files[b][i] # None /\ Rows(files[b][i]) > 0
LengthIsExact     == activeLen = FoldFunctionOnSet(LAMBDA x, acc : acc + (IF x = None THEN 0 ELSE Rows(x)), 0, active, Id)
(* structural *)
ActiveConsistent == \A i \in Id : (active[i] # None) => index[i] = -1
CachesBounded    == Len(itemLRU) <= ItemCap /\ Len(bundleLRU) <= BundleCap
=============================================================================
