CONSTANTS
  Site = {1, 2}
  BadSite = {0}
  MaxLen = 3
  MaxOps = 4
SPECIFICATION Spec
INVARIANT Antichain
INVARIANT OnlyValid
INVARIANT AddOnlyExact
INVARIANT StoredWereAdded
PROPERTY NoLoss
CHECK_DEADLOCK FALSE
