CONSTANTS
  Site = {1, 2, 3}
  BadSite = {0}
  MaxLen = 4
  MaxOps = 100000
  PruneOnUnmark = TRUE
SPECIFICATION TraceSpec
CHECK_DEADLOCK FALSE
