CONSTANTS
  Node <- MCNode
  Succ <- MCSucc
  Prio <- MCPrio
  Entry = 1
  MaxRound = 2
  RemoveProcessed = FALSE
SPECIFICATION Spec
INVARIANT QueuedIsHeap
INVARIANT IterationBound
INVARIANT VisitBound
INVARIANT PopRemovesProcessed
PROPERTY Terminates
CHECK_DEADLOCK FALSE
