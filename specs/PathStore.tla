---------------------------- MODULE PathStore ----------------------------
(***************************************************************************)
(* Contract of lian's call-path store (PathManager / PathTrie), C19.       *)
(*                                                                         *)
(* A path is a non-empty sequence of call sites.  A call site is either a  *)
(* member of Site (all ids non-negative) or of BadSite (some id negative). *)
(* The store keeps the maximal valid paths:                                *)
(*   Add(p)    refused if p is invalid, stored, or a proper prefix of a    *)
(*             stored path; otherwise p is stored and every stored proper  *)
(*             prefix of p is dropped;                                     *)
(*   Remove(p) drops p when stored;                                        *)
(*   Exists(p) tells whether p is stored.                                  *)
(***************************************************************************)
EXTENDS Naturals, Sequences, SequencesExt, FiniteSets

CONSTANTS Site, BadSite, MaxLen, MaxOps

Paths == UNION {[1..k -> Site \cup BadSite] : k \in 1..MaxLen}

Valid(p) == \A i \in 1..Len(p) : p[i] \in Site
ProperPrefix(p, q) == Len(p) < Len(q) /\ IsPrefix(p, q)
Maximal(S) == {p \in S : ~\E q \in S : ProperPrefix(p, q)}

(* Pure result functions, shared with the trace specification. *)
AddAccepted(st, p) == Valid(p) /\ p \notin st /\ ~\E q \in st : ProperPrefix(p, q)
AddStored(st, p)   == IF AddAccepted(st, p)
                      THEN (st \ {q \in st : ProperPrefix(q, p)}) \cup {p}
                      ELSE st
RemoveAccepted(st, p) == p \in st
RemoveStored(st, p)   == st \ {p}

VARIABLES stored,   \* the set of paths a reader of the store sees
          added,    \* history: every path ever offered to Add
          removed,  \* history: some Remove has succeeded
          res,      \* result of the last operation
          n         \* number of operations so far
vars == <<stored, added, removed, res, n>>

Init == stored = {} /\ added = {} /\ removed = FALSE /\ res = FALSE /\ n = 0

AddPath(p) ==
  /\ n < MaxOps /\ n' = n + 1
  /\ added' = added \cup {p} /\ UNCHANGED removed
  /\ res' = AddAccepted(stored, p)
  /\ stored' = AddStored(stored, p)

RemovePath(p) ==
  /\ n < MaxOps /\ n' = n + 1
  /\ res' = RemoveAccepted(stored, p)
  /\ removed' = (removed \/ p \in stored)
  /\ stored' = RemoveStored(stored, p)
  /\ UNCHANGED added

PathExists(p) ==
  /\ n < MaxOps /\ n' = n + 1
  /\ res' = (p \in stored)
  /\ UNCHANGED <<stored, added, removed>>

Next == \E p \in Paths : AddPath(p) \/ RemovePath(p) \/ PathExists(p)
Spec == Init /\ [][Next]_vars

---------------------------------------------------------------------------
(* The clauses of C19. *)
Antichain    == \A p, q \in stored : ~ProperPrefix(p, q)
OnlyValid    == \A p \in stored : Valid(p)
AddOnlyExact == ~removed => stored = Maximal({p \in added : Valid(p)})
StoredWereAdded == stored \subseteq added
(* "After a removal, a path that no longer has an extension in the store can be
   added again" is the definition of AddAccepted: acceptance depends on the current
   store only, never on history.  It has content for the implementation model
   (PathTrieImpl refines this module) and for the traces of the real object. *)
NoLoss == [][\A p \in stored : \/ p \in stored'
                               \/ \E q \in stored' : ProperPrefix(p, q)
                               \/ (res' /\ stored' = stored \ {p})]_vars
=============================================================================
