----------------------------- MODULE BlockView -----------------------------
(***************************************************************************)
(* C16, "by block id": the read-only block views over a unit's GIR         *)
(* (util.gir_block.GIRBlockViewer).                                        *)
(*                                                                         *)
(* State of the contract: the statement sequence S of the viewer (records  *)
(* [id, op], positions 0 .. Len(S)-1, blocks delimited by a block_start    *)
(* and a block_end row carrying the block's id) and the open range         *)
(* (lo, hi): the visible statements are those at positions lo < p < hi.    *)
(* Every query must return what a scan of the visible statements returns;  *)
(* read_block(b) narrows the range to the inside of block b if that block  *)
(* lies strictly inside the current range; append_other rebuilds the       *)
(* viewer from the visible statements of two views.                        *)
(*                                                                         *)
(* The real object is driven through operation trees (harness/             *)
(* drive_c16b.py); every node logs the operation and the answers to the    *)
(* whole query battery on the resulting view; TLC walks the forest with    *)
(* the contract state and compares.                                        *)
(***************************************************************************)
EXTENDS Naturals, Integers, Sequences, SequencesExt, FiniteSets, TLC, Json, IOUtils

Forest == JsonDeserialize(IOEnv.TRACE_FILE)
Nd(k) == Forest.nodes[k]
Kids(k) == IF k = 0 THEN Forest.roots ELSE Forest.nodes[k].kids

VARIABLES node, S, lo, hi, bad
vars == <<node, S, lo, hi, bad>>

(* positions are 0-based in the code; S is 1-based here *)
At(s, p) == s[p + 1]
Pos(s) == 0..(Len(s) - 1)
VisiblePos(s, l, h) == {p \in Pos(s) : l < p /\ p < h}
RECURSIVE SeqOfSet(_)
SeqOfSet(ps) == IF ps = {} THEN << >> ELSE LET m == CHOOSE x \in ps : \A y \in ps : x <= y IN <<m>> \o SeqOfSet(ps \ {m})
Visible(s, l, h) == [k \in 1..Cardinality(VisiblePos(s, l, h)) |-> At(s, SeqOfSet(VisiblePos(s, l, h))[k])]
Ids(q) == [k \in 1..Len(q) |-> q[k].id]

(* the first position of a statement id (for a block: its block_start) *)
FirstPos(s, id) == IF \E p \in Pos(s) : At(s, p).id = id THEN CHOOSE p \in Pos(s) : At(s, p).id = id /\ \A q \in Pos(s) : At(s, q).id = id => p <= q ELSE -1
HasBlock(s, b) == \E p, q \in Pos(s) : p < q /\ At(s, p).id = b /\ At(s, p).op = "block_start" /\ At(s, q).id = b /\ At(s, q).op = "block_end"
BStart(s, b) == CHOOSE p \in Pos(s) : At(s, p).id = b /\ At(s, p).op = "block_start"
BEnd(s, b)   == CHOOSE q \in Pos(s) : At(s, q).id = b /\ At(s, q).op = "block_end"
CanEnter(s, l, h, b) == HasBlock(s, b) /\ l < BStart(s, b) /\ BEnd(s, b) < h

OpNames == {"a", "b", "c", "block_start", "block_end"}
IdRange == 1..16
BlockIds == {2, 4, 7, 12, 14, 99}

(* the query battery on the view (s, l, h), in the shape the driver logs it *)
Battery(s, l, h) ==
  LET vis == Visible(s, l, h) IN
  [len |-> Len(vis),
   ids |-> Ids(vis),
   all_ids |-> SeqOfSet({vis[k].id : k \in 1..Len(vis)}),
   by_op |-> [o \in OpNames |-> Ids(SelectSeq(vis, LAMBDA r : r.op = o))],
   by_name |-> [o \in {"a", "b"} |-> Ids(SelectSeq(vis, LAMBDA r : r.op = o))],
   contains |-> SeqOfSet({i \in IdRange : FirstPos(s, i) # -1 /\ FirstPos(s, i) \in VisiblePos(s, l, h)}),
   by_pos |-> SeqOfSet(VisiblePos(s, l, h)),
   enterable |-> SeqOfSet({b \in BlockIds : CanEnter(s, l, h, b)}),
   block_ids |-> [b \in {x \in BlockIds : HasBlock(s, x)} |-> Ids(Visible(s, BStart(s, b), BEnd(s, b)))],
   boundary |-> LET es == {BEnd(s, b) : b \in {x \in BlockIds : HasBlock(s, x)}} IN IF es = {} THEN -1 ELSE CHOOSE m \in es : \A x \in es : x <= m]

(* effect of one operation on the contract state *)
NextS(ev)  == IF ev.op = "append" THEN Visible(S, lo, hi) \o [k \in 1..Len(ev.other) |-> ev.other[k]] ELSE S
NextLo(ev) == IF ev.op = "enter" /\ CanEnter(S, lo, hi, ev.b) THEN BStart(S, ev.b) ELSE IF ev.op = "append" THEN -1 ELSE lo
NextHi(ev) == IF ev.op = "enter" /\ CanEnter(S, lo, hi, ev.b) THEN BEnd(S, ev.b) ELSE IF ev.op = "append" THEN Len(NextS(ev)) ELSE hi

Field(rec, k) == IF k \in DOMAIN rec THEN rec[k] ELSE << >>
FirstDiff(logged, exp) ==
  IF logged.len # exp.len THEN "len"
  ELSE IF logged.ids # exp.ids THEN "iteration"
  ELSE IF logged.all_ids # exp.all_ids THEN "get_all_stmt_ids"
  ELSE IF \E o \in OpNames : Field(logged.by_op, o) # exp.by_op[o] THEN "query_operation"
  ELSE IF \E o \in {"a", "b"} : Field(logged.by_name, o) # exp.by_name[o] THEN "query_field"
  ELSE IF logged.contains # exp.contains THEN "contains_stmt_id"
  ELSE IF logged.by_pos # exp.by_pos THEN "get_stmt_by_pos"
  ELSE IF logged.enterable # exp.enterable THEN "read_block"
  ELSE IF \E b \in DOMAIN exp.block_ids : Field(logged.block_ids, ToString(b)) # exp.block_ids[b] THEN "get_block_stmt_ids"
  ELSE IF logged.boundary # exp.boundary THEN "boundary_of_multi_blocks"
  ELSE ""

Step(k) ==
  LET ev == Nd(k)
      s2 == NextS(ev)  l2 == NextLo(ev)  h2 == NextHi(ev)
      v  == IF ev.crash # "" THEN "crash_" \o ev.op
            ELSE IF ev.op = "enter" /\ ev.entered # CanEnter(S, lo, hi, ev.b) THEN "read_block_wrong_access"
            ELSE LET d == FirstDiff(ev.q, Battery(s2, l2, h2)) IN IF d = "" THEN "" ELSE "view_query_differs_from_scan_" \o d
  IN /\ node' = k /\ S' = s2 /\ lo' = l2 /\ hi' = h2 /\ bad' = v
     /\ (v # "" => PrintT("@@" \o ToJson([file |-> IOEnv.TRACE_FILE, node |-> k, clause |-> v])))

TraceInit == node = 0 /\ S = [k \in 1..Len(Forest.stmts) |-> Forest.stmts[k]] /\ lo = -1 /\ hi = Len(Forest.stmts) /\ bad = ""
TraceNext == bad = "" /\ \E k \in ToSet(Kids(node)) : Step(k)
TraceSpec == TraceInit /\ [][TraceNext]_vars
=============================================================================
