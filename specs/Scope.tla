------------------------------- MODULE Scope -------------------------------
(***************************************************************************)
(* C05 - every occurrence of an identifier is bound to the declaration the *)
(* language's lexical scoping selects.                                     *)
(*                                                                         *)
(* A case is one scope configuration for one name: a tree of scopes        *)
(*   [id, kind ("module" | "function" | "class" | "block"), parent,        *)
(*    decl ("none" | "assign" | "param" | "global" | "nonlocal" |          *)
(*          "var" | "let" | "import")]                                     *)
(* (scope 1 is the module, parents precede children) and, for every scope  *)
(* that reads the name, what the analyser bound that read to:              *)
(*   observed[j] = [scope, target]   target: id of the scope whose         *)
(*   declaration was chosen, 0 = reported unresolved, -1 = bound to a      *)
(*   declaration of no scope of the case.                                  *)
(*                                                                         *)
(* Resolve is the declarative rule of the language:                        *)
(*  python      a name assigned or a parameter in a function is local to   *)
(*              it; `global` sends it to the module, `nonlocal` to the     *)
(*              nearest enclosing function that binds it; otherwise the    *)
(*              enclosing functions are searched innermost first, class    *)
(*              bodies are skipped (a class body sees its own names only   *)
(*              from the body itself), then the module; else unresolved.   *)
(*  javascript  `let` is visible in its block and nested scopes, `var` and *)
(*              parameters in the enclosing function (or the module),      *)
(*              searched innermost first; else unresolved.                 *)
(* The verdict of a case names the first scope whose read is bound         *)
(* elsewhere.  `Sibling` is the clause of the property stated separately:  *)
(* a read is never bound to a declaration in a scope that is not an        *)
(* ancestor-or-self of the reading scope.                                  *)
(***************************************************************************)
EXTENDS Naturals, Integers, Sequences, SequencesExt, FiniteSets, TLC, Json, IOUtils

Doc == JsonDeserialize(IOEnv.CASES)
VARIABLES c, done
vars == <<c, done>>

Case == Doc.cases[c]
Sc(i) == Case.scopes[i]
N == Len(Case.scopes)
Parent(i) == Sc(i).parent

RECURSIVE Ancestors(_)
Ancestors(i) == IF i = 0 \/ Parent(i) = 0 THEN {} ELSE {Parent(i)} \cup Ancestors(Parent(i))
AncOrSelf(i) == {i} \cup Ancestors(i)

Binds(i) == Sc(i).decl \in {"assign", "param"}
(* nearest enclosing function scope (strictly above i) that binds the name; 0 if none *)
RECURSIVE EnclosingFunctionBinding(_)
EnclosingFunctionBinding(i) ==
  LET p == Parent(i) IN
  IF p = 0 THEN 0
  ELSE IF Sc(p).kind = "function" /\ Binds(p) THEN p
  ELSE IF Sc(p).kind = "function" /\ Sc(p).decl = "nonlocal" THEN EnclosingFunctionBinding(p)
  ELSE EnclosingFunctionBinding(p)
ModuleTarget == IF Sc(1).decl \in {"assign", "import"} THEN 1 ELSE 0

(* python: free-variable lookup from scope i upwards (i itself does not bind the name) *)
RECURSIVE PyFree(_)
PyFree(i) ==
  LET p == Parent(i) IN
  IF p = 0 THEN 0
  ELSE IF p = 1 THEN ModuleTarget
  ELSE IF Sc(p).kind = "class" THEN PyFree(p)                       \* class bodies are not enclosing scopes for nested code
  ELSE IF Binds(p) THEN p
  ELSE IF Sc(p).decl = "global" THEN ModuleTarget
  ELSE IF Sc(p).decl = "nonlocal" THEN EnclosingFunctionBinding(p)
  ELSE PyFree(p)
ResolvePy(i) ==
  IF i = 1 THEN ModuleTarget
  ELSE IF Binds(i) THEN i
  ELSE IF Sc(i).decl = "global" THEN ModuleTarget
  ELSE IF Sc(i).decl = "nonlocal" THEN EnclosingFunctionBinding(i)
  ELSE PyFree(i)

(* javascript: let in blocks/functions/module, var hoisted to the function (or module), parameters *)
RECURSIVE JsFunctionOf(_)
JsFunctionOf(i) == IF i = 1 \/ Sc(i).kind = "function" THEN i ELSE JsFunctionOf(Parent(i))
JsDeclaresHere(i) ==            \* the declarations visible as "declared in scope i"
  \/ Sc(i).decl \in {"let", "param"}
  \/ \E j \in 1..N : Sc(j).decl = "var" /\ JsFunctionOf(j) = i    \* var anywhere inside the function body (not in nested functions) is hoisted to it
RECURSIVE ResolveJs(_)
ResolveJs(i) == IF JsDeclaresHere(i) THEN i ELSE IF Parent(i) = 0 THEN 0 ELSE ResolveJs(Parent(i))

(* The acceptable targets of a read, as the ids of the scopes in which the selected declaration statement textually sits: for python the one
   scope; for javascript a hoisted `var` sits in a block (or several blocks: the same variable declared more than once) of the function. *)
JsSet(F) == IF F = 0 THEN {}
            ELSE (IF Sc(F).decl \in {"let", "param", "var"} THEN {F} ELSE {})
                 \cup {j \in 1..N : Sc(j).decl = "var" /\ JsFunctionOf(j) = F}
ResolveSet(i) == IF Case.lang = "javascript" THEN JsSet(ResolveJs(i))
                 ELSE (IF ResolvePy(i) = 0 THEN {} ELSE {ResolvePy(i)})
Resolve(i) == IF Case.lang = "javascript" THEN ResolveJs(i) ELSE ResolvePy(i)      \* the scope the variable belongs to

Obs == Case.observed
IsWrong(j) == IF Obs[j].target = 0 THEN ResolveSet(Obs[j].scope) # {} ELSE Obs[j].target \notin ResolveSet(Obs[j].scope)
Wrong == {j \in 1..Len(Obs) : IsWrong(j)}
(* a declaration in scope t is visible from scope s when t is an ancestor-or-self of s, or a `var` hoisted to an ancestor-or-self function *)
VisibleFrom(t, s) == t \in AncOrSelf(s) \/ (Case.lang = "javascript" /\ Sc(t).decl = "var" /\ JsFunctionOf(t) \in AncOrSelf(s))
Kind(j) == LET want == ResolveSet(Obs[j].scope)  got == Obs[j].target  s == Obs[j].scope IN
           IF got > 0 /\ ~VisibleFrom(got, s) THEN "bound_to_sibling_or_inner_scope"
           ELSE IF want = {} THEN "unresolved_name_bound_to_a_declaration"
           ELSE IF got = 0 THEN "visible_declaration_reported_unresolved"
           ELSE IF got = -1 THEN "bound_to_foreign_declaration"
           ELSE IF Sc(got).kind = "class" /\ got # s THEN "bound_to_class_member_from_nested_code"
           ELSE "bound_to_other_enclosing_declaration"
Verdict == IF Wrong = {} THEN "" ELSE Kind(CHOOSE j \in Wrong : \A k \in Wrong : j <= k)

Init == c \in 1..Len(Doc.cases) /\ done = FALSE
Judge == /\ ~done /\ done' = TRUE /\ c' = c
         /\ PrintT("@@" \o ToJson([case |-> Case.name, clause |-> Verdict,
                                   wrong |-> {[scope |-> Obs[j].scope, got |-> Obs[j].target, want |-> ResolveSet(Obs[j].scope), kind |-> Kind(j)] : j \in Wrong},
                                   expected |-> [i \in 1..N |-> ResolveSet(i)]]))
Next == Judge
Spec == Init /\ [][Next]_vars
=============================================================================
