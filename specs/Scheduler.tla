----------------------------- MODULE Scheduler -----------------------------
(***************************************************************************)
(* The schedulers of lian's semantic phases, C13 (termination / bounded     *)
(* work) and the descent rule behind C07.                                  *)
(*                                                                         *)
(* Top-down phase (global_semantics.analyze_frame_stack and                *)
(* global_stmt_states.compute_target_method_states), one action per        *)
(* critical section of the code:                                           *)
(*   StartEntry   init_frame_stack: a fresh per-entry call-site counter,   *)
(*                the path store survives from entry to entry              *)
(*   InitFrame    init_compute_frame: call path = caller's path + site,    *)
(*                stored in the path store (PathStore contract, C19)       *)
(*   Spawn        a pending (caller, stmt, callee) entry of                *)
(*                content_already_analyzed becomes a callee frame          *)
(*   Decide       one visit of a call statement: every resolved callee is  *)
(*                descended into unless a cut-off applies - path stored,   *)
(*                more than one cycle on the path, already analysed for    *)
(*                this interruption, per-call-site counter exhausted.      *)
(*                (`callee in call_path` compares an int with CallSite     *)
(*                objects and is dead code; it is not a disjunct here.)    *)
(*                Some callee left: interruption (counter + 1 for those);  *)
(*                none left: summaries applied, counter + 1 for all, the   *)
(*                paths are stored, the statement's visit is complete.     *)
(*   Finish       the worklist ran empty: the frame is popped              *)
(* The statement loop (prelim_semantics.analyze_stmts) is abstracted to    *)
(* its bound: a statement is visited while its counter is below MaxRound;  *)
(* an interrupted visit does not count.  Which statement comes next is     *)
(* left open (the code's heap/pop(0) order is what C06 is about), so the   *)
(* bounds proved here hold for every order.                                *)
(*                                                                         *)
(* The program is chosen in Init: every assignment of callee sets to the   *)
(* NS call statements of each of the methods 1..NM, so TLC proves the      *)
(* bounds for all call graphs of that size, recursion, mutual recursion    *)
(* and several call sites per function included.                           *)
(***************************************************************************)
EXTENDS Naturals, Integers, Sequences, SequencesExt, FiniteSets, TLC

CONSTANTS NM,        \* methods 1..NM; method 1 is the entry
          NS,        \* call statements per method
          MaxCallees,\* a call statement resolves to at most this many callees
          MaxRound,  \* MAX_ANALYSIS_ROUND_FOR_GLOBAL_ANALYSIS
          MaxCS      \* MAX_ANALYSIS_ROUND_FOR_CALL_SITE

Method == 1..NM
Stmt   == Method \X (1..NS)                 \* <<m, k>>: k-th call statement of m
Site   == {<<s[1], s, f>> : s \in Stmt, f \in Method}    \* <<caller, call stmt, callee>>

(* ---- operators shared with the trace specification ---- *)
ProperPrefix(p, q) == Len(p) < Len(q) /\ IsPrefix(p, q)
AddAccepted(st, p) == p \notin st /\ ~\E q \in st : ProperPrefix(p, q)
AddStored(st, p)   == IF AddAccepted(st, p) THEN (st \ {q \in st : ProperPrefix(q, p)}) \cup {p} ELSE st
RECURSIVE AddAll(_, _)
AddAll(st, ps) == IF ps = {} THEN st ELSE LET p == CHOOSE x \in ps : TRUE IN AddAll(AddStored(st, p), ps \ {p})

(* CallPath.count_cycles: how often a callee was already seen as caller or callee earlier on the path *)
RECURSIVE CyclesFrom(_, _, _)
CyclesFrom(p, i, seen) == IF i > Len(p) THEN 0
                          ELSE (IF p[i][3] \in seen THEN 1 ELSE 0) + CyclesFrom(p, i + 1, seen \cup {p[i][1], p[i][3]})
Cycles(p) == CyclesFrom(p, 1, {})

Get(f, x) == IF x \in DOMAIN f THEN f[x] ELSE 0
Bump(f, xs) == [x \in DOMAIN f \cup xs |-> Get(f, x) + (IF x \in xs THEN 1 ELSE 0)]

(* the cut-off test of compute_target_method_states for one callee *)
Cut(st, cnt, path, done, site) ==
  \/ Append(path, site) \in st
  \/ Cycles(Append(path, site)) > 1
  \/ site \in done
  \/ Get(cnt, site) > MaxCS

VARIABLES prog,      \* [Stmt -> SUBSET Method]: callees each call statement resolves to
          stack,     \* sequence of frames (the meta frame of the code is not modelled)
          counter,   \* call_site_analyze_counter of the current entry
          store,     \* PathManager.paths
          pushes, decides, interrupts, maxdepth   \* history counters for the bounds
vars == <<prog, stack, counter, store, pushes, decides, interrupts, maxdepth>>

Frame(m, site) == [m |-> m, site |-> site, path |-> << >>, inited |-> FALSE,
                   pending |-> {}, done |-> {}, visits |-> [k \in 1..NS |-> 0]]
Top == stack[Len(stack)]
SetTop(f) == [stack EXCEPT ![Len(stack)] = f]

Init == /\ prog \in [Stmt -> {C \in SUBSET Method : Cardinality(C) <= MaxCallees}]
        /\ stack = << >> /\ counter = << >> /\ store = {}
        /\ pushes = 0 /\ decides = 0 /\ interrupts = 0 /\ maxdepth = 0

StartEntry == /\ stack = << >> /\ pushes = 0
              /\ stack' = <<Frame(1, << >>)>> /\ counter' = << >> /\ pushes' = 1 /\ maxdepth' = 1
              /\ UNCHANGED <<prog, store, decides, interrupts>>

InitFrame == /\ stack # << >> /\ ~Top.inited
             /\ LET p == IF Len(stack) > 1 THEN Append(stack[Len(stack) - 1].path, Top.site) ELSE << >>
                IN /\ stack' = SetTop([Top EXCEPT !.inited = TRUE, !.path = p])
                   /\ store' = IF Len(stack) > 1 THEN AddStored(store, p) ELSE store
             /\ UNCHANGED <<prog, counter, pushes, decides, interrupts, maxdepth>>

Spawn == /\ stack # << >> /\ Top.inited /\ Top.pending # {}
         /\ \E site \in Top.pending :
              /\ stack' = Append(SetTop([Top EXCEPT !.pending = @ \ {site}, !.done = @ \cup {site}]), Frame(site[3], site))
              /\ pushes' = pushes + 1
              /\ maxdepth' = IF Len(stack) + 1 > maxdepth THEN Len(stack) + 1 ELSE maxdepth
         /\ UNCHANGED <<prog, counter, store, decides, interrupts>>

Decide(k) ==
  /\ stack # << >> /\ Top.inited /\ Top.pending = {}
  /\ Top.visits[k] < MaxRound
  /\ LET s == <<Top.m, k>>
         sites == {<<Top.m, s, f>> : f \in prog[s]}
         sched == {x \in sites : ~Cut(store, counter, Top.path, Top.done, x)}
     IN /\ decides' = decides + 1
        /\ IF sched # {}
           THEN /\ counter' = Bump(counter, sched)
                /\ stack' = SetTop([Top EXCEPT !.pending = sched, !.done = {}])
                /\ interrupts' = interrupts + 1
                /\ UNCHANGED store
           ELSE /\ counter' = Bump(counter, sites)
                /\ store' = AddAll(store, {Append(Top.path, x) : x \in {y \in sites : y[1] # y[3]}})
                /\ stack' = SetTop([Top EXCEPT !.visits[k] = @ + 1])
                /\ UNCHANGED interrupts
  /\ UNCHANGED <<prog, pushes, maxdepth>>

Finish == /\ stack # << >> /\ Top.inited /\ Top.pending = {}
          /\ stack' = SubSeq(stack, 1, Len(stack) - 1)
          /\ UNCHANGED <<prog, counter, store, pushes, decides, interrupts, maxdepth>>

Next == StartEntry \/ InitFrame \/ Spawn \/ (\E k \in 1..NS : Decide(k)) \/ Finish
Spec == Init /\ [][Next]_vars /\ WF_vars(Next)

---------------------------------------------------------------------------
(* C13 at the level of the design: the work of one entry point is bounded by a polynomial in the size of the
   program for fixed iteration bounds.  S = number of call sites the program has. *)
ProgSites == {x \in Site : x[3] \in prog[x[2]]}
S == Cardinality(ProgSites)
(* a call site is descended into at most MaxCS + 1 times per entry: the counter must not exceed MaxCS when it is scheduled *)
PushBound      == pushes <= (MaxCS + 1) * S + 1
InterruptBound == interrupts <= (MaxCS + 1) * S
(* every frame completes at most MaxRound visits per statement; every other decision is an interruption *)
DecideBound    == decides <= pushes * NS * MaxRound + interrupts
(* recursion depth: a path carries at most one repeated callee *)
DepthBound     == maxdepth <= NM + 2
Antichain      == \A p, q \in store : ~ProperPrefix(p, q)
(* the counter only counts sites of the program *)
CounterDomain  == DOMAIN counter \subseteq ProgSites
(* no frame is analysed under a path with more than one cycle (the recursion cut-off) *)
CycleCut       == \A i \in 1..Len(stack) : Cycles(stack[i].path) <= 1 \/ ~stack[i].inited
(* termination: under weak fairness every behaviour ends with an empty stack *)
Terminates     == <>[](stack = << >> /\ pushes > 0)
(* C07, design level: when the entry has finished, every call site of a method that was analysed was either descended
   into from some frame, or cut off with its path recorded (so that its summary was applied) *)
=============================================================================
