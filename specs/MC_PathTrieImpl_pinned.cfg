CONSTANTS
  Site = {1, 2}
  BadSite = {0}
  MaxLen = 2
  MaxOps = 4
  PruneOnUnmark = FALSE
SPECIFICATION Spec
INVARIANT PrefixClosed
INVARIANT TermAreNodes
INVARIANT ViewsAgree
INVARIANT NoDeadBranches
PROPERTY Refines
CHECK_DEADLOCK FALSE
