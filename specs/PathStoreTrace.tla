-------------------------- MODULE PathStoreTrace --------------------------
(***************************************************************************)
(* Trace validation of the real PathManager against PathStore (contract)   *)
(* and PathTrieImpl (implementation-shaped model), C19.                    *)
(*                                                                         *)
(* The harness drives the real object through a history tree and logs, per *)
(* call: op, path, result, PathManager.paths, PathTrie.paths, the set of   *)
(* trie nodes and the terminal nodes.  TLC walks the tree: one state per   *)
(* tree node.  The contract alone decides the verdict (bad); a mismatch of *)
(* the internal projection only marks model drift (the model no longer     *)
(* describes the code; the refinement argument then does not transfer).    *)
(***************************************************************************)
EXTENDS PathTrieImpl, TLC, Json, IOUtils

Forest == JsonDeserialize(IOEnv.TRACE_FILE)
(* Only Forest is a zero-arity constant definition (TLC evaluates each one once per worker and would
   re-read the file for every further definition that mentions it). *)


VARIABLES node,      \* current tree node (0 = before the first call)
          cstored,   \* contract state, evolved by the contract alone
          bad,       \* "" or the name of the first violated clause on this branch
          drift      \* the implementation model disagreed with the logged internals

tvars == <<vars, node, cstored, bad, drift>>

Kids(k) == IF k = 0 THEN Forest.roots ELSE Forest.nodes[k].kids

ContractRes(ev) ==
  CASE ev.op = "add"    -> PS!AddAccepted(cstored, ev.path)
    [] ev.op = "remove" -> PS!RemoveAccepted(cstored, ev.path)
    [] OTHER            -> ev.path \in cstored

ContractNext(ev) ==
  CASE ev.op = "add"    -> PS!AddStored(cstored, ev.path)
    [] ev.op = "remove" -> PS!RemoveStored(cstored, ev.path)
    [] OTHER            -> cstored

(* The invariants of the contract evaluated directly on the logged reader's view. *)
LoggedAntichain(ev) == \A p, q \in ToSet(ev.paths) : ~ProperPrefix(p, q)
LoggedValid(ev)     == \A p \in ToSet(ev.paths) : ~HasNegative(p)

Verdict(ev) ==
  IF ev.res # ContractRes(ev) THEN "result"
  ELSE IF ToSet(ev.paths) # ContractNext(ev) THEN "stored_set"
  ELSE IF ~LoggedAntichain(ev) THEN "antichain"
  ELSE IF ~LoggedValid(ev) THEN "invalid_stored"
  ELSE ""

ImplStep(ev) ==
  CASE ev.op = "add"    -> AddPath(ev.path)
    [] ev.op = "remove" -> RemovePath(ev.path)
    [] OTHER            -> PathExists(ev.path)

Step(k) ==
  LET ev == Forest.nodes[k] IN
  /\ node' = k
  /\ ImplStep(ev)
  /\ cstored' = ContractNext(ev)
  /\ LET v == Verdict(ev) IN
       /\ bad' = v
       /\ (v # "" => PrintT("@@" \o ToJson([file |-> IOEnv.TRACE_FILE, node |-> k, clause |-> v])))
  /\ drift' = (drift \/ ToSet(ev.trie) # nodes' \/ ToSet(ev.term) # term'
                      \/ ToSet(ev.tpaths) # tpaths' \/ ev.res # res')
  /\ (drift' /\ ~drift /\ bad' = "" =>
        PrintT("@@" \o ToJson([file |-> IOEnv.TRACE_FILE, node |-> k, clause |-> "model_drift"])))

TraceInit == Init /\ node = 0 /\ cstored = {} /\ bad = "" /\ drift = FALSE
TraceNext == bad = "" /\ \E k \in ToSet(Kids(node)) : Step(k)
TraceSpec == TraceInit /\ [][TraceNext]_tvars

(* A branch stops at its first violated clause (its subtree is not judged). *)
=============================================================================
