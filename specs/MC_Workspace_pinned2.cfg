CONSTANTS
  MaxDepth = 9
  PruneWorkspace = TRUE
  RefuseInputInside = FALSE
SPECIFICATION Spec
INVARIANT CreatedOnlyInWorkspace
INVARIANT DeletedOnlyPreviousContents
INVARIANT InputsIntact
INVARIANT OutsideIntact
INVARIANT BoundedCopy
INVARIANT NothingWithoutForce
PROPERTY Terminates
CHECK_DEADLOCK FALSE
