------------------------- MODULE EventManagerTrace -------------------------
(***************************************************************************)
(* Trace validation of the real EventManager (C17).  Tree nodes are calls  *)
(* of register (with a stub handler whose return word is fixed) and of     *)
(* notify; stubs record what they saw.  The contract operators of module   *)
(* EventManager judge every notify.                                        *)
(***************************************************************************)
EXTENDS EventManager, TLC, Json, IOUtils

Forest == JsonDeserialize(IOEnv.TRACE_FILE)
Kids(k) == IF k = 0 THEN Forest.roots ELSE Forest.nodes[k].kids

VARIABLES node, treg, bad
tvars == <<vars, node, treg, bad>>

IdsOf(rg, e) == LET l == SelectSeq(rg, LAMBDA h : h.ev = e) IN [k \in 1..Len(l) |-> l[k].id]
RegRet(rg, i) == (CHOOSE h \in ToSet(rg) : h.id = i).ret

RegisterVerdict(e, rg2) ==
  IF IdsOf(rg2, 1) # e.lists["1"] \/ IdsOf(rg2, 2) # e.lists["2"] THEN "registration_order" ELSE ""

NotifyJudge(e) ==
  IF \E k \in 1..Len(e.invoked) : ~(\E h \in ToSet(treg) : h.id = e.invoked[k])
  THEN "unknown_handler_ran"
  ELSE IF \E k \in 1..Len(e.invoked) : e.rets[k] # RegRet(treg, e.invoked[k])
  THEN "harness_stub_return_mismatch"
  ELSE LET v == NotifyVerdict(treg, e.ev, e.lang, 0, e.invoked, e.rets, e.seen, e.outs, e.ret) IN
       IF v # "" THEN v
       ELSE \* what the requester reads afterwards; judged unless a declining handler wrote after the last processed one
            LET j == LastProcessed(e.rets, Len(e.rets))
                exp == IF j = 0 THEN 0 ELSE e.outs[j]
                ambiguous == \E k \in (j + 1)..Len(e.outs) : e.outs[k] # exp
            IN IF ~ambiguous /\ e.final_out # exp THEN "wrong_final_data" ELSE ""

Step(k) ==
  LET e == Forest.nodes[k] IN
  /\ node' = k /\ UNCHANGED vars
  /\ IF e.op = "register"
     THEN LET rg2 == Append(treg, Handler(e.id, e.ev, e.langs, e.ret, e.w)) IN
          /\ treg' = rg2
          /\ bad' = RegisterVerdict(e, rg2)
     ELSE /\ treg' = treg
          /\ bad' = NotifyJudge(e)
  /\ (bad' # "" => PrintT("@@" \o ToJson([file |-> IOEnv.TRACE_FILE, node |-> k, clause |-> bad'])))

(* the loop model's variables are not used by the trace walk *)
TraceInit == /\ node = 0 /\ treg = << >> /\ bad = ""
             /\ reg = << >> /\ ev = 0 /\ lang = "" /\ cursor = 0 /\ acc = {} /\ inTok = 0 /\ outTok = 0
             /\ invoked = << >> /\ rets = << >> /\ seen = << >> /\ outs = << >> /\ done = TRUE
TraceNext == bad = "" /\ \E k \in ToSet(Kids(node)) : Step(k)
TraceSpec == TraceInit /\ [][TraceNext]_tvars
=============================================================================
