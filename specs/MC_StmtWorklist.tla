--------------------------- MODULE MC_StmtWorklist ---------------------------
(* x = 1; while c: x = 2; c = c - 1 (; continue) ; y = x      nodes: 1 entry, 2 loop header, 3 body head, 4 body tail, 5 after the loop *)
EXTENDS StmtWorklist
MCNode == 1..5
MCSucc == [n \in MCNode |-> CASE n = 1 -> <<2>> [] n = 2 -> <<3, 5>> [] n = 3 -> <<4>> [] n = 4 -> <<2>> [] OTHER -> << >>]
MCPrio == [n \in MCNode |-> CASE n = 1 -> 0 [] n = 2 -> 1 [] n = 5 -> 2 [] n = 3 -> 3 [] OTHER -> 4]
=============================================================================
