------------------------- MODULE MC_DataModelImpl -------------------------
EXTENDS DataModelImpl

MCInitRows == <<Row(0, <<1, 0>>), Row(1, <<2, 1>>), Row(2, <<1, 2>>)>>
MCInitCols == <<"stmt_id", "name">>

MCOps ==
  {[op |-> "modify_element", lab |-> l, col |-> c, v |-> v] : l \in {0, 2}, c \in {"stmt_id", "name"}, v \in {0, 2}}
  \cup {[op |-> "modify_row", pos |-> p, cells |-> <<2, 1>>] : p \in {0, 1}}
  \cup {[op |-> "modify_column", col |-> "stmt_id", v |-> 1]}
  \cup {[op |-> "append", rows |-> <<<<1, 0>>>>]}
  \cup {[op |-> "remove_rows", col |-> c, v |-> v] : c \in {"stmt_id", "name"}, v \in {1, 2}}
  \cup {[op |-> "rename_column", old |-> "name", new |-> "name2"], [op |-> "rename_column", old |-> "name2", new |-> "name"]}
  \cup {[op |-> "rename_map", map |-> <<<<"stmt_id", "name">>, <<"name", "stmt_id">>>>]}
  \cup {[op |-> "slice", a |-> 1, b |-> 3], [op |-> "slice", a |-> 0, b |-> 2]}
  \cup {[op |-> "reset_index"], [op |-> "fillna", v |-> 2]}
  \cup {[op |-> "access", pos |-> p] : p \in {0, 2}}
  \cup {[op |-> "iter"], [op |-> "len"]}
  \cup {[op |-> "column", col |-> "stmt_id"]}
  \cup {[op |-> o, col |-> c, v |-> v] : o \in {"index", "index_first", "bundle"}, c \in {"stmt_id", "name"}, v \in {1, 2}}
  \cup {[op |-> "index_dm", col |-> "stmt_id", v |-> 1]}
  \cup {[op |-> "read_block", v |-> 1], [op |-> "read_block_with", v |-> 1], [op |-> "boundary", ids |-> <<1, 2>>]}
=============================================================================
