----------------------------- MODULE EntryPoints -----------------------------
(***************************************************************************)
(* C20 - which methods the top-down analysis starts from.                  *)
(*                                                                         *)
(* Declarative part (the contract): a rule selects the methods of the      *)
(* units it matches:                                                       *)
(*   UnitMatch(r, u)   : lang equal when given, unit_name contained in the *)
(*                       file name when given, unit_path contained in the  *)
(*                       unit path when given                              *)
(*   MethodMatch(r, m) : name in method_list when the list is given        *)
(*   Selected(R)       : { m : \E r \in R : UnitMatch /\ MethodMatch }     *)
(* Names in the projects are chosen so that "contained in" and "equal to"  *)
(* coincide; containment is supplied per pair by the harness (lexical).    *)
(*                                                                         *)
(* Operational part: LoadRules -> ScanUnit (per unit, any order) ->        *)
(* StartEntry (per selected method, any order) -> Finished, as P1/P3 do;   *)
(* TLC checks that it ends with entrySet = Selected and started = entrySet *)
(* for every subset of the rule pool.                                      *)
(*                                                                         *)
(* The trace part (runs of the real lian, one per rule subset) is judged   *)
(* by the same Selected: recorded entry set, methods P3 started from, and  *)
(* the taint flows (a flow placed in each method is reported iff the       *)
(* method is reachable from a selected entry).                             *)
(***************************************************************************)
EXTENDS Naturals, Sequences, SequencesExt, FiniteSets, TLC, Json, IOUtils

Doc == JsonDeserialize(IOEnv.TRACE_FILE)
P == Doc.project
Units == P.units              \* sequence of [id, lang, file, path]
Methods == P.methods          \* sequence of [id, unit, name, attrs, calls (ids), flow (a source->sink flow lives in it)]
Pool == P.pool                \* sequence of rules [lang, unit_name, unit_path, method_list, name_hits (unit ids), path_hits (unit ids)]

UnitOf(m) == CHOOSE u \in ToSet(Units) : u.id = m.unit
UnitMatch(r, u) == /\ (r.lang = "" \/ r.lang = u.lang)
                   /\ (r.unit_name = "" \/ u.id \in ToSet(r.name_hits))
                   /\ (r.unit_path = "" \/ u.id \in ToSet(r.path_hits))
MethodMatch(r, m) == /\ (r.method_list = << >> \/ m.name \in ToSet(r.method_list))
                     /\ ToSet(r.attrs) \subseteq ToSet(m.attrs)          \* every attribute (decorator) the rule lists is on the method
Selected(R) == {m.id : m \in {x \in ToSet(Methods) : \E k \in R : UnitMatch(Pool[k], UnitOf(x)) /\ MethodMatch(Pool[k], x)}}

(* methods reachable from a set of entries through the project's calls *)
RECURSIVE Reach(_, _)
Reach(S, n) == IF n = 0 THEN S
               ELSE Reach(S \cup UNION {ToSet(m.calls) : m \in {x \in ToSet(Methods) : x.id \in S}}, n - 1)
Reachable(S) == Reach(S, Len(Methods))
ExpectedFlows(R) == {m.id : m \in {x \in ToSet(Methods) : x.flow /\ x.id \in Reachable(Selected(R))}}

(* ------------------------------------------------------------------ *)
VARIABLES mode, R, scanned, entrySet, started, k, bad
vars == <<mode, R, scanned, entrySet, started, k, bad>>

Init == /\ mode \in {"model", "trace"}
        /\ IF mode = "model" THEN R \in {X \in SUBSET (1..Len(Pool)) : Cardinality(X) <= Doc.maxr} ELSE R = {}
        /\ scanned = {} /\ entrySet = {} /\ started = {} /\ k = 0 /\ bad = ""

(* --- operational model --- *)
ScanUnit(u) == /\ mode = "model" /\ u.id \notin scanned
               /\ scanned' = scanned \cup {u.id}
               /\ entrySet' = entrySet \cup {m.id : m \in {x \in ToSet(Methods) : x.unit = u.id /\
                                                          \E j \in R : UnitMatch(Pool[j], u) /\ MethodMatch(Pool[j], x)}}
               /\ UNCHANGED <<mode, R, started, k, bad>>
(* entries are started in the order of the entry table (P3 iterates over it); one fixed order is modelled *)
StartEntry(e) == /\ mode = "model" /\ scanned = {u.id : u \in ToSet(Units)} /\ e \in entrySet \ started
                 /\ e = CHOOSE x \in entrySet \ started : TRUE
                 /\ started' = started \cup {e} /\ UNCHANGED <<mode, R, scanned, entrySet, k, bad>>
ModelDone == mode = "model" /\ scanned = {u.id : u \in ToSet(Units)} /\ started = entrySet
ModelOK == ModelDone => (entrySet = Selected(R) /\ started = Selected(R))

(* --- trace walk: one step per recorded run --- *)
RunVerdict(t) ==
  LET Rt == ToSet(t.rules) IN
  IF ToSet(t.entry_points) # Selected(Rt) THEN
       (IF Selected(Rt) \ ToSet(t.entry_points) # {} THEN "selected_method_not_an_entry" ELSE "unselected_method_used_as_entry")
  ELSE IF ToSet(t.started) # Selected(Rt) THEN
       (IF Selected(Rt) \ ToSet(t.started) # {} THEN "selected_entry_not_analysed" ELSE "analysis_started_from_unselected_method")
  ELSE IF ToSet(t.flow_methods) # ExpectedFlows(Rt) THEN
       (IF ExpectedFlows(Rt) \ ToSet(t.flow_methods) # {} THEN "flow_in_reachable_code_not_reported" ELSE "flow_from_unreachable_code_reported")
  ELSE ""
TraceStep == /\ mode = "trace" /\ k < Len(Doc.runs)
             /\ k' = k + 1
             /\ LET t == Doc.runs[k + 1]  v == RunVerdict(t) IN
                /\ bad' = ""
                /\ PrintT("@@" \o ToJson([run |-> t.name, clause |-> v, expected_entries |-> Selected(ToSet(t.rules)),
                                          expected_flows |-> ExpectedFlows(ToSet(t.rules))]))
             /\ UNCHANGED <<mode, R, scanned, entrySet, started>>

Next == (\E u \in ToSet(Units) : ScanUnit(u)) \/ (\E e \in entrySet : StartEntry(e)) \/ TraceStep
Spec == Init /\ [][Next]_vars
=============================================================================
