CONSTANTS
  LoopBound = 2
  MaxSteps = 400
SPECIFICATION Spec
CHECK_DEADLOCK FALSE
