------------------------------ MODULE Pipeline ------------------------------
(***************************************************************************)
(* C14 - the id discipline of a lian run, as a deterministic specification.*)
(*                                                                         *)
(* Input of a run (from its own outputs): the module table in scan order   *)
(* (directories and files, each with the id it got) and, per unit in       *)
(* analysis order, the set of statement ids it used.  The specification    *)
(* has exactly one behaviour per input:                                    *)
(*   - module ids come from one counter starting at Start, in scan order;  *)
(*   - statement ids come from one counter: the first unit starts at       *)
(*     Adjust(max module id), a unit uses a contiguous range, and the next *)
(*     unit starts at Adjust(first id the flattening counter has not used) *)
(*     (the synthetic unit initialiser takes two further ids inside the    *)
(*     gap);                                                               *)
(*   - Adjust(x) = x + Gap rounded up to a multiple of 10;                 *)
(*   - negative (external) symbol ids count down from -1 without gaps.     *)
(* Every recorded run must be accepted.  Because each step is a function   *)
(* of the input, two accepted runs of the same input agree on every id;    *)
(* the harness then only has to compare the inputs (scan order, row        *)
(* counts) and the remaining file contents across schedules.               *)
(***************************************************************************)
EXTENDS Naturals, Integers, Sequences, FiniteSets, TLC, Json, IOUtils

Doc == JsonDeserialize(IOEnv.TRACE_FILE)
Run(c) == Doc.runs[c]
Start == 100
Gap == 10
Adjust(x) == LET y == x + Gap IN IF (y % 10) = 0 THEN y ELSE y + (10 - (y % 10))

VARIABLES c, phase, k, nextModule, nextStmt, bad
vars == <<c, phase, k, nextModule, nextStmt, bad>>

Init == c \in 1..Len(Doc.runs) /\ phase = "modules" /\ k = 0 /\ nextModule = Start /\ nextStmt = 0 /\ bad = ""

Report(v, what) == v # "" => PrintT("@@" \o ToJson([run |-> Run(c).name, clause |-> v, at |-> what]))

Module ==
  /\ phase = "modules" /\ k < Len(Run(c).modules)
  /\ LET m == Run(c).modules[k + 1]
         v == IF m.module_id # nextModule THEN "module_id_not_next_in_scan_order" ELSE ""
     IN bad' = v /\ Report(v, m)
  /\ k' = k + 1 /\ nextModule' = nextModule + 1 /\ UNCHANGED <<c, phase, nextStmt>>

ModulesDone ==
  /\ phase = "modules" /\ k = Len(Run(c).modules)
  /\ phase' = "units" /\ k' = 0 /\ nextStmt' = Adjust(nextModule - 1)
  /\ UNCHANGED <<c, nextModule, bad>>

Unit ==
  /\ phase = "units" /\ k < Len(Run(c).units)
  /\ LET u == Run(c).units[k + 1]
         v == IF u.count = 0 THEN ""
              ELSE IF u.lo # nextStmt THEN "unit_does_not_start_at_the_adjusted_counter"
              ELSE IF u.hi - u.lo + 1 # u.count THEN "unit_ids_not_contiguous"
              ELSE ""
     IN /\ bad' = v /\ Report(v, [unit |-> u, expected_start |-> nextStmt])
        \* the unit initialiser and its body block are numbered by add_main_func after flattening, outside the counter
        /\ nextStmt' = IF u.count = 0 THEN Adjust(nextStmt) ELSE Adjust(u.hi + 1 - (IF u.init THEN 2 ELSE 0))
  /\ k' = k + 1 /\ UNCHANGED <<c, phase, nextModule>>

UnitsDone ==
  /\ phase = "units" /\ k = Len(Run(c).units)
  /\ LET v == IF Run(c).max_gir_id # nextStmt THEN "saved_max_id_differs_from_counter"
              ELSE IF Run(c).negative_ids # [j \in 1..Len(Run(c).negative_ids) |-> 0 - j] THEN "negative_ids_not_dense"
              ELSE ""
     IN bad' = v /\ Report(v, [max_gir_id |-> Run(c).max_gir_id, counter |-> nextStmt])
  /\ phase' = "done" /\ UNCHANGED <<c, k, nextModule, nextStmt>>

Next == bad = "" /\ (Module \/ ModulesDone \/ Unit \/ UnitsDone)
Spec == Init /\ [][Next]_vars
=============================================================================
