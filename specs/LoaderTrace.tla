----------------------------- MODULE LoaderTrace -----------------------------
(***************************************************************************)
(* Trace validation of the real loader classes (C15).  The contract keeps  *)
(* latest[] and the two dirty flags on its own; every logged get must      *)
(* return Norm(latest[id]) - in the saving loader and, after a synced      *)
(* restore, in the fresh loader that only has the files.  LoaderImpl runs  *)
(* alongside and its caches, index, counters are compared with the logged  *)
(* projection of the real object (model drift, not a verdict).             *)
(***************************************************************************)
EXTENDS LoaderImpl, Json, IOUtils

Forest == JsonDeserialize(IOEnv.TRACE_FILE)
Kids(k) == IF k = 0 THEN Forest.roots ELSE Forest.nodes[k].kids

VARIABLES node, clatest, cdirtyData, cdirtyIndex, bad, drift
tvars == <<vars, node, clatest, cdirtyData, cdirtyIndex, bad, drift>>

(* traces recorded from real analyses (harness/ldtrace.py) carry no projection of the loader's internals: only the contract is judged *)
ContractOnly == "contract_only" \in DOMAIN Forest /\ Forest.contract_only

Field(rec, i) == IF ToString(i) \in DOMAIN rec THEN rec[ToString(i)] ELSE None

Verdict(e) ==
  IF e.crash # "" THEN "crash_" \o e.op
  ELSE IF e.op = "get" /\ e.res # Norm(clatest[e.id]) THEN
       (IF e.res = 0 THEN "lost_item" ELSE IF e.res = 9 THEN "foreign_content" ELSE "stale_read")
  ELSE IF e.op = "restore" /\ (cdirtyData \/ cdirtyIndex) THEN "harness_restore_not_synced"
  ELSE ""

ImplStep(e) ==
  CASE e.op = "save"            -> Save(e.id, e.c)
    [] e.op = "get"             -> Get(e.id)
    [] e.op = "export"          -> Export
    [] e.op = "export_indexing" -> ExportIndexing
    [] e.op = "restore"         -> Restore

ProjOK(e) ==
  /\ e.proj.item_lru   = [j \in 1..Len(itemLRU') |-> itemLRU'[j][1]]
  /\ e.proj.bundle_lru = [j \in 1..Len(bundleLRU') |-> bundleLRU'[j][1]]
  /\ e.proj.active_len = activeLen'
  /\ e.proj.count      = count'
  /\ \A i \in Id : Field(e.proj.index, i) = index'[i]
  /\ (e.op = "get" => e.res = res')

Step(k) ==
  LET e == Forest.nodes[k]
      v == Verdict(e)
  IN
  /\ node' = k
  /\ clatest' = IF e.op = "save" THEN [clatest EXCEPT ![e.id] = e.c] ELSE clatest
  /\ cdirtyData' = (IF e.op = "save" THEN TRUE ELSE IF e.op = "export" THEN FALSE ELSE cdirtyData)
  /\ cdirtyIndex' = (IF e.op = "save" THEN TRUE ELSE IF e.op = "export_indexing" THEN cdirtyData ELSE cdirtyIndex)
  /\ bad' = v
  /\ (v # "" => PrintT("@@" \o ToJson([file |-> IOEnv.TRACE_FILE, node |-> k, clause |-> v])))
  /\ IF ContractOnly
     THEN UNCHANGED vars /\ drift' = FALSE
     ELSE IF v = "" /\ ~drift /\ ENABLED ImplStep(e)
     THEN /\ ImplStep(e)
          /\ drift' = ~ProjOK(e)
          /\ (drift' => PrintT("@@" \o ToJson([file |-> IOEnv.TRACE_FILE, node |-> k, clause |-> "model_drift"])))
     ELSE /\ UNCHANGED vars
          /\ drift' = TRUE
          /\ ((v = "" /\ ~drift) => PrintT("@@" \o ToJson([file |-> IOEnv.TRACE_FILE, node |-> k, clause |-> "model_drift"])))

TraceInit == Init /\ node = 0 /\ clatest = Empty /\ cdirtyData = FALSE /\ cdirtyIndex = FALSE /\ bad = "" /\ drift = FALSE
TraceNext == bad = "" /\ \E k \in ToSet(Kids(node)) : Step(k)
TraceSpec == TraceInit /\ [][TraceNext]_tvars
=============================================================================
