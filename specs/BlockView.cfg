SPECIFICATION TraceSpec
CHECK_DEADLOCK FALSE
