--------------------------- MODULE PathTrieImpl ---------------------------
(***************************************************************************)
(* Implementation-shaped model of common_structs.PathManager / PathTrie.   *)
(* One action per public method, each transcribing the passes of the code: *)
(*                                                                         *)
(*   trie node  = the sequence of call sites leading to it (root = <<>>)   *)
(*   nodes      = existing TrieNode objects                                *)
(*   term       = nodes with is_terminal = True                            *)
(*   tpaths     = PathTrie.paths                                           *)
(*   mpaths     = PathManager.paths (the view handed to readers)           *)
(*                                                                         *)
(* PruneOnUnmark = TRUE models the repaired _mark_non_terminal (childless, *)
(* non-terminal nodes are unlinked bottom-up).  FALSE is the code as it    *)
(* was pinned: the node stays, and add_path's "node.children" test later   *)
(* mistakes the leftover for a stored extension (named deviation; kept as  *)
(* a negative control of the refinement check).                            *)
(***************************************************************************)
EXTENDS Naturals, Sequences, SequencesExt, FiniteSets

CONSTANTS Site, BadSite, MaxLen, MaxOps, PruneOnUnmark

Paths == UNION {[1..k -> Site \cup BadSite] : k \in 1..MaxLen}
PrefixesOf(p) == {SubSeq(p, 1, i) : i \in 0..Len(p)}
ProperPrefix(p, q) == Len(p) < Len(q) /\ IsPrefix(p, q)
HasNegative(p) == \E i \in 1..Len(p) : p[i] \in BadSite

VARIABLES nodes, term, tpaths, mpaths,
          added, removed, res, n          \* history variables of the contract
ivars == <<nodes, term, tpaths, mpaths>>
vars  == <<nodes, term, tpaths, mpaths, added, removed, res, n>>

Children(ns, x) == {y \in ns : Len(y) = Len(x) + 1 /\ IsPrefix(x, y)}

(* _mark_non_terminal(q) applied to (ns, tm): returns the new <<ns, tm>>. *)
RECURSIVE PruneUp(_, _, _)
PruneUp(ns, tm, x) ==
  IF x = <<>> \/ x \in tm \/ Children(ns, x) # {} THEN ns
  ELSE PruneUp(ns \ {x}, tm, SubSeq(x, 1, Len(x) - 1))

Unmark(ns, tm, q) ==
  IF q \notin ns THEN <<ns, tm>>                       \* "elem not in node.children: return"
  ELSE LET tm2 == tm \ {q}
       IN  <<IF PruneOnUnmark THEN PruneUp(ns, tm2, q) ELSE ns, tm2>>

RECURSIVE UnmarkAll(_, _, _)
UnmarkAll(ns, tm, Q) ==
  IF Q = {} THEN <<ns, tm>>
  ELSE LET q == CHOOSE x \in Q : \A y \in Q : Len(y) <= Len(x)   \* order is immaterial
           r == Unmark(ns, tm, q)
       IN  UnmarkAll(r[1], r[2], Q \ {q})

(* Length of the walk of step 1: longest prefix of p made of existing nodes. *)
Matched(p) == CHOOSE k \in 0..Len(p) :
                 /\ \A i \in 0..k : SubSeq(p, 1, i) \in nodes
                 /\ (k < Len(p) => SubSeq(p, 1, k + 1) \notin nodes)

(* PathTrie.add_path, step 1: the refusal tests. *)
TrieRefuses(p) ==
  LET k == Matched(p) IN
    \/ k = Len(p) /\ p \in term                         \* identical path stored
    \/ k = Len(p) /\ Children(nodes, p) # {}            \* "a longer path exists"

TrieAdd(p) ==
  IF TrieRefuses(p)
  THEN /\ res' = FALSE /\ UNCHANGED ivars
  ELSE LET toRemove == {q \in PrefixesOf(p) : q # <<>> /\ q # p /\ q \in nodes /\ q \in term}  \* step 2
           r  == UnmarkAll(nodes, term, toRemove)
       IN  /\ nodes'  = r[1] \cup PrefixesOf(p)                                     \* step 3
           /\ term'   = r[2] \cup {p}
           /\ tpaths' = (tpaths \ toRemove) \cup {p}
           /\ mpaths' = tpaths'
           /\ res' = TRUE

AddPath(p) ==
  /\ n < MaxOps /\ n' = n + 1
  /\ added' = added \cup {p} /\ UNCHANGED removed
  /\ IF HasNegative(p) \/ p \in mpaths
     THEN res' = FALSE /\ UNCHANGED ivars
     ELSE TrieAdd(p)

RemovePath(p) ==
  /\ n < MaxOps /\ n' = n + 1
  /\ UNCHANGED added
  /\ IF p \notin tpaths
     THEN res' = FALSE /\ UNCHANGED <<ivars, removed>>
     ELSE LET r == Unmark(nodes, term, p)
          IN  /\ nodes' = r[1] /\ term' = r[2]
              /\ tpaths' = tpaths \ {p} /\ mpaths' = tpaths'
              /\ res' = TRUE /\ removed' = TRUE

PathExists(p) ==
  /\ n < MaxOps /\ n' = n + 1
  /\ res' = (p \in tpaths)
  /\ UNCHANGED <<ivars, added, removed>>

Init == /\ nodes = {<<>>} /\ term = {} /\ tpaths = {} /\ mpaths = {}
        /\ added = {} /\ removed = FALSE /\ res = FALSE /\ n = 0
Next == \E p \in Paths : AddPath(p) \/ RemovePath(p) \/ PathExists(p)
Spec == Init /\ [][Next]_vars

---------------------------------------------------------------------------
(* Structural invariants of the representation. *)
PrefixClosed   == \A x \in nodes : PrefixesOf(x) \subseteq nodes
TermAreNodes   == term \subseteq nodes
ViewsAgree     == mpaths = tpaths /\ tpaths = term
NoDeadBranches == PruneOnUnmark =>
                    \A x \in nodes : x = <<>> \/ \E t \in term : IsPrefix(x, t)

(* Refinement: the reader's view implements the contract. *)
PS == INSTANCE PathStore WITH stored <- mpaths
Refines == PS!Spec
=============================================================================
