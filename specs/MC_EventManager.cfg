CONSTANTS
  LangSets <- MCLangSets
  Rets <- MCRetsSmall
  Events = {1, 2}
  Langs = {"py", "js"}
  MaxHandlers = 2
SPECIFICATION Spec
INVARIANT LoopMeetsContract
INVARIANT OnlyMatchingRun
PROPERTY Terminates
CHECK_DEADLOCK FALSE
