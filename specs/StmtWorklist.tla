--------------------------- MODULE StmtWorklist ---------------------------
(***************************************************************************)
(* The statement scheduler of the dataflow phases, as coded:               *)
(* prelim_semantics.analyze_stmts over common_structs.SimpleWorkList.      *)
(*                                                                         *)
(* SimpleWorkList keeps `work_list`, a Python list used as a binary heap   *)
(* of (priority, statement) pairs: insertion is heapq.heappush (append +   *)
(* sift towards the root), removal is `work_list.pop(0)` - the FIRST list  *)
(* element, shifting the rest left (not heapq.heappop), `peek` reads       *)
(* work_list[0].  `all_data` is the set of queued statements.  Priorities  *)
(* are the reverse DFS post-order of the CFG (loop headers before bodies). *)
(*                                                                         *)
(* One iteration of analyze_stmts on statement s = peek():                 *)
(*   counter[s] >= MaxRound   -> pop(), next iteration      (Skip)         *)
(*   otherwise  add(successors of s); process s; pop(); counter[s] += 1    *)
(*                                                          (Visit)        *)
(* The pop() after processing removes work_list[0], which is s only if no  *)
(* successor with a smaller priority was pushed in between - a loop-back   *)
(* or `continue` edge pushes exactly such a successor.                     *)
(*                                                                         *)
(* This module is (a) the operator library of the trace specification      *)
(* WorklistTrace (which replays recorded peek/add/pop events of real runs  *)
(* and compares the list after every operation), and (b) a design model    *)
(* over a constant CFG: TLC checks the bound on iterations and termination *)
(* (they hold whatever is popped) and PopRemovesProcessed, which the code  *)
(* as pinned violates on every CFG with a back edge (negative control:     *)
(* MC_StmtWorklist_pinned.cfg must produce a counterexample;               *)
(* with RemoveProcessed = TRUE the invariant holds).                       *)
(***************************************************************************)
EXTENDS Naturals, Integers, Sequences, SequencesExt, FiniteSets, TLC

(* ---------------- the heap-on-a-list, exactly as heapq does it ---------------- *)
Less(a, b) == a[1] < b[1] \/ (a[1] = b[1] /\ a[2] < b[2])        \* tuple comparison of (priority, statement)
(* heapq._siftdown(heap, 0, pos): move heap[pos] towards the root while its parent is larger (1-based here) *)
RECURSIVE SiftUp(_, _)
SiftUp(h, pos) == IF pos = 1 THEN h
                  ELSE LET par == pos \div 2 IN
                       IF Less(h[pos], h[par]) THEN SiftUp([h EXCEPT ![pos] = h[par], ![par] = h[pos]], par) ELSE h
HeapPush(h, x) == SiftUp(Append(h, x), Len(h) + 1)
RECURSIVE PushAll(_, _, _, _)
(* SimpleWorkList.add(data): every node not yet queued is pushed, in the order of data *)
PushAll(h, queued, data, prio) ==
  IF data = << >> THEN [heap |-> h, queued |-> queued]
  ELSE LET x == Head(data) IN
       IF x \in queued THEN PushAll(h, queued, Tail(data), prio)
       ELSE PushAll(HeapPush(h, <<prio[x], x>>), queued \cup {x}, Tail(data), prio)
PopFront(h) == Tail(h)                                            \* list.pop(0)
Stmts(h) == [j \in 1..Len(h) |-> h[j][2]]

(* ---------------- design model over a constant CFG ---------------- *)
CONSTANTS Node,             \* statements
          Succ,             \* [Node -> sequence of Node]: CFG successors in adjacency order
          Prio,             \* [Node -> Nat]: reverse post-order index
          Entry, MaxRound,
          RemoveProcessed   \* FALSE: the code as pinned (pop(0)); TRUE: the processed statement is removed
VARIABLES heap, queued, counter, iters, lastPopped, lastProcessed
vars == <<heap, queued, counter, iters, lastPopped, lastProcessed>>

Init == /\ heap = <<<<Prio[Entry], Entry>>>> /\ queued = {Entry}
        /\ counter = [n \in Node |-> 0] /\ iters = 0 /\ lastPopped = 0 /\ lastProcessed = 0

RemoveStmt(h, s) == SelectSeq(h, LAMBDA x : x[2] # s)
Iterate ==
  /\ heap # << >>
  /\ LET s == heap[1][2] IN
     IF counter[s] >= MaxRound
     THEN /\ heap' = PopFront(heap) /\ queued' = queued \ {s}
          /\ lastPopped' = s /\ lastProcessed' = s
          /\ UNCHANGED counter
     ELSE LET r == PushAll(heap, queued, Succ[s], Prio)
              popped == IF RemoveProcessed THEN s ELSE r.heap[1][2] IN
          /\ heap' = IF RemoveProcessed THEN RemoveStmt(r.heap, s) ELSE PopFront(r.heap)
          /\ queued' = r.queued \ {popped}
          /\ counter' = [counter EXCEPT ![s] = @ + 1]
          /\ lastPopped' = popped /\ lastProcessed' = s
  /\ iters' = iters + 1
Next == Iterate
Spec == Init /\ [][Next]_vars /\ WF_vars(Next)

(* what holds for the code as pinned *)
QueuedIsHeap == queued = {heap[j][2] : j \in 1..Len(heap)}
IterationBound == iters <= Cardinality(Node) * (MaxRound + 1) * (Cardinality(Node) + 1)
VisitBound == \A n \in Node : counter[n] <= MaxRound
Terminates == <>[](heap = << >>)
(* what a reader of analyze_stmts expects, and the pinned code violates on a back edge *)
PopRemovesProcessed == lastPopped = lastProcessed
(* consequence for C06: with a loop, the header is removed unprocessed and may never be visited again *)
EveryReachableVisited == heap = << >> => \A n \in Node : counter[n] >= 1
=============================================================================
