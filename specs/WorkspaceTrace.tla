--------------------------- MODULE WorkspaceTrace ---------------------------
(***************************************************************************)
(* Trace validation for C18.  One trace = one placement of workspace and   *)
(* inputs, materialised on disk and run under strace.  The harness does    *)
(* lexical work only (tokenising paths relative to the case directory,     *)
(* resolving symlinks of parent directories); this module decides.         *)
(*                                                                         *)
(* Per trace:  force, ws_option (components of the real path of the -w     *)
(* directory, each with a flag "contains the default name"), the flag      *)
(* ws_option_has_default (the substring rule applies to the option text),  *)
(* inputs (real paths), pre (snapshot before the run: path + kind),        *)
(* events (mutating system calls in order), changed (pre-existing paths    *)
(* that differ afterwards), created (paths that did not exist before).     *)
(***************************************************************************)
EXTENDS Naturals, Sequences, SequencesExt, FiniteSets, TLC, Json, IOUtils

Doc == JsonDeserialize(IOEnv.TRACE_FILE)
T(c) == Doc.traces[c]
DefaultName == "lian_workspace"

Names(ws) == [k \in 1..Len(ws) |-> ws[k].n]
EffWs(t) == IF t.ws_option_has_default THEN Names(t.ws_option) ELSE Append(Names(t.ws_option), DefaultName)

Outside(p)     == Len(p) > 0 /\ p[1] = "<outside>"
Under(a, p)    == IsPrefix(a, p)                       \* p is a or below a
StrictUnder(a, p) == IsPrefix(a, p) /\ Len(p) > Len(a)
(* p belongs to an input: below an input directory, except that a workspace placed inside an input
   directory is not input content (unless the input itself was placed inside the workspace) *)
UnderInput(t, p) == \E k \in 1..Len(t.inputs) :
                       /\ Under(t.inputs[k], p)
                       /\ (Under(EffWs(t), t.inputs[k]) \/ ~Under(EffWs(t), p))
PreExisting(t, p) == \E k \in 1..Len(t.pre) : t.pre[k].p = p

EventVerdict(t, e) ==
  LET p == e.path  ws == EffWs(t) IN
  IF Outside(p) THEN "mutation_outside_case_dir"
  ELSE IF e.op = "mkdir" THEN
       (IF Under(ws, p) \/ IsPrefix(p, ws) THEN "" ELSE "created_outside_workspace")
  ELSE IF e.op \in {"write", "meta"} THEN
       (IF UnderInput(t, p) /\ PreExisting(t, p) THEN "input_written"
        ELSE IF Under(ws, p) THEN "" ELSE "created_outside_workspace")
  ELSE \* delete, rmdir
       IF UnderInput(t, p) /\ PreExisting(t, p) THEN "input_deleted"
       ELSE IF ~StrictUnder(ws, p) THEN "deleted_outside_workspace"
       ELSE IF PreExisting(t, p) /\ ~t.force THEN "deleted_previous_contents_without_force"
       ELSE ""

ChangeVerdict(t, ch) ==
  LET p == ch.path  ws == EffWs(t) IN
  IF UnderInput(t, p) THEN "input_changed"
  ELSE IF ~StrictUnder(ws, p) THEN "outside_workspace_changed"
  ELSE IF ~t.force THEN "previous_contents_changed_without_force"
  ELSE ""

(* bounded copying: no more files appear under <workspace>/src than the inputs hold *)
FinalVerdict(t) ==
  LET ws == EffWs(t)
      src == Append(ws, "src")
      copied == {k \in 1..Len(t.created) : t.created[k].kind = "f" /\ StrictUnder(src, t.created[k].path)}
      inputFiles == {k \in 1..Len(t.pre) : t.pre[k].k = "f" /\ UnderInput(t, t.pre[k].p) /\ ~Under(ws, t.pre[k].p)}
      strays == {k \in 1..Len(t.created) : ~Under(ws, t.created[k].path) /\ ~IsPrefix(t.created[k].path, ws)}
  IN
  IF t.status = "TIMEOUT" \/ t.truncated THEN "unbounded_run"
  \* at most one copy per input file; with header pre-processing (-I) every C file also gets a rewritten copy and the pre-processor's output
  ELSE IF Cardinality(copied) > (IF "copy_factor" \in DOMAIN t THEN t.copy_factor ELSE 1) * Cardinality(inputFiles) THEN "unbounded_copy"
  ELSE IF strays # {} THEN "created_outside_workspace"
  ELSE ""

VARIABLES c, i, bad
vars == <<c, i, bad>>

NEv(t) == Len(t.events)
NCh(t) == Len(t.changed)

Init == c \in 1..Len(Doc.traces) /\ i = 0 /\ bad = ""

Report(t, v, what) ==
  v # "" => PrintT("@@" \o ToJson([name |-> t.name, clause |-> v, at |-> i + 1, event |-> what]))

Next ==
  /\ bad = ""
  /\ LET t == T(c) IN
     /\ i < NEv(t) + NCh(t) + 1
     /\ i' = i + 1 /\ c' = c
     /\ IF i < NEv(t)
        THEN LET e == t.events[i + 1]  v == EventVerdict(t, e) IN bad' = v /\ Report(t, v, e)
        ELSE IF i < NEv(t) + NCh(t)
        THEN LET ch == t.changed[i + 1 - NEv(t)]  v == ChangeVerdict(t, ch) IN bad' = v /\ Report(t, v, ch)
        ELSE LET v == FinalVerdict(t) IN bad' = v /\ Report(t, v, [op |-> "end"])

Spec == Init /\ [][Next]_vars
=============================================================================
