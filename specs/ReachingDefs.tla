---------------------------- MODULE ReachingDefs ----------------------------
(***************************************************************************)
(* C06, precision side: the classical reaching-definitions solution over   *)
(* lian's own control-flow graph, computed here as the least fixpoint of   *)
(*     IN(n)  = UNION of OUT(p) over the CFG predecessors p of n           *)
(*     OUT(n) = Gen(n) \cup (IN(n) \ Kill(n))                              *)
(* by synchronous sweeps (one sweep per TLC step).  At the fixpoint:       *)
(*   - what lian treats as reaching statement n (its in_symbol_bits) must  *)
(*     be contained in IN(n): a definition outside IN(n) is overwritten on *)
(*     every path to n, or reaches n on no path at all;                    *)
(*   - on loop-free methods the two sets must be equal.                    *)
(* Definitions are pairs <<variable name, defining statement>>; Gen/Kill   *)
(* come from the rows' attributes (module GIRControl's Defs), not from     *)
(* lian's def-use tables.                                                  *)
(***************************************************************************)
EXTENDS Naturals, Integers, Sequences, SequencesExt, FiniteSets, TLC, Json, IOUtils

Doc == JsonDeserialize(IOEnv.CASES)
Case(c) == Doc.cases[c]

VARIABLES c, out, round, bad
vars == <<c, out, round, bad>>

Rows == Case(c).rows
IsMarker(r) == r.op \in {"block_start", "block_end"}
Stmts == {r \in ToSet(Rows) : ~IsMarker(r)}
RowOf(id) == CHOOSE r \in Stmts : r.id = id
DeclOps == {"parameter_decl", "variable_decl"}
Defs(r) == (IF r.target_v THEN {r.target} ELSE {})
           \cup (IF r.op \in DeclOps \cup {"forin_stmt", "for_value_stmt"} /\ r.name_v THEN {r.name} ELSE {})

Uses(r) == (IF r.operand_v THEN {r.operand} ELSE {}) \cup (IF r.operand2_v THEN {r.operand2} ELSE {})
           \cup (IF r.condition_v THEN {r.condition} ELSE {}) \cup (IF r.receiver_v THEN {r.receiver} ELSE {})
           \cup (IF r.op = "return_stmt" /\ r.name_v THEN {r.name} ELSE {})
           \cup ToSet(r.arg_names)

Edges == ToSet(Case(c).cfg)
Nodes == {e[1] : e \in Edges} \cup {e[2] : e \in {x \in Edges : x[2] > 0}}
Preds(n) == {e[1] : e \in {x \in Edges : x[2] = n}}
Gen(n) == {<<v, n>> : v \in Defs(RowOf(n))}
In(o, n) == UNION {o[p] : p \in Preds(n)}
Sweep(o) == [n \in Nodes |-> Gen(n) \cup {d \in In(o, n) : d[1] \notin Defs(RowOf(n))}]

LianIn(n) == LET key == ToString(n) IN
             IF key \in DOMAIN Case(c).rd THEN {<<Case(c).rd[key][j][1], Case(c).rd[key][j][2]>> : j \in 1..Len(Case(c).rd[key])}
             ELSE {}
HasLian(n) == ToString(n) \in DOMAIN Case(c).rd

Init == c \in 1..Len(Doc.cases) /\ out = [n \in Nodes |-> {}] /\ round = 0 /\ bad = ""

Report(v, n, extra) == PrintT("@@" \o ToJson([case |-> Case(c).name, clause |-> v, at |-> n, op |-> RowOf(n).op, defs |-> extra]))

Iterate == /\ round >= 0 /\ Sweep(out) # out
           /\ out' = Sweep(out) /\ round' = round + 1 /\ UNCHANGED <<c, bad>>

Judge ==
  /\ round >= 0 /\ Sweep(out) = out
  /\ round' = -1 /\ UNCHANGED <<c, out>>
  /\ LET extra == {n \in Nodes : HasLian(n) /\ ~(LianIn(n) \subseteq In(out, n))}
         \* the property quantifies over uses: a classical definition that lian does not list counts where the statement uses the variable
         UsedIn(n) == {d \in In(out, n) : d[1] \in Uses(RowOf(n))}
         short == {n \in Nodes : HasLian(n) /\ Case(c).loopfree /\ ~(UsedIn(n) \subseteq LianIn(n))}
     IN IF extra # {}
        THEN LET n == CHOOSE x \in extra : TRUE IN
             bad' = "definition_retained_that_cannot_reach" /\ Report(bad', n, LianIn(n) \ In(out, n))
        ELSE IF short # {}
        THEN LET n == CHOOSE x \in short : TRUE IN
             bad' = "loop_free_solution_smaller_than_classical" /\ Report(bad', n, {d \in In(out, n) : d[1] \in Uses(RowOf(n))} \ LianIn(n))
        ELSE bad' = ""

Next == bad = "" /\ (Iterate \/ Judge)
Spec == Init /\ [][Next]_vars
=============================================================================
