------------------------- MODULE SchedulerTrace -------------------------
(***************************************************************************)
(* Trace validation of real lian runs against Scheduler (C13, and the      *)
(* descent rule used by C07).                                              *)
(*                                                                         *)
(* The events come from harness/schedtrace.py, which wraps the             *)
(* linearisation points of the three schedulers at run time (no source     *)
(* change): statement loop (enter/peek/add/proc/pop/leave), frame stacks   *)
(* of the bottom-up and top-down phases (push/popf/init/dpre/decide/       *)
(* addpath) and the taint worklist (tstart/tenq/tpop/tend).  One TLC state *)
(* per event; a case is one lian run.                                      *)
(*                                                                         *)
(* Two kinds of clauses:                                                   *)
(*  - bounds (verdict): the work done stays inside the bounds that         *)
(*    Scheduler proves for the design, evaluated with the iteration        *)
(*    constants the run itself used - pushes per entry against call sites, *)
(*    statement visits per frame against statements and interruptions,     *)
(*    taint pops per source against the size of the flow graph;            *)
(*  - conformance (drift): the decision taken at every call statement is   *)
(*    the one Scheduler!Cut computes from the modelled path store, counter *)
(*    and frame; the path store answers like the PathStore contract; the   *)
(*    frame stack moves as InitFrame/Spawn/Finish allow.  Drift means the  *)
(*    model no longer describes the code, so the proof does not transfer.  *)
(***************************************************************************)
EXTENDS Naturals, Integers, Sequences, SequencesExt, FiniteSets, TLC, Json, IOUtils

Doc == JsonDeserialize(IOEnv.CASES)
NCases == Len(Doc.cases)

(* ---- operators of Scheduler, restated over integer ids (methods and statements are lian's stmt ids) ---- *)
ProperPrefix(p, q) == Len(p) < Len(q) /\ IsPrefix(p, q)
AddAccepted(st, p) == p \notin st /\ ~\E q \in st : ProperPrefix(p, q)
AddStored(st, p)   == IF AddAccepted(st, p) THEN (st \ {q \in st : ProperPrefix(q, p)}) \cup {p} ELSE st
RECURSIVE CyclesFrom(_, _, _)
CyclesFrom(p, i, seen) == IF i > Len(p) THEN 0
                          ELSE (IF p[i][3] \in seen THEN 1 ELSE 0) + CyclesFrom(p, i + 1, seen \cup {p[i][1], p[i][3]})
Cycles(p) == CyclesFrom(p, 1, {})
Get(f, x) == IF x \in DOMAIN f THEN f[x] ELSE 0
Bump(f, xs) == [x \in DOMAIN f \cup xs |-> Get(f, x) + (IF x \in xs THEN 1 ELSE 0)]
HasNeg(p) == \E j \in 1..Len(p) : p[j][1] < 0 \/ p[j][2] < 0 \/ p[j][3] < 0

VARIABLES c, i,
          stack,      \* top-down frames: [f, m, site, path, inited, pending, done]
          counter, store, sites, pushes, entries, methods,
          fst,        \* per frame id: [procs, intrs, nstmts, maxround, phase]
          p2push,     \* bottom-up phase: pushes per method
          inP3,       \* the meta frame has been pushed
          expect,     \* the decision the model expects for the pending dpre event: [sites, sched]
          tn,         \* taint: [active, pops, size]
          bad, drift
vars == <<c, i, stack, counter, store, sites, pushes, entries, methods, fst, p2push, inP3, expect, tn, bad, drift>>

Ev == Doc.cases[c].events
K  == Doc.cases[c].k                 \* [maxcs, slack]
MaxCS == K.maxcs

Top == stack[Len(stack)]
SetTop(f) == [stack EXCEPT ![Len(stack)] = f]
NoFrame == [procs |-> 0, intrs |-> 0, nstmts |-> 0, maxround |-> 0, phase |-> 0]
FS(f) == IF f \in DOMAIN fst THEN fst[f] ELSE NoFrame
SetFS(f, r) == [x \in DOMAIN fst \cup {f} |-> IF x = f THEN r ELSE fst[x]]

Cut(path, done, site) ==
  \/ Append(path, site) \in store
  \/ Cycles(Append(path, site)) > 1
  \/ site \in done
  \/ Get(counter, site) > MaxCS

Init == /\ c \in 1..NCases /\ i = 1
        /\ stack = << >> /\ counter = << >> /\ store = {} /\ sites = {} /\ pushes = 0 /\ entries = 0 /\ methods = {}
        /\ fst = << >> /\ p2push = << >> /\ inP3 = FALSE /\ expect = [sites |-> {}, sched |-> << >>, on |-> FALSE]
        /\ tn = [active |-> FALSE, pops |-> 0, size |-> 0]
        /\ bad = "" /\ drift = ""

Keep(vs) == UNCHANGED vs
Mark(d) == IF drift = "" THEN d ELSE drift       \* remember the first conformance failure

(* ---------------- frame stacks ---------------- *)
Push(e) ==
  IF e.meta
  THEN \* a new entry point: fresh counter, empty stack (the path store survives)
       /\ inP3' = TRUE /\ stack' = << >> /\ counter' = << >> /\ pushes' = 0 /\ sites' = {} /\ methods' = {}
       /\ entries' = entries + 1 /\ bad' = bad
       /\ drift' = IF stack # << >> THEN Mark("meta_push_on_nonempty_stack@" \o ToString(i)) ELSE drift
       /\ Keep(<<store, fst, p2push, expect, tn>>)
  ELSE IF ~inP3
  THEN \* bottom-up phase: every method is pushed at most once (analysed or on the stack otherwise)
       /\ p2push' = Bump(p2push, {e.m})
       /\ bad' = IF bad = "" /\ Get(p2push, e.m) + 1 > K.slack THEN "p2_push_bound:method_pushed_" \o ToString(Get(p2push, e.m) + 1) \o "_times" ELSE bad
       /\ Keep(<<stack, counter, store, sites, pushes, entries, methods, fst, inP3, expect, tn, drift>>)
  ELSE LET site == <<e.caller, e.cs, e.m>>
           fr == [f |-> e.f, m |-> e.m, site |-> site, path |-> << >>, inited |-> FALSE, pending |-> {}, done |-> {}]
           isEntry == stack = << >>
           sites2 == IF isEntry THEN sites ELSE sites \cup {site}
           ok == isEntry \/ (Top.inited /\ site \in Top.pending)
       IN /\ stack' = IF isEntry THEN <<fr>>
                      ELSE Append(SetTop([Top EXCEPT !.pending = @ \ {site}, !.done = @ \cup {site}]), fr)
          /\ pushes' = pushes + 1 /\ sites' = sites2 /\ methods' = methods \cup {e.m}
          /\ drift' = IF ~ok THEN Mark("push_not_pending@" \o ToString(i)) ELSE drift
          \* C13 bound: a call site is descended into at most MaxCS + 1 times per entry point
          /\ bad' = IF bad = "" /\ pushes + 1 > K.slack * ((MaxCS + 1) * Cardinality(sites2) + 1)
                    THEN "push_bound:" \o ToString(pushes + 1) \o "_pushes_for_" \o ToString(Cardinality(sites2)) \o "_call_sites" ELSE bad
          /\ Keep(<<counter, store, entries, fst, p2push, inP3, expect, tn>>)

PopF(e) ==
  IF ~inP3 \/ stack = << >>
  THEN Keep(<<stack, counter, store, sites, pushes, entries, methods, fst, p2push, inP3, expect, tn, bad, drift>>)
  ELSE /\ stack' = SubSeq(stack, 1, Len(stack) - 1)
       /\ drift' = IF Top.f # e.f THEN Mark("pop_of_other_frame@" \o ToString(i))
                   ELSE IF Top.inited /\ Top.pending # {} THEN Mark("pop_with_pending_callees@" \o ToString(i)) ELSE drift
       /\ Keep(<<counter, sites, pushes, entries, methods, store, fst, p2push, inP3, expect, tn, bad>>)

InitEv(e) ==
  IF stack = << >> \/ Top.f # e.f
  THEN /\ drift' = Mark("init_of_non_top_frame@" \o ToString(i))
       /\ Keep(<<stack, counter, store, sites, pushes, entries, methods, fst, p2push, inP3, expect, tn, bad>>)
  ELSE LET want == IF Len(stack) > 1 THEN Append(stack[Len(stack) - 1].path, Top.site) ELSE << >>
           got == e.path
       IN /\ stack' = SetTop([Top EXCEPT !.inited = TRUE, !.path = got])
          /\ drift' = IF e.ok /\ got # want THEN Mark("call_path_differs@" \o ToString(i)) ELSE drift
          /\ Keep(<<counter, store, sites, pushes, entries, methods, fst, p2push, inP3, expect, tn, bad>>)

AddPathEv(e) ==
  LET acc == ~HasNeg(e.path) /\ AddAccepted(store, e.path)
      st2 == IF acc THEN AddStored(store, e.path) ELSE store
  IN /\ store' = st2
     /\ drift' = IF e.ok # acc THEN Mark("path_store_result@" \o ToString(i))
                 ELSE IF e.n # Cardinality(st2) THEN Mark("path_store_size@" \o ToString(i)) ELSE drift
     /\ Keep(<<stack, counter, sites, pushes, entries, methods, fst, p2push, inP3, expect, tn, bad>>)

(* the view the code had just before deciding, against the model's view *)
DPre(e) ==
  IF stack = << >> \/ Top.f # e.f
  THEN /\ drift' = Mark("decide_in_non_top_frame@" \o ToString(i)) /\ expect' = [sites |-> {}, sched |-> << >>, on |-> FALSE]
       /\ Keep(<<stack, counter, store, sites, pushes, entries, methods, fst, p2push, inP3, tn, bad>>)
  ELSE LET pre == e.pre
           siteOf(j) == <<e.m, e.s, pre[j].callee>>
           viewOK == \A j \in 1..Len(pre) :
                        /\ pre[j].exists = (Append(Top.path, siteOf(j)) \in store)
                        /\ pre[j].cycles = Cycles(Append(Top.path, siteOf(j)))
                        /\ pre[j].already = (siteOf(j) \in Top.done)
                        /\ pre[j].cnt = Get(counter, siteOf(j))
           sched == SelectSeq([j \in 1..Len(pre) |-> pre[j].callee], LAMBDA f : ~Cut(Top.path, Top.done, <<e.m, e.s, f>>))
       IN /\ expect' = [sites |-> {siteOf(j) : j \in 1..Len(pre)}, sched |-> sched, on |-> TRUE]
          /\ sites' = sites \cup {siteOf(j) : j \in 1..Len(pre)}
          /\ drift' = IF ~viewOK THEN Mark("decision_inputs_differ@" \o ToString(i)) ELSE drift
          /\ Keep(<<stack, counter, store, pushes, entries, methods, fst, p2push, inP3, tn, bad>>)

Decide(e) ==
  IF ~expect.on
  THEN Keep(<<stack, counter, store, sites, pushes, entries, methods, fst, p2push, inP3, expect, tn, bad, drift>>)
  ELSE LET schedSites == {<<e.m, e.s, e.sched[j]>> : j \in 1..Len(e.sched)} IN
       /\ drift' = IF e.sched # expect.sched THEN Mark("descent_decision_differs@" \o ToString(i)) ELSE drift
       /\ counter' = IF e.sched # << >> THEN Bump(counter, schedSites) ELSE Bump(counter, expect.sites)
       /\ stack' = IF e.sched # << >> THEN SetTop([Top EXCEPT !.pending = schedSites, !.done = {}]) ELSE stack
       /\ expect' = [sites |-> {}, sched |-> << >>, on |-> FALSE]
       /\ Keep(<<store, sites, pushes, entries, methods, fst, p2push, inP3, tn, bad>>)

(* ---------------- statement loop ---------------- *)
Enter(e) == /\ fst' = SetFS(e.f, [FS(e.f) EXCEPT !.nstmts = e.nstmts, !.maxround = e.maxround, !.phase = e.phase])
            /\ Keep(<<stack, counter, store, sites, pushes, entries, methods, p2push, inP3, expect, tn, bad, drift>>)
Leave(e) == /\ fst' = SetFS(e.f, [FS(e.f) EXCEPT !.intrs = @ + (IF e.intr THEN 1 ELSE 0)])
            /\ Keep(<<stack, counter, store, sites, pushes, entries, methods, p2push, inP3, expect, tn, bad, drift>>)
Proc(e) ==
  LET r == FS(e.f)
      n == r.procs + 1
  IN /\ fst' = SetFS(e.f, [r EXCEPT !.procs = n])
     \* C13 bound: a statement is visited while its counter is below the round bound; an interrupted visit does not count
     /\ bad' = IF bad = "" /\ n > K.slack * (r.maxround * r.nstmts + r.intrs + 1)
               THEN "visit_bound:" \o ToString(n) \o "_visits_in_a_frame_of_" \o ToString(r.nstmts) \o "_statements" ELSE bad
     \* conformance: the visit counter is below the bound when a statement is processed
     /\ drift' = IF e.cnt >= r.maxround THEN Mark("processed_beyond_round_bound@" \o ToString(i)) ELSE drift
     /\ Keep(<<stack, counter, store, sites, pushes, entries, methods, p2push, inP3, expect, tn>>)

(* ---------------- taint worklist ---------------- *)
TStart(e) == /\ tn' = [active |-> TRUE, pops |-> 0, size |-> e.nodes + e.edges]
             /\ Keep(<<stack, counter, store, sites, pushes, entries, methods, fst, p2push, inP3, expect, bad, drift>>)
TPop(e) == /\ tn' = [tn EXCEPT !.pops = @ + 1]
           \* C13 bound: a node is re-processed only when its tag grew or when a symbol it uses was processed
           /\ bad' = IF bad = "" /\ tn.active /\ tn.pops + 1 > K.slack * (2 * tn.size + 2)
                     THEN "taint_bound:" \o ToString(tn.pops + 1) \o "_pops_in_a_graph_of_size_" \o ToString(tn.size) ELSE bad
           /\ Keep(<<stack, counter, store, sites, pushes, entries, methods, fst, p2push, inP3, expect, drift>>)
TEnd(e) == /\ tn' = [tn EXCEPT !.active = FALSE]
           /\ Keep(<<stack, counter, store, sites, pushes, entries, methods, fst, p2push, inP3, expect, bad, drift>>)

Skip == Keep(<<stack, counter, store, sites, pushes, entries, methods, fst, p2push, inP3, expect, tn, bad, drift>>)

Step ==
  /\ i <= Len(Ev) /\ bad = ""
  /\ LET e == Ev[i] IN
       CASE e.e = "push"    -> Push(e)
         [] e.e = "popf"    -> PopF(e)
         [] e.e = "init"    -> InitEv(e)
         [] e.e = "addpath" -> AddPathEv(e)
         [] e.e = "dpre"    -> DPre(e)
         [] e.e = "decide"  -> Decide(e)
         [] e.e = "enter"   -> Enter(e)
         [] e.e = "leave"   -> Leave(e)
         [] e.e = "proc"    -> Proc(e)
         [] e.e = "tstart"  -> TStart(e)
         [] e.e = "tpop"    -> TPop(e)
         [] e.e = "tend"    -> TEnd(e)
         [] OTHER           -> Skip
  /\ i' = i + 1 /\ c' = c

Next == Step
Spec == Init /\ [][Next]_vars

Finished == i > Len(Ev) \/ bad # ""
Report == Finished =>
  PrintT("@@" \o ToJson([case |-> Doc.cases[c].name, clause |-> bad, drift |-> drift, at |-> i, entries |-> entries,
                         frames |-> Cardinality(DOMAIN fst), paths |-> Cardinality(store)]))
ReportConstraint == Report
=============================================================================
