----------------------------- MODULE TaintRules -----------------------------
(***************************************************************************)
(* C11 - every reported taint flow is justified by rules and by a data     *)
(* dependence.  One case = one run of lian: the GIR rows of the program,   *)
(* the rule set of the run (sources and sinks, normalised lexically), and  *)
(* the flows lian reported.                                                *)
(*                                                                         *)
(*  (a) rule match: the source statement of a flow matches a source rule,  *)
(*      its sink statement a sink rule (operation, name, language, unit     *)
(*      name, line);                                                       *)
(*  (b) upper bound: the flow is in the flow-insensitive, context-         *)
(*      insensitive, field-based closure Upper computed here by fixpoint   *)
(*      iteration (one sweep per TLC step) - which is empty when no rule   *)
(*      matches, when the tainted value sits in another argument position  *)
(*      than the sink rule names, or when data lives in unrelated names;   *)
(*  (d) monotonicity: for recorded pairs of runs of the same program with  *)
(*      rule sets R1 \subseteq R2, Flows(R1) \subseteq Flows(R2).          *)
(***************************************************************************)
EXTENDS Naturals, Integers, Sequences, SequencesExt, FiniteSets, TLC, Json, IOUtils

Doc == JsonDeserialize(IOEnv.CASES)
Case(c) == Doc.cases[c]

VARIABLES c, tags, round, bad
vars == <<c, tags, round, bad>>

Rows == Case(c).rows
IsMarker(r) == r.op \in {"block_start", "block_end"}
Stmts == {r \in ToSet(Rows) : ~IsMarker(r)}
RowOf(id) == CHOOSE r \in Stmts : r.id = id
Rules == Case(c).rules
SrcRules == {r \in ToSet(Rules) : r.kind = "source"}
SnkRules == {r \in ToSet(Rules) : r.kind = "sink"}

Applies(rule, row) == /\ (rule.lang \in {"", "%"} \/ rule.lang = row.lang)
                      /\ (rule.unit_name = "" \/ rule.unit_name = row.file)
RuleMatches(rule, row) ==
  /\ Applies(rule, row)
  /\ rule.operation = row.op
  /\ rule.name = row.name
  /\ (rule.line = 0 \/ rule.line = row.line + 1)
IsSource(row) == \E r \in SrcRules : RuleMatches(r, row)
IsSink(row)   == \E r \in SnkRules : RuleMatches(r, row)
SinkArgs(row) == {r.arg : r \in {x \in SnkRules : RuleMatches(x, row)}}

(* ---------------- the closure ---------------- *)
Names == UNION {{r.target, r.name, r.operand, r.operand2, r.source, r.array, r.receiver, r.receiver_object, r.receiver_record, r.value, r.field}
               \cup ToSet(r.args) \cup {r.named_toks[j].tok.s : j \in 1..Len(r.named_toks)} : r \in Stmts} \cup {"%ret"}
T(tg, n) == IF n \in DOMAIN tg THEN tg[n] ELSE {}
MethodDecls == {r \in Stmts : r.op = "method_decl"}
Block(b) == {r \in Stmts : r.parent = b}
(* statements of a method body, any nesting: rows whose chain of parents reaches the body block *)
RECURSIVE Inside(_, _)
Inside(r, m) == IF r.parent = 0 THEN FALSE
                ELSE IF r.parent = m.body \/ r.parent = m.id THEN TRUE
                ELSE LET ps == {x \in ToSet(Rows) : x.id = r.parent} IN
                     IF ps = {} THEN FALSE ELSE Inside(CHOOSE x \in ps : TRUE, m)
ParamsOf(m) == IF m.parameters = 0 THEN << >> ELSE SelectSeq(Rows, LAMBDA p : p.parent = m.parameters /\ p.op = "parameter_decl")
ReturnsOf(m) == {r.name : r \in {x \in Stmts : x.op = "return_stmt" /\ Inside(x, m)}}
Callees(row) == {m \in MethodDecls : m.name = row.name \/ (row.op = "object_call_stmt" /\ m.name = row.field)
                                      \/ (row.op = "call_stmt" /\ m.name = "__init__" /\ \E k \in Stmts : k.op = "class_decl" /\ k.name = row.name)}

(* contribution of one row to the tag of name n, given the current tags *)
Contrib(tg, r, n) ==
  (IF IsSource(r) /\ r.op = "call_stmt" /\ n = r.target THEN {r.id} ELSE {})
  \cup (IF IsSource(r) /\ r.op = "parameter_decl" /\ n = r.name THEN {r.id} ELSE {})
  \cup (IF r.op = "assign_stmt" /\ n = r.target THEN T(tg, r.operand) \cup T(tg, r.operand2) ELSE {})
  \cup (IF r.op \in {"call_stmt", "object_call_stmt"} THEN
          LET ms == Callees(r) IN
          (IF n = r.target THEN (IF ms = {} THEN UNION {T(tg, a) : a \in ToSet(r.args)} ELSE {})
                                \cup UNION {UNION {T(tg, x) : x \in ReturnsOf(m)} : m \in ms}
                                \cup (IF r.op = "object_call_stmt" THEN T(tg, r.receiver_object) ELSE {}) ELSE {})
          \cup UNION {LET ps == ParamsOf(m) IN
                      UNION {IF ps[j].name = n /\ "%packed_named_pmt" \in ToSet(ps[j].attrs)
                             THEN UNION {T(tg, r.named_toks[k].tok.s) : k \in 1..Len(r.named_toks)}        \* **kwargs: any keyword may land in it
                             ELSE IF ps[j].name = n /\ "%packed_pos_pmt" \in ToSet(ps[j].attrs)
                             THEN UNION {T(tg, a) : a \in ToSet(r.args)}                                  \* *args: any positional argument
                             ELSE IF ps[j].name = n
                             THEN (IF j <= Len(r.args) THEN T(tg, r.args[j]) ELSE {})
                                  \cup UNION {T(tg, r.named_toks[k].tok.s) : k \in {i \in 1..Len(r.named_toks) : r.named_toks[i].name = n}}
                             ELSE {} : j \in 1..Len(ps)} : m \in ms}
        ELSE {})
  \* a call of an unknown method may store its arguments in the receiver (append, add, update ...); a value read out of a field or
  \* an element is a reference that aliases it, so whatever reaches the read value may reach the field / the container
  \cup (IF r.op = "object_call_stmt" /\ n = r.receiver_object THEN UNION {T(tg, a) : a \in ToSet(r.args)} ELSE {})
  \cup (IF r.op = "field_read" /\ n \in {r.field, r.receiver_object} THEN T(tg, r.target) ELSE {})
  \cup (IF r.op = "array_read" /\ n = r.array THEN T(tg, r.target) ELSE {})
  \cup (IF r.op = "field_write" /\ n = r.field THEN T(tg, r.source) ELSE {})
  \cup (IF r.op = "field_read" /\ n = r.target THEN T(tg, r.field) \cup T(tg, r.receiver_object) ELSE {})
  \cup (IF r.op = "array_write" /\ n = r.array THEN T(tg, r.source) ELSE {})
  \cup (IF r.op = "array_read" /\ n = r.target THEN T(tg, r.array) ELSE {})
  \cup (IF r.op = "record_write" /\ n = r.receiver_record THEN T(tg, r.value) ELSE {})
  \cup (IF r.op \in {"forin_stmt", "for_value_stmt"} /\ n = r.name THEN T(tg, r.receiver) ELSE {})
Sweep(tg) == [n \in Names |-> T(tg, n) \cup UNION {Contrib(tg, r, n) : r \in Stmts}]

UpperFlows(tg) == UNION {UNION {IF a >= 0 /\ a < Len(k.args) THEN {<<s, k.id>> : s \in T(tg, k.args[a + 1])} ELSE {} : a \in SinkArgs(k)}
                         : k \in {x \in Stmts : IsSink(x)}}
Flows == {<<Case(c).flows[j][1], Case(c).flows[j][2]>> : j \in 1..Len(Case(c).flows)}
FlowsOf(i) == {<<Doc.cases[i].flows[j][1], Doc.cases[i].flows[j][2]>> : j \in 1..Len(Doc.cases[i].flows)}

Init == c \in 1..Len(Doc.cases) /\ tags = [n \in {} |-> {}] /\ round = 0 /\ bad = ""

Iterate == /\ round >= 0 /\ Sweep(tags) # tags
           /\ tags' = Sweep(tags) /\ round' = round + 1 /\ UNCHANGED <<c, bad>>

Judge ==
  /\ round >= 0 /\ Sweep(tags) = tags
  /\ round' = -1 /\ UNCHANGED <<c, tags>>
  /\ LET noSrc == {f \in Flows : ~IsSource(RowOf(f[1]))}
         noSnk == {f \in Flows : ~IsSink(RowOf(f[2]))}
         noDep == Flows \ UpperFlows(tags)
         lost  == UNION {FlowsOf(i) \ Flows : i \in ToSet(Case(c).subset_runs)}      \* runs with fewer rules, same program
         v == IF noSrc # {} THEN "flow_source_matches_no_rule"
              ELSE IF noSnk # {} THEN "flow_sink_matches_no_rule"
              ELSE IF noDep # {} THEN "flow_without_data_dependence"
              ELSE IF lost # {} THEN "adding_rules_removed_a_flow" ELSE ""
     IN /\ bad' = ""
        /\ PrintT("@@" \o ToJson([case |-> Case(c).name, clause |-> v, flows |-> Flows, upper |-> UpperFlows(tags),
                                  offending |-> IF noSrc # {} THEN noSrc ELSE IF noSnk # {} THEN noSnk ELSE IF noDep # {} THEN noDep ELSE lost]))

Next == Iterate \/ Judge
Spec == Init /\ [][Next]_vars
=============================================================================
