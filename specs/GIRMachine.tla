----------------------------- MODULE GIRMachine -----------------------------
(***************************************************************************)
(* Executable operational semantics of GIR (docs/en/03.frontend/3-2), in   *)
(* concrete mode: a deterministic small-step machine over the flattened    *)
(* rows that the real `lang` phase emitted.  TLC is the interpreter.       *)
(* C01/C02: when the unit initialiser has run to completion, the sequence  *)
(* of values passed to the output primitive must equal the outputs of the  *)
(* reference semantics (CPython for C01) recorded in the case.             *)
(*                                                                         *)
(* Values are tagged records: [t |-> "int", i], [t |-> "str", s],          *)
(* [t |-> "bool", b], [t |-> "none"], [t |-> "ref", i] (heap index),       *)
(* [t |-> "fun", i (method id), env (activation serial of the definer)],   *)
(* [t |-> "cls", i (class_decl id)], [t |-> "bound", i, env, self],        *)
(* [t |-> "builtin", s].  Operand texts arrive tokenised (lexical work of  *)
(* the harness): [k |-> "int"|"str"|"bool"|"none"|"var"|"empty", i, s].     *)
(*                                                                         *)
(* stack : sequence of activations [m, kont, vars, lex, target, self, ser] *)
(*   kont  continuation frames as in GIRControl                            *)
(*   vars  name -> value for the names declared or bound in the activation *)
(*   lex   serial of the lexically enclosing activation (0: the unit)      *)
(* envs  : serial -> vars of activations that may outlive their frame      *)
(*         (closures); the unit scope has serial 0.                        *)
(* heap  : sequence of [kind, cls, fields, elems]                          *)
(***************************************************************************)
EXTENDS Naturals, Integers, Sequences, SequencesExt, FiniteSets, TLC, Json, IOUtils

CONSTANTS MaxSteps

Doc == JsonDeserialize(IOEnv.CASES)
Case(c) == Doc.cases[c]

VARIABLES c, stack, envs, heap, out, steps, status, nser,
          sinks,       \* C10: pairs <<source statement, sink statement>> observed at the designated sink argument
          calls,       \* C07: triples <<calling method, call statement, called method>> of every call that happened
          defs         \* C08/C09: definition events [s (statement), n (name), v (snapshot of the value)] (only when Case(c).check = "values")
vars == <<c, stack, envs, heap, out, steps, status, nser, sinks, calls, defs>>

Rows == Case(c).rows
IsMarker(r) == r.op \in {"block_start", "block_end"}
Children(b) == SelectSeq(Rows, LAMBDA r : r.parent = b /\ ~IsMarker(r))
RowOf(id) == CHOOSE r \in ToSet(Rows) : r.id = id /\ ~IsMarker(r)
HasRow(id) == \E r \in ToSet(Rows) : r.id = id /\ ~IsMarker(r)

(* ---------------- values ---------------- *)
(* every value carries tg: the set of source statements it depends on (explicit flows only; used by C10) *)
VInt(i)  == [t |-> "int", i |-> i, tg |-> {}]
VStr(s)  == [t |-> "str", s |-> s, tg |-> {}]
VBool(b) == [t |-> "bool", b |-> b, tg |-> {}]
VNone    == [t |-> "none", tg |-> {}]
VRef(i)  == [t |-> "ref", i |-> i, tg |-> {}]
VFun(m, e) == [t |-> "fun", i |-> m, env |-> e, tg |-> {}]
VCls(k)  == [t |-> "cls", i |-> k, tg |-> {}]
VBound(m, e, s) == [t |-> "bound", i |-> m, env |-> e, self |-> s, tg |-> {}]
VBuiltin(s) == [t |-> "builtin", s |-> s, tg |-> {}]
VUndef   == [t |-> "undef", tg |-> {}]
AddTags(v, T) == [v EXCEPT !.tg = @ \cup T]

Abs(x) == IF x < 0 THEN 0 - x ELSE x
Limit == 1073741824          \* TLC integers are 32-bit: cases that leave this range are skipped, not judged
Truthy(v) == CASE v.t = "bool" -> v.b
               [] v.t = "int"  -> v.i # 0
               [] v.t = "str"  -> v.s # ""
               [] v.t = "none" -> FALSE
               [] v.t = "ref"  -> (IF heap[v.i].kind \in {"array", "tuple"} THEN Len(heap[v.i].elems) > 0
                                   ELSE IF heap[v.i].kind = "record" THEN DOMAIN heap[v.i].fields # {} ELSE TRUE)
               [] OTHER -> TRUE
AsInt(v) == IF v.t = "bool" THEN (IF v.b THEN 1 ELSE 0) ELSE v.i
IsNum(v) == v.t \in {"int", "bool"}
VEq(a, b) == IF IsNum(a) /\ IsNum(b) THEN AsInt(a) = AsInt(b)
             ELSE IF a.t # b.t THEN FALSE
             ELSE CASE a.t = "str" -> a.s = b.s
                    [] a.t = "none" -> TRUE
                    [] a.t = "ref" -> a.i = b.i
                    [] OTHER -> a = b

(* ---------------- frames ---------------- *)
Frame(b, kind) == [blk |-> b, idx |-> 1, kind |-> kind, phase |-> 0, it |-> 0]
Act == stack[Len(stack)]
Kont == Act.kont
Top  == Kont[Len(Kont)]
Kids == Children(Top.blk)
AtEnd == Top.idx > Len(Kids)
Cur  == Kids[Top.idx]
SetTopK(k, f) == [k EXCEPT ![Len(k)] = f]
AdvK(k) == SetTopK(k, [k[Len(k)] EXCEPT !.idx = @ + 1, !.phase = 0, !.it = 0])
PushK(k, b, kind) == IF b = 0 THEN k ELSE Append(k, Frame(b, kind))
WithKont(k) == [stack EXCEPT ![Len(stack)].kont = k]
InnermostK(k, kinds) == IF \E j \in 1..Len(k) : k[j].kind \in kinds
                        THEN CHOOSE j \in 1..Len(k) : k[j].kind \in kinds /\ \A i \in (j + 1)..Len(k) : k[i].kind \notin kinds
                        ELSE 0

(* ---------------- names ---------------- *)
(* the chain of scopes visible from the current activation: its own vars, then the environments of the lexically
   enclosing activations (by serial), finally the unit scope (serial 0) *)
RECURSIVE FindEnvIn(_, _, _)
FindEnvIn(es, ser, name) == IF name \in DOMAIN es[ser] THEN ser
                            ELSE IF ser = 0 THEN -1 ELSE FindEnvIn(es, es[ser].lex__.i, name)
FindEnv(ser, name) == FindEnvIn(envs, ser, name)
IsTemp(name) == name \in ToSet(Case(c).temps)      \* names of compiler temporaries (lexical: they start with %)
LookupIn(ser, name) == LET e == FindEnv(ser, name) IN IF e = -1 THEN VUndef ELSE envs[e][name]
Lookup(name) == LookupIn(Act.ser, name)
(* value of a token *)
Val(tk) == CASE tk.k = "int"  -> VInt(tk.i)
             [] tk.k = "str"  -> VStr(tk.s)
             [] tk.k = "bool" -> VBool(tk.i = 1)
             [] tk.k = "none" -> VNone
             [] tk.k = "var"  -> Lookup(tk.s)
             [] OTHER -> VUndef

(* assignment: the nearest scope on the chain that declares the name; temporaries and undeclared names of a
   method are local to the activation; undeclared names at unit level are created there *)
SetVar(es, ser, name, v) ==
  LET e == FindEnvIn(es, ser, name)
      tgt == IF e = -1 \/ IsTemp(name) THEN ser ELSE e
  IN [es EXCEPT ![tgt] = (name :> v) @@ es[tgt]]
Declare(es, ser, name) == IF name \in DOMAIN es[ser] THEN es ELSE [es EXCEPT ![ser] = (name :> VUndef) @@ es[ser]]

(* ---------------- heap ---------------- *)
NoFields == [x \in {} |-> VNone]
Obj(kind, cls, site) == [kind |-> kind, cls |-> cls, site |-> site, fields |-> NoFields, elems |-> << >>]
KeyOf(v) == IF v.t = "str" THEN "s:" \o v.s ELSE IF IsNum(v) THEN "i:" \o ToString(AsInt(v)) ELSE "?"

(* ---------------- classes and methods ---------------- *)
MethodsOf(cls) == LET r == RowOf(cls) IN IF r.methods = 0 THEN << >> ELSE Children(r.methods)
OwnMethod(cls, name) == LET ms == SelectSeq(MethodsOf(cls), LAMBDA r : r.op = "method_decl" /\ r.name = name)
                        IN IF ms = << >> THEN 0 ELSE ms[1].id
ClassNamed(n) == LET cs == SelectSeq(Rows, LAMBDA r : r.op = "class_decl" /\ r.name = n) IN IF cs = << >> THEN 0 ELSE cs[1].id
RECURSIVE FindMethodIn(_, _, _)
FindMethodIn(cls, name, fuel) ==
  IF cls = 0 \/ fuel = 0 THEN 0
  ELSE IF OwnMethod(cls, name) # 0 THEN OwnMethod(cls, name)
  ELSE LET sup == RowOf(cls).supers
           found == SelectSeq([j \in 1..Len(sup) |-> FindMethodIn(ClassNamed(sup[j]), name, fuel - 1)], LAMBDA x : x # 0)
       IN IF found = << >> THEN 0 ELSE found[1]
FindMethod(cls, name) == FindMethodIn(cls, name, 6)
(* constructors: __init__ (python), constructor (javascript / typescript), __construct (php), or a method named like the class (java) *)
CtorNames == {"__init__", "constructor", "__construct"}
CtorOf(cls) == IF FindMethod(cls, "__init__") # 0 THEN FindMethod(cls, "__init__")
               ELSE IF FindMethod(cls, "constructor") # 0 THEN FindMethod(cls, "constructor")
               ELSE IF FindMethod(cls, "__construct") # 0 THEN FindMethod(cls, "__construct")
               ELSE FindMethod(cls, RowOf(cls).name)
IsCtor(m) == \/ RowOf(m).name \in CtorNames
             \/ ClassNamed(RowOf(m).name) # 0 /\ OwnMethod(ClassNamed(RowOf(m).name), RowOf(m).name) = m     \* java: named like its class
Params(m) == LET r == RowOf(m) IN IF r.parameters = 0 THEN << >>
             ELSE SelectSeq(Children(r.parameters), LAMBDA p : p.op = "parameter_decl")

(* bind arguments: positional, then named, then defaults (a default is a token: literal or a %dvv name) *)
NamedVal(named, name) == LET k == CHOOSE j \in 1..Len(named) : named[j].name = name IN Val(named[k].tok)
HasNamed(named, name) == \E j \in 1..Len(named) : named[j].name = name
BindArgs(m, pos, named) ==
  LET ps == Params(m) IN
  [name \in {ps[j].name : j \in 1..Len(ps)} |->
     LET j == CHOOSE k \in 1..Len(ps) : ps[k].name = name IN
     LET v == IF j <= Len(pos) THEN Val(pos[j])
              ELSE IF HasNamed(named, name) THEN NamedVal(named, name)
              ELSE IF ps[j].default_tok.k # "empty" THEN Val(ps[j].default_tok)
              ELSE VUndef
     IN IF ps[j].id \in ToSet(Case(c).param_sources) /\ v.t # "undef" THEN AddTags(v, {ps[j].id}) ELSE v]

NewAct(m, bound, lexser, target, self, ser) ==
  [m |-> m, kont |-> <<Frame(RowOf(m).body, "plain")>>, lex |-> lexser, target |-> target, self |-> self, ser |-> ser, site |-> 0]
AtSite(act, stmt) == [act EXCEPT !.site = stmt]
EnvFor(bound, lexser, self) ==
  (("lex__" :> VInt(lexser)) @@ ("%this" :> self) @@ bound)

(* ---------------- the transition relation ---------------- *)
Init == /\ c \in 1..Len(Doc.cases)
        /\ heap = << >> /\ out = << >> /\ steps = 0 /\ status = "run" /\ nser = 1 /\ sinks = {} /\ calls = {} /\ defs = {}
        /\ envs = [s \in {0} |-> ("lex__" :> VInt(0)) @@ [n \in {} |-> VNone]]
        /\ stack = << >>

Fail(msg) == /\ status' = "stuck:" \o msg /\ UNCHANGED <<c, stack, envs, heap, out, nser, sinks, calls, defs>> /\ steps' = steps + 1

(* ---------------- definition events (C08/C09) ---------------- *)
(* a snapshot of a value against a heap: primitives by value, functions and classes by declaration, objects by allocation
   site with their fields and elements snapshotted one level deeper (two levels in all) *)
NoSnap == [t |-> "", i |-> 0, s |-> "", site |-> 0, kind |-> "", fields |-> {}, elems |-> << >>]
RECURSIVE Snap(_, _, _)
Snap(v, hp, d) ==
  CASE v.t = "int"  -> [NoSnap EXCEPT !.t = "int", !.i = v.i]
    [] v.t = "str"  -> [NoSnap EXCEPT !.t = "str", !.s = v.s]
    [] v.t = "bool" -> [NoSnap EXCEPT !.t = "bool", !.i = IF v.b THEN 1 ELSE 0]
    [] v.t = "none" -> [NoSnap EXCEPT !.t = "none"]
    [] v.t \in {"fun", "bound"} -> [NoSnap EXCEPT !.t = "fun", !.i = v.i]
    [] v.t = "cls"  -> [NoSnap EXCEPT !.t = "cls", !.i = v.i]
    [] v.t = "ref"  -> LET o == hp[v.i] IN
                       IF d = 0 THEN [NoSnap EXCEPT !.t = "ref", !.site = o.site, !.kind = o.kind]
                       ELSE [NoSnap EXCEPT !.t = "ref", !.site = o.site, !.kind = o.kind,
                                           !.fields = {<<f, Snap(o.fields[f], hp, d - 1)>> : f \in DOMAIN o.fields},
                                           !.elems = [j \in 1..Len(o.elems) |-> Snap(o.elems[j], hp, d - 1)]]
    [] OTHER -> [NoSnap EXCEPT !.t = v.t]
Recording == Case(c).check = "values"
Def(stmt, name, v, hp) == IF Recording /\ name # "" THEN {[s |-> stmt, n |-> name, v |-> Snap(v, hp, 2)]} ELSE {}

GoD(st2, es2, hp2, out2, D) == /\ stack' = st2 /\ envs' = es2 /\ heap' = hp2 /\ out' = out2 /\ defs' = defs \cup D
                               /\ steps' = steps + 1 /\ UNCHANGED <<c, status, nser, sinks, calls>>
Go(st2, es2, hp2, out2) == GoD(st2, es2, hp2, out2, {})
GoK(k2, es2, hp2, out2) == Go(WithKont(k2), es2, hp2, out2)
GoKD(k2, es2, hp2, out2, D) == GoD(WithKont(k2), es2, hp2, out2, D)
Next1(es2) == GoK(AdvK(Kont), es2, heap, out)
(* the common case: the current row defines `name` with value v *)
Define(name, v) == GoKD(AdvK(Kont), SetVar(envs, Act.ser, name, v), heap, out, Def(Cur.id, name, v, heap))

(* unit start: bind top-level methods/classes/builtins in the unit scope, run class static initialisers of
   top-level classes lazily (at first start), then run %unit_init *)
TopDecls == SelectSeq(Rows, LAMBDA r : r.parent = 0 /\ ~IsMarker(r))
Builtins == {"print", "range", "len", "out", "source", "sink", "source2", "sink2", "choice", "ext"}
UnitScope ==
  \* every method is callable by its name (static methods of Java classes included); top-level classes by theirs
  LET named == {r \in ToSet(TopDecls) : r.op = "class_decl"}
               \cup {r \in ToSet(Rows) : r.op = "method_decl" /\ r.name \notin {"%unit_init", "%class_sinit", "__init__"}} IN
  \* `from m import f as g` makes g another name of f (imports are top-level declarations, not executed rows)
  LET aliases == {r \in ToSet(TopDecls) : r.op = "from_import_stmt" /\ r.alias # "" /\ \E x \in named : x.name = r.name}
      \* a function of the program that is named like a configured source or sink is still that source / sink (the rule goes by name)
      valueOf(n) == IF n \in {"source", "source2", "sink", "sink2"} THEN VBuiltin(n)
                    ELSE IF \E r \in named : r.name = n
                    THEN LET r == IF \E x \in named : x.name = n /\ x.op = "class_decl" THEN CHOOSE x \in named : x.name = n /\ x.op = "class_decl"
                                  ELSE CHOOSE x \in named : x.name = n
                         IN IF r.op = "method_decl" THEN VFun(r.id, 0) ELSE VCls(r.id)
                    ELSE VBuiltin(n)
  IN
  [n \in Builtins \cup {r.name : r \in named} \cup {r.alias : r \in aliases} \cup {"lex__"} |->
     IF n = "lex__" THEN VInt(0)
     ELSE IF \E r \in aliases : r.alias = n THEN valueOf((CHOOSE r \in aliases : r.alias = n).name)
     ELSE valueOf(n)]
StartName == IF Case(c).start = "" THEN "%unit_init" ELSE Case(c).start
StartId == IF "start_id" \in DOMAIN Case(c) THEN Case(c).start_id ELSE 0
UnitInit == IF StartId # 0 THEN RowOf(StartId) ELSE CHOOSE r \in ToSet(Rows) : r.op = "method_decl" /\ r.name = StartName
HasUnitInit == StartId # 0 \/ \E r \in ToSet(Rows) : r.op = "method_decl" /\ r.name = StartName
TopClasses == SelectSeq(TopDecls, LAMBDA r : r.op = "class_decl")
StaticInits == LET f(r) == FindMethod(r.id, "%class_sinit") IN
               SelectSeq([j \in 1..Len(TopClasses) |-> [cls |-> TopClasses[j].id, m |-> f(TopClasses[j])]], LAMBDA x : x.m # 0)

(* class objects live on the heap so that class fields can be written and read: heap slot per class, created at start *)
Start ==
  /\ stack = << >> /\ status = "run" /\ steps = 0
  /\ LET cls == TopClasses
         hp == [j \in 1..Len(cls) |-> Obj("class", cls[j].id, cls[j].id)]
         scope == UnitScope
         si == StaticInits
         acts0 == IF HasUnitInit THEN <<NewAct(UnitInit.id, << >>, 0, "", VNone, 0)>> ELSE << >>
         \* static initialisers run before the unit initialiser, last class first on the stack so that the first runs first
         acts == acts0 \o [j \in 1..Len(si) |->
                   [NewAct(si[Len(si) + 1 - j].m, << >>, 0, "", VNone, j) EXCEPT !.self = VRef(CHOOSE k \in 1..Len(cls) : cls[k].id = si[Len(si) + 1 - j].cls)]]
     IN /\ heap' = hp
        /\ envs' = [s \in 0..Len(si) |-> IF s = 0 THEN scope
                                        ELSE ("lex__" :> VInt(0)) @@ ("%class" :> acts[Len(acts0) + s].self) @@ ("%this" :> acts[Len(acts0) + s].self)]
        /\ stack' = acts /\ nser' = Len(si) + 1
        /\ steps' = 1 /\ UNCHANGED <<c, out, status, sinks, calls, defs>>

ClassRef(clsid) == LET cs == TopClasses IN
                   IF \E k \in 1..Len(cs) : cs[k].id = clsid THEN VRef(CHOOSE k \in 1..Len(cs) : cs[k].id = clsid) ELSE VNone

(* return: pop the activation, write the target of the calling row *)
DoReturn(v) ==
  IF Len(stack) = 1
  THEN /\ stack' = << >> /\ status' = "done" /\ steps' = steps + 1 /\ UNCHANGED <<c, envs, heap, out, nser, sinks, calls, defs>>
  ELSE LET caller == stack[Len(stack) - 1]
           st2 == SubSeq(stack, 1, Len(stack) - 1)
           es2 == IF Act.target = "" THEN envs ELSE SetVar(envs, caller.ser, Act.target, v)
       IN GoD(st2, es2, heap, out, IF Act.target = "" THEN {} ELSE Def(Act.site, Act.target, v, heap))

PopFrame == /\ Len(Kont) > 1 /\ AtEnd /\ GoK(SubSeq(Kont, 1, Len(Kont) - 1), envs, heap, out)
FallOff  == /\ Len(Kont) = 1 /\ AtEnd
            /\ DoReturn(IF Act.self.t = "ref" /\ IsCtor(Act.m) THEN Act.self ELSE VNone)

(* ---- expressions ---- *)
RECURSIVE RepStr(_, _)
RepStr(t, n) == IF n <= 0 THEN "" ELSE t \o RepStr(t, n - 1)
BinOp(op, a, b) ==
  CASE op = "+" -> IF IsNum(a) /\ IsNum(b) THEN VInt(AsInt(a) + AsInt(b))
                   ELSE IF a.t = "str" /\ b.t = "str" THEN VStr(a.s \o b.s) ELSE VUndef
    [] op = "-" -> IF IsNum(a) /\ IsNum(b) THEN VInt(AsInt(a) - AsInt(b)) ELSE VUndef
    [] op = "*" -> IF IsNum(a) /\ IsNum(b)
                   THEN (IF Abs(AsInt(a)) < 32768 /\ Abs(AsInt(b)) < 32768 THEN VInt(AsInt(a) * AsInt(b)) ELSE [t |-> "overflow"])
                   ELSE IF a.t = "str" /\ b.t = "int" /\ b.i <= 8 THEN VStr(RepStr(a.s, b.i))
                   ELSE IF b.t = "str" /\ a.t = "int" /\ a.i <= 8 THEN VStr(RepStr(b.s, a.i))
                   ELSE VUndef
    [] op = "==" -> VBool(VEq(a, b))
    [] op = "!=" -> VBool(~VEq(a, b))
    [] op = "is" -> VBool(VEq(a, b))
    [] op = "is not" -> VBool(~VEq(a, b))
    [] op = "<"  -> IF IsNum(a) /\ IsNum(b) THEN VBool(AsInt(a) < AsInt(b)) ELSE VUndef
    [] op = "<=" -> IF IsNum(a) /\ IsNum(b) THEN VBool(AsInt(a) <= AsInt(b)) ELSE VUndef
    [] op = ">"  -> IF IsNum(a) /\ IsNum(b) THEN VBool(AsInt(a) > AsInt(b)) ELSE VUndef
    [] op = ">=" -> IF IsNum(a) /\ IsNum(b) THEN VBool(AsInt(a) >= AsInt(b)) ELSE VUndef
    [] op \in {"and", "&&"} -> IF Truthy(a) THEN b ELSE a
    [] op \in {"or", "||"}  -> IF Truthy(a) THEN a ELSE b
    [] OTHER -> VUndef
UnOp(op, a) ==
  CASE op = "-" -> IF IsNum(a) THEN VInt(0 - AsInt(a)) ELSE VUndef
    [] op = "+" -> IF IsNum(a) THEN VInt(AsInt(a)) ELSE VUndef
    [] op \in {"not", "!"} -> VBool(~Truthy(a))
    [] OTHER -> VUndef

Assign ==
  /\ Cur.op = "assign_stmt"
  /\ LET a == Val(Cur.operand_tok)
         v0 == IF Cur.operator = "" THEN a
               ELSE IF Cur.operand2_tok.k = "empty" THEN UnOp(Cur.operator, a)
               ELSE BinOp(Cur.operator, a, Val(Cur.operand2_tok))
         v == IF v0.t \in {"undef", "overflow"} THEN v0
              ELSE AddTags(v0, a.tg \cup (IF Cur.operand2_tok.k = "empty" THEN {} ELSE Val(Cur.operand2_tok).tg))
     IN IF v.t = "undef" THEN Fail("assign_" \o ToString(Cur.id))
        ELSE IF v.t = "overflow" \/ (v.t = "int" /\ Abs(v.i) >= Limit)
        THEN /\ status' = "skip:overflow" /\ steps' = steps + 1 /\ UNCHANGED <<c, stack, envs, heap, out, nser, sinks, calls, defs>>
        ELSE Define(Cur.target, v)

(* a variable declared with a struct type (C: struct Rec r;  go: var r Rec) is the record itself: the declaration allocates it *)
StructNamed(n) == n # "" /\ \E r \in ToSet(Rows) : r.op \in {"struct_decl", "type_decl"} /\ r.name = n
Decl == /\ Cur.op \in {"variable_decl", "global_stmt", "nonlocal_stmt", "pass_stmt", "parameter_decl", "import_stmt", "from_import_stmt",
                       "struct_decl", "type_decl"}
        /\ IF Cur.op = "variable_decl" /\ StructNamed(Cur.data_type)
           THEN LET hp2 == Append(heap, Obj("object", 0, Cur.id)) IN
                GoK(AdvK(Kont), SetVar(Declare(envs, Act.ser, Cur.name), Act.ser, Cur.name, VRef(Len(hp2))), hp2, out)
           ELSE Next1(IF Cur.op = "variable_decl" THEN Declare(envs, Act.ser, Cur.name) ELSE envs)

(* nested declarations bind a value in the current scope *)
MethodDecl == /\ Cur.op = "method_decl"
              /\ Next1(SetVar(Declare(envs, Act.ser, Cur.name), Act.ser, Cur.name, VFun(Cur.id, Act.ser)))
ClassDeclNested == /\ Cur.op = "class_decl" /\ Fail("nested_class_not_supported")

If == /\ Cur.op = "if_stmt"
      /\ LET v == Val(Cur.condition_tok) IN
         IF v.t = "undef" THEN Fail("cond_" \o ToString(Cur.id))
         ELSE GoK(PushK(AdvK(Kont), IF Truthy(v) THEN Cur.then_body ELSE Cur.else_body, "plain"), envs, heap, out)

(* a condition_prebody (the statements evaluating the condition) runs before every test: phase 0 -> 1 *)
While == /\ Cur.op = "while_stmt"
         /\ IF Top.phase = 0 /\ Cur.condition_prebody # 0
            THEN GoK(PushK(SetTopK(Kont, [Top EXCEPT !.phase = 1]), Cur.condition_prebody, "plain"), envs, heap, out)
            ELSE LET v == Val(Cur.condition_tok) IN
                 IF v.t = "undef" THEN Fail("cond_" \o ToString(Cur.id))
                 ELSE IF Truthy(v) THEN GoK(PushK(SetTopK(Kont, [Top EXCEPT !.phase = 0]), Cur.body, "loop"), envs, heap, out)
                 ELSE GoK(PushK(AdvK(Kont), Cur.else_body, "plain"), envs, heap, out)

(* for name in receiver: the elements of a list/tuple, the keys of a record, the characters of a string; `it` counts *)
ElemsOf(v) == IF v.t = "ref" /\ heap[v.i].kind \in {"array", "tuple"} THEN heap[v.i].elems ELSE << >>
ForIn == /\ Cur.op \in {"forin_stmt", "for_value_stmt"}
         /\ LET r == Val(Cur.receiver_tok)
                es == ElemsOf(r)
            IN IF r.t # "ref" THEN Fail("forin_receiver_" \o ToString(Cur.id))
               ELSE IF Top.it < Len(es)
               THEN GoK(PushK(SetTopK(Kont, [Top EXCEPT !.it = @ + 1]), Cur.body, "loop"),
                        SetVar(envs, Act.ser, Cur.name, es[Top.it + 1]), heap, out)
               ELSE GoK(PushK(AdvK(Kont), Cur.else_body, "plain"), envs, heap, out)

(* for (init_body; condition_prebody; condition; update_body) body *)
For == /\ Cur.op = "for_stmt"
       /\ CASE Top.phase = 0 -> GoK(PushK(SetTopK(Kont, [Top EXCEPT !.phase = 1]), Cur.init_body, "plain"), envs, heap, out)
            [] Top.phase = 1 -> GoK(PushK(SetTopK(Kont, [Top EXCEPT !.phase = 2]), Cur.condition_prebody, "plain"), envs, heap, out)
            [] Top.phase = 2 -> LET v == IF Cur.condition_tok.k = "empty" THEN VBool(TRUE) ELSE Val(Cur.condition_tok) IN
                                IF v.t = "undef" THEN Fail("cond_" \o ToString(Cur.id))
                                ELSE IF Truthy(v) THEN GoK(PushK(SetTopK(Kont, [Top EXCEPT !.phase = 3]), Cur.body, "loop"), envs, heap, out)
                                ELSE GoK(AdvK(Kont), envs, heap, out)
            [] Top.phase = 3 -> GoK(PushK(SetTopK(Kont, [Top EXCEPT !.phase = 1]), Cur.update_body, "plain"), envs, heap, out)

Break == /\ Cur.op = "break_stmt"
         /\ LET j == InnermostK(Kont, {"loop"}) IN
            IF j <= 1 THEN Fail("stray_break") ELSE GoK(AdvK(SubSeq(Kont, 1, j - 1)), envs, heap, out)
Continue == /\ Cur.op = "continue_stmt"
            /\ LET j == InnermostK(Kont, {"loop"}) IN
               IF j <= 1 THEN Fail("stray_continue") ELSE GoK(SubSeq(Kont, 1, j - 1), envs, heap, out)

Return == /\ Cur.op = "return_stmt"
          /\ LET v == IF Cur.name_tok.k = "empty" THEN VNone ELSE Val(Cur.name_tok) IN
             IF v.t = "undef" THEN Fail("return_" \o ToString(Cur.id)) ELSE DoReturn(v)

(* ---- calls ---- *)
(* the parameters of an activation are definitions of their parameter_decl rows *)
ParamDefs(m, bound, hp) == LET ps == Params(m) IN
  UNION {IF ps[j].name \in DOMAIN bound /\ bound[ps[j].name].t # "undef" THEN Def(ps[j].id, ps[j].name, bound[ps[j].name], hp) ELSE {} : j \in 1..Len(ps)}
(* packed parameters (python **kwargs / *args, at the end of the parameter list): the named arguments that match no declared parameter are
   collected in a fresh record, the surplus positional arguments in a fresh tuple *)
IsPackedNamed(p) == "%packed_named_pmt" \in ToSet(p.attrs)
IsPackedPos(p)   == "%packed_pos_pmt" \in ToSet(p.attrs)
Enter(m, lexser, bound0, target, self) ==
  LET ser == nser
      callerAdv == WithKont(AdvK(Kont))
      ps == Params(m)
      plain == SelectSeq(ps, LAMBDA p : ~IsPackedNamed(p) /\ ~IsPackedPos(p))
      pn == SelectSeq(ps, IsPackedNamed)
      pp == SelectSeq(ps, IsPackedPos)
      pos == Cur.pos_toks
      named == Cur.named_toks
      extraNamed == SelectSeq(named, LAMBDA x : \A j \in 1..Len(plain) : plain[j].name # x.name)
      extraPos == IF Len(pos) > Len(plain) THEN SubSeq(pos, Len(plain) + 1, Len(pos)) ELSE << >>
      rec == [Obj("record", 0, Cur.id) EXCEPT !.fields = [k \in {KeyOf(VStr(extraNamed[j].name)) : j \in 1..Len(extraNamed)} |->
                                                           Val(extraNamed[CHOOSE j \in 1..Len(extraNamed) : KeyOf(VStr(extraNamed[j].name)) = k].tok)]]
      tup == [Obj("tuple", 0, Cur.id) EXCEPT !.elems = [j \in 1..Len(extraPos) |-> Val(extraPos[j])]]
      hp1 == IF pn # << >> THEN Append(heap, rec) ELSE heap
      hp2 == IF pp # << >> THEN Append(hp1, tup) ELSE hp1
      bound == (IF pn # << >> THEN (pn[1].name :> VRef(Len(hp1))) ELSE << >>) @@ (IF pp # << >> THEN (pp[1].name :> VRef(Len(hp2))) ELSE << >>) @@ bound0
  IN /\ stack' = Append(callerAdv, AtSite(NewAct(m, bound, lexser, target, self, ser), Cur.id))
     /\ envs' = (ser :> EnvFor(bound, lexser, self)) @@ envs
     /\ heap' = hp2
     /\ calls' = calls \cup {<<Act.m, Cur.id, m>>}
     /\ defs' = defs \cup ParamDefs(m, bound, hp2)
     /\ nser' = nser + 1 /\ steps' = steps + 1 /\ UNCHANGED <<c, out, status, sinks>>

CallValue(f, pos, named, target) ==
  CASE f.t = "fun" -> Enter(f.i, f.env, BindArgs(f.i, pos, named), target, VNone)
    [] f.t = "bound" -> Enter(f.i, f.env, BindArgs(f.i, pos, named), target, f.self)
    [] f.t = "cls" ->
         LET hp2 == Append(heap, Obj("object", f.i, Cur.id))
             self == VRef(Len(hp2))
             ctor == CtorOf(f.i)
         IN IF ctor = 0
            THEN GoKD(AdvK(Kont), SetVar(envs, Act.ser, target, self), hp2, out, Def(Cur.id, target, self, hp2))
            ELSE /\ heap' = hp2
                 /\ stack' = Append(WithKont(AdvK(Kont)), AtSite(NewAct(ctor, << >>, 0, target, self, nser), Cur.id))
                 /\ envs' = (nser :> EnvFor(BindArgs(ctor, pos, named), 0, self)) @@ envs
                 /\ calls' = calls \cup {<<Act.m, Cur.id, ctor>>}
                 /\ defs' = defs \cup ParamDefs(ctor, BindArgs(ctor, pos, named), hp2)
                 /\ nser' = nser + 1 /\ steps' = steps + 1 /\ UNCHANGED <<c, out, status, sinks>>
    [] f.t = "builtin" ->
         CASE f.s \in {"print", "out"} -> GoK(AdvK(Kont), IF target = "" THEN envs ELSE SetVar(envs, Act.ser, target, VNone), heap,
                                   Append(out, [j \in 1..Len(pos) |-> Val(pos[j])]))
           [] f.s = "len" ->
                LET a == Val(pos[1]) IN
                IF a.t = "str" THEN Fail("len_of_str_unsupported")
                ELSE IF a.t = "ref" THEN
                   GoK(AdvK(Kont), SetVar(envs, Act.ser, target,
                        VInt(IF heap[a.i].kind = "record" THEN Cardinality(DOMAIN heap[a.i].fields) ELSE Len(heap[a.i].elems))), heap, out)
                ELSE Fail("len_" \o ToString(Cur.id))
           [] f.s = "range" ->
                LET lo == IF Len(pos) = 1 THEN 0 ELSE AsInt(Val(pos[1]))
                    hi == IF Len(pos) = 1 THEN AsInt(Val(pos[1])) ELSE AsInt(Val(pos[2]))
                    n  == IF hi > lo THEN hi - lo ELSE 0
                    hp2 == Append(heap, [Obj("array", 0, Cur.id) EXCEPT !.elems = [j \in 1..n |-> VInt(lo + j - 1)]])
                IN GoK(AdvK(Kont), SetVar(envs, Act.ser, target, VRef(Len(hp2))), hp2, out)
           \* C10: a configured source call yields a value tagged with the call statement; a configured sink call records the
           \* tags that reach its designated argument (argument 0)
           [] f.s \in {"source", "source2"} ->
                GoK(AdvK(Kont), SetVar(envs, Act.ser, target, AddTags(VStr("data"), {Cur.id})), heap, out)
           [] f.s \in {"sink", "sink2"} ->
                /\ stack' = WithKont(AdvK(Kont)) /\ heap' = heap /\ out' = out /\ steps' = steps + 1
                /\ envs' = IF target = "" THEN envs ELSE SetVar(envs, Act.ser, target, VNone)
                /\ sinks' = sinks \cup (IF Len(pos) = 0 THEN {} ELSE {<<s, Cur.id>> : s \in Val(pos[1]).tg})
                /\ UNCHANGED <<c, status, nser, calls, defs>>
           [] f.s = "choice" -> \E b \in BOOLEAN : GoK(AdvK(Kont), SetVar(envs, Act.ser, target, VBool(b)), heap, out)
           \* external code returning some integer the analysis cannot know
           [] f.s = "ext" -> \E k \in {7, 8} : GoK(AdvK(Kont), SetVar(envs, Act.ser, target, VInt(k)), heap, out)
           [] OTHER -> Fail("builtin_" \o f.s)
    [] OTHER -> Fail("call_of_non_callable_" \o ToString(Cur.id))

(* a call to a name that is bound nowhere is a call to external code: no effect here, result None *)
Call == /\ Cur.op = "call_stmt"
        /\ IF Lookup(Cur.name).t = "undef" /\ Case(c).check = "taint"
           THEN GoK(AdvK(Kont), IF Cur.target = "" THEN envs ELSE SetVar(envs, Act.ser, Cur.target, VNone), heap, out)
           ELSE CallValue(Lookup(Cur.name), Cur.pos_toks, Cur.named_toks, Cur.target)

(* receiver.field(...): instance fields first, then the methods of the class (bound to the receiver) *)
FieldOf(obj, name) ==
  LET o == heap[obj.i] IN
  IF name \in DOMAIN o.fields THEN o.fields[name]
  ELSE IF o.kind = "object" THEN
       (IF FindMethod(o.cls, name) # 0 THEN VBound(FindMethod(o.cls, name), 0, obj)
        ELSE LET cr == ClassRef(o.cls) IN
             IF cr.t = "ref" /\ name \in DOMAIN heap[cr.i].fields THEN heap[cr.i].fields[name] ELSE VUndef)
  ELSE IF o.kind = "class" THEN
       (IF FindMethod(o.cls, name) # 0 THEN VFun(FindMethod(o.cls, name), 0) ELSE VUndef)
  ELSE VUndef
Receiver(tok) == LET v == Val(tok) IN IF v.t = "cls" THEN ClassRef(v.i) ELSE v

(* C10, rule kind object_call: a method call statement that a source rule names by the access path of its receiver
   (req.read, request.query_string.decode, %this.conn.recv) is a call into external code whose result is the source value;
   the case lists those statements.  In taint mode a field read from / a method call on something that is not an object of the
   program (an unresolved import, None, a string) is external code as well: no effect, result None. *)
StmtSources == IF "stmt_sources" \in DOMAIN Case(c) THEN ToSet(Case(c).stmt_sources) ELSE {}
ExternalReceiver(r) == Case(c).check = "taint" /\ r.t \in {"undef", "none", "builtin", "str", "int"}

ObjectCall == /\ Cur.op = "object_call_stmt"
              /\ LET r == Receiver(Cur.receiver_object_tok) IN
                 IF Cur.id \in StmtSources
                 THEN GoK(AdvK(Kont), SetVar(envs, Act.ser, Cur.target, AddTags(VStr("data"), {Cur.id})), heap, out)
                 ELSE IF ExternalReceiver(r)
                 THEN GoK(AdvK(Kont), IF Cur.target = "" THEN envs ELSE SetVar(envs, Act.ser, Cur.target, VNone), heap, out)
                 ELSE IF r.t # "ref" THEN Fail("receiver_" \o ToString(Cur.id))
                 ELSE IF heap[r.i].kind = "array" /\ Cur.field \in {"append", "push"}
                 THEN GoK(AdvK(Kont), envs, [heap EXCEPT ![r.i].elems = Append(@, Val(Cur.pos_toks[1]))], out)
                 ELSE LET f == FieldOf(r, Cur.field) IN
                      IF f.t = "undef" THEN Fail("no_such_member_" \o Cur.field)
                      ELSE CallValue(f, Cur.pos_toks, Cur.named_toks, Cur.target)

(* ---- data structures ---- *)
NewArray == /\ Cur.op = "new_array"
            /\ LET hp2 == Append(heap, Obj(IF Cur.is_tuple THEN "tuple" ELSE "array", 0, Cur.id)) IN
               GoKD(AdvK(Kont), SetVar(envs, Act.ser, Cur.target, VRef(Len(hp2))), hp2, out, Def(Cur.id, Cur.target, VRef(Len(hp2)), hp2))
(* new_object: an instance of the class named by data_type (its constructor runs with the positional arguments), or a generic object *)
NewObject == /\ Cur.op = "new_object"
             /\ IF ClassNamed(Cur.data_type) # 0
                THEN CallValue(VCls(ClassNamed(Cur.data_type)), Cur.pos_toks, Cur.named_toks, Cur.target)
                ELSE LET hp2 == Append(heap, Obj("object", 0, Cur.id)) IN
                     GoKD(AdvK(Kont), SetVar(envs, Act.ser, Cur.target, VRef(Len(hp2))), hp2, out, Def(Cur.id, Cur.target, VRef(Len(hp2)), hp2))
NewRecord == /\ Cur.op = "new_record"
             /\ LET hp2 == Append(heap, Obj("record", 0, Cur.id)) IN
                GoKD(AdvK(Kont), SetVar(envs, Act.ser, Cur.target, VRef(Len(hp2))), hp2, out, Def(Cur.id, Cur.target, VRef(Len(hp2)), hp2))

SetElem(es, i, v) == IF i = Len(es) THEN Append(es, v) ELSE [es EXCEPT ![i + 1] = v]
ArrayWrite ==
  /\ Cur.op = "array_write"
  /\ LET a == Val(Cur.array_tok)  ix == Val(Cur.index_tok)  v == Val(Cur.source_tok) IN
     IF a.t # "ref" \/ v.t = "undef" THEN Fail("array_write_" \o ToString(Cur.id))
     ELSE IF heap[a.i].kind = "record"
     THEN LET hp2 == [heap EXCEPT ![a.i].fields = (KeyOf(ix) :> v) @@ @] IN GoKD(AdvK(Kont), envs, hp2, out, Def(Cur.id, Cur.array, a, hp2))
     ELSE IF IsNum(ix) /\ AsInt(ix) >= 0 /\ AsInt(ix) <= Len(heap[a.i].elems)
     THEN LET hp2 == [heap EXCEPT ![a.i].elems = SetElem(@, AsInt(ix), v)] IN GoKD(AdvK(Kont), envs, hp2, out, Def(Cur.id, Cur.array, a, hp2))
     ELSE IF IsNum(ix) /\ AsInt(ix) < 0 /\ 0 - AsInt(ix) <= Len(heap[a.i].elems)
     THEN GoK(AdvK(Kont), envs, [heap EXCEPT ![a.i].elems = SetElem(@, Len(heap[a.i].elems) + AsInt(ix), v)], out)
     ELSE Fail("index_" \o ToString(Cur.id))

ArrayRead ==
  /\ Cur.op = "array_read"
  /\ LET a == Val(Cur.array_tok)  ix == Val(Cur.index_tok) IN
     IF a.t = "ref" /\ heap[a.i].kind = "object" /\ ix.t = "str"          \* o["k"] on a generic object
     THEN (IF ix.s \in DOMAIN heap[a.i].fields THEN Define(Cur.target, heap[a.i].fields[ix.s]) ELSE Fail("key_" \o ToString(Cur.id)))
     ELSE IF a.t = "ref" /\ heap[a.i].kind = "record"
     THEN (IF KeyOf(ix) \in DOMAIN heap[a.i].fields
           THEN Define(Cur.target, heap[a.i].fields[KeyOf(ix)]) ELSE Fail("key_" \o ToString(Cur.id)))
     ELSE IF a.t = "ref" /\ IsNum(ix)
     THEN LET n == Len(heap[a.i].elems)
              i == IF AsInt(ix) < 0 THEN n + AsInt(ix) ELSE AsInt(ix)
          IN IF i >= 0 /\ i < n THEN Define(Cur.target, heap[a.i].elems[i + 1]) ELSE Fail("index_" \o ToString(Cur.id))
     ELSE Fail("array_read_" \o ToString(Cur.id))

RecordWrite ==
  /\ Cur.op = "record_write"
  /\ LET a == Val(Cur.receiver_record_tok)  k == Val(Cur.key_tok)  v == Val(Cur.value_tok) IN
     IF a.t # "ref" \/ v.t = "undef" THEN Fail("record_write_" \o ToString(Cur.id))
     ELSE GoK(AdvK(Kont), envs, [heap EXCEPT ![a.i].fields = (KeyOf(k) :> v) @@ @], out)

PropKey(tok, raw) == IF tok.k = "str" THEN tok.s ELSE raw            \* a quoted field name is the property of that name
FieldWrite ==
  /\ Cur.op = "field_write"
  /\ LET r == Receiver(Cur.receiver_object_tok)  v == Val(Cur.source_tok) IN
     IF r.t # "ref" \/ v.t = "undef" THEN Fail("field_write_" \o ToString(Cur.id))
     \* a numeric field of an array addresses an element (array literals of the JavaScript and PHP frontends)
     ELSE IF heap[r.i].kind \in {"array", "tuple"} /\ Cur.field_tok.k = "int" /\ Cur.field_tok.i >= 0 /\ Cur.field_tok.i <= Len(heap[r.i].elems)
     THEN GoK(AdvK(Kont), envs, [heap EXCEPT ![r.i].elems = SetElem(@, Cur.field_tok.i, v)], out)
     ELSE LET hp2 == [heap EXCEPT ![r.i].fields = (PropKey(Cur.field_tok, Cur.field) :> v) @@ @] IN
          GoKD(AdvK(Kont), envs, hp2, out, IF Cur.receiver_object_tok.k = "var" THEN Def(Cur.id, Cur.receiver_object, r, hp2) ELSE {})
FieldRead ==
  /\ Cur.op = "field_read"
  /\ LET r == Receiver(Cur.receiver_object_tok) IN
     IF ExternalReceiver(r) THEN GoK(AdvK(Kont), SetVar(envs, Act.ser, Cur.target, VNone), heap, out)
     ELSE IF r.t # "ref" THEN Fail("field_read_" \o ToString(Cur.id))
     ELSE LET v == FieldOf(r, PropKey(Cur.field_tok, Cur.field)) IN
          IF v.t = "undef" THEN Fail("no_such_field_" \o Cur.field) ELSE Define(Cur.target, v)

Known == {"assign_stmt", "variable_decl", "global_stmt", "nonlocal_stmt", "pass_stmt", "parameter_decl", "import_stmt", "from_import_stmt", "struct_decl", "type_decl",
          "method_decl", "class_decl", "if_stmt", "while_stmt", "for_stmt", "forin_stmt", "for_value_stmt", "break_stmt", "continue_stmt", "return_stmt",
          "call_stmt", "object_call_stmt", "new_array", "new_record", "new_object", "array_write", "array_read", "record_write", "field_write", "field_read"}
Unknown == /\ Cur.op \notin Known /\ Fail("unknown_operation_" \o Cur.op)

Step == /\ stack # << >> /\ ~AtEnd
        /\ (Assign \/ Decl \/ MethodDecl \/ ClassDeclNested \/ If \/ While \/ For \/ ForIn \/ Break \/ Continue \/ Return \/ Call \/ ObjectCall
            \/ NewArray \/ NewRecord \/ NewObject \/ ArrayWrite \/ ArrayRead \/ RecordWrite \/ FieldWrite \/ FieldRead \/ Unknown)

Next == /\ status = "run" /\ steps < MaxSteps
        /\ IF stack = << >> THEN Start ELSE (Step \/ (PopFrame) \/ (FallOff))
Spec == Init /\ [][Next]_vars

(* verdict of a finished case, printed once *)
Plain(v) == CASE v.t = "int" -> [t |-> "int", i |-> v.i]
              [] v.t = "str" -> [t |-> "str", s |-> v.s]
              [] v.t = "bool" -> [t |-> "bool", i |-> IF v.b THEN 1 ELSE 0]
              [] v.t = "none" -> [t |-> "none"]
              [] OTHER -> [t |-> v.t]
OutPlain == [j \in 1..Len(out) |-> [k \in 1..Len(out[j]) |-> Plain(out[j][k])]]
Missed == sinks \ {<<Case(c).flows[j][1], Case(c).flows[j][2]>> : j \in 1..Len(Case(c).flows)}
(* C08: every definition event is covered by the abstract states lian computed for that statement and name.
   Case(c).abs : sequence of [s, n, idx (state indexes, all analysis contexts united)]
   Case(c).states : sequence indexed by lian's state index + 1 of [k, i, s, site, fields (sequence of [name, idx]), elems (indexes)]
   k: "int" | "str" | "bool" | "none" | "fun" | "cls" | "obj" | "unknown" (UNSOLVED / ANYTHING) | "other" *)
AbsEntries(stmt, name) == {x \in 1..Len(Case(c).abs) : Case(c).abs[x].s = stmt /\ Case(c).abs[x].n = name}
StateAt(ix) == Case(c).states[ix + 1]
FieldIdx(st, f) == UNION {ToSet(st.fields[j].idx) : j \in {x \in 1..Len(st.fields) : st.fields[x].name = f}}
(* lian's reading rule: a state index stands for the newest copies of its state id that leave the statement (nm: state id -> indexes) *)
Newest(ixs, nm) == UNION {LET hit == {j \in 1..Len(nm) : nm[j].sid = StateAt(ix).sid} IN
                          IF hit = {} THEN {ix} ELSE UNION {ToSet(nm[j].idx) : j \in hit} : ix \in ixs}
RECURSIVE Covers(_, _, _, _)
Covers(idxs, v, d, nm) ==
  \E ix \in idxs :
    LET st == StateAt(ix) IN
    \/ st.k = "unknown"
    \/ v.t = "int"  /\ st.k = "int"  /\ st.i = v.i
    \/ v.t = "bool" /\ st.k \in {"bool", "int"} /\ st.i = v.i
    \/ v.t = "str"  /\ st.k = "str"  /\ v.s \in {st.s, st.s2}       \* s2: the same text with escape sequences decoded
    \/ v.t = "none" /\ st.k = "none"
    \/ v.t = "fun"  /\ st.k = "fun"  /\ st.i = v.i
    \/ v.t = "cls"  /\ st.k = "cls"  /\ st.i = v.i
    \/ /\ v.t = "ref" /\ st.k = "obj" /\ st.site = v.site
       /\ (d = 0 \/ ( /\ \A fv \in v.fields : Covers(Newest(FieldIdx(st, fv[1]), nm), fv[2], d - 1, nm)
                      /\ \A j \in 1..Len(v.elems) : Covers(Newest(ToSet(st.elems), nm), v.elems[j], d - 1, nm)))
CoveredDef(d) == \E x \in AbsEntries(d.s, d.n) : Covers(ToSet(Case(c).abs[x].idx), d.v, 2, Case(c).abs[x].nm)
Judged(d) == d.v.t \in {"int", "bool", "str", "fun", "cls", "ref"}     \* None and other tags are not judged
Uncovered == IF Case(c).check = "values" THEN {d \in defs : Judged(d) /\ ~CoveredDef(d)} ELSE {}

(* C07: every call that happened is a call edge of the analysis, and the callee was analysed under that call site *)
TripleSet(xs) == {<<xs[j][1], xs[j][2], xs[j][3]>> : j \in 1..Len(xs)}
MissedEdges == IF Case(c).check = "calls" THEN calls \ TripleSet(Case(c).edges) ELSE {}
NotAnalysed == IF Case(c).check = "calls" THEN calls \ TripleSet(Case(c).analysed) ELSE {}
Verdict == IF status = "done" /\ Case(c).check = "taint" THEN (IF Missed = {} THEN "" ELSE "flow_missed")
           ELSE IF status = "done" /\ Case(c).check = "calls" THEN
                  (IF MissedEdges # {} THEN "call_edge_missing" ELSE IF NotAnalysed # {} THEN "callee_not_analysed_under_call_site" ELSE "")
           ELSE IF status = "done" /\ Case(c).check = "values" THEN (IF Uncovered = {} THEN "" ELSE "value_not_covered")
           ELSE IF status = "done" THEN (IF OutPlain = Case(c).expected THEN "" ELSE "output_differs")
           ELSE IF status = "run" /\ steps >= MaxSteps THEN "diverges"
           ELSE IF status = "skip:overflow" THEN "skipped_overflow"
           ELSE IF status # "run" THEN status ELSE ""
Finished == status # "run" \/ steps >= MaxSteps
Report == Finished =>
            PrintT("@@" \o ToJson([case |-> Case(c).name, clause |-> Verdict, got |-> IF Verdict = "" THEN << >> ELSE OutPlain, steps |-> steps,
                                   observed |-> sinks, missed |-> IF Case(c).check = "taint" /\ status = "done" THEN Missed ELSE {},
                                   calls |-> IF Case(c).check \in {"calls", "values"} THEN calls ELSE {},
                                   missed_edges |-> MissedEdges, not_analysed |-> NotAnalysed, uncovered |-> Uncovered,
                                   defs |-> IF Case(c).check = "values" THEN defs ELSE {}]))
ReportConstraint == Report
=============================================================================
