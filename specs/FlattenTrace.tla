---------------------------- MODULE FlattenTrace ----------------------------
(***************************************************************************)
(* C03 - structural well-formedness of the GIR emitted by the language     *)
(* phase.  The trace of one project is the sequence of its units, each the *)
(* sequence of emitted rows in file order (as written to the gir bundles), *)
(* followed by the way the phase ended.  The harness only extracts, per    *)
(* row: operation, stmt id, parent id, the block ids named by body-valued  *)
(* attributes, whether the operation is a declaration, and the name.       *)
(*                                                                         *)
(* State while walking a unit:                                             *)
(*   stack    open blocks, innermost last: [id, owner]                     *)
(*   last     per nesting level, the last statement seen at that level:    *)
(*            [id, bodies (blocks it names), opened (those already seen)]  *)
(*   seen     statement and block ids of this unit                         *)
(*   ranges   id ranges of the units already finished                      *)
(***************************************************************************)
EXTENDS Naturals, Integers, Sequences, SequencesExt, FiniteSets, TLC, Json, IOUtils

Doc == JsonDeserialize(IOEnv.TRACE_FILE)
Proj(c) == Doc.projects[c]
Unit(c, u) == Doc.projects[c].units[u]

NoStmt == [id |-> 0, bodies |-> {}, opened |-> {}]

VARIABLES c, u, k, stack, last, seen, lo, hi, ranges, initSeen, initBlock, initLast, bad
vars == <<c, u, k, stack, last, seen, lo, hi, ranges, initSeen, initBlock, initLast, bad>>

Init == /\ c \in 1..Len(Doc.projects) /\ u = 1 /\ k = 0
        /\ stack = << >> /\ last = <<NoStmt>> /\ seen = {} /\ lo = 0 /\ hi = 0 /\ ranges = << >>
        /\ initSeen = FALSE /\ initBlock = 0 /\ initLast = 0 /\ bad = ""

Level == Len(stack) + 1                        \* index into last
Top == IF stack = << >> THEN 0 ELSE stack[Len(stack)].id
Cur == last[Level]

MinOf(a, b) == IF a < b THEN a ELSE b
MaxOf(a, b) == IF a > b THEN a ELSE b

(* a statement is left behind: every block it names must have been opened *)
Dangling(s) == s.bodies # s.opened

RowVerdict(r) ==
  IF r.op = "block_start" THEN
       IF r.id \in seen THEN "duplicate_id"
       ELSE IF Cur.id = 0 \/ r.parent # Cur.id THEN "block_parent_is_not_the_preceding_statement"
       ELSE IF r.id \notin Cur.bodies THEN "block_not_named_by_its_statement"
       ELSE IF r.id \in Cur.opened THEN "block_started_twice"
       ELSE ""
  ELSE IF r.op = "block_end" THEN
       IF stack = << >> THEN "block_end_without_start"
       ELSE IF r.id # Top THEN "block_end_does_not_match_innermost_block"
       ELSE IF r.parent # stack[Len(stack)].owner THEN "block_end_parent_differs_from_start"
       ELSE IF Dangling(Cur) THEN "body_attribute_names_no_block"
       ELSE ""
  ELSE \* an ordinary statement
       IF r.id \in seen THEN "duplicate_id"
       ELSE IF r.parent # Top THEN "parent_is_not_the_enclosing_block"
       ELSE IF Dangling(Cur) THEN "body_attribute_names_no_block"
       ELSE IF stack = << >> /\ ~r.decl THEN "executable_statement_outside_any_method"
       ELSE IF r.name = "%unit_init" /\ stack = << >> /\ initSeen THEN "second_unit_initialiser"
       ELSE IF initBlock # 0 /\ Top = initBlock /\ r.id < initLast THEN "unit_initialiser_not_in_source_order"
       ELSE ""

Report(v, what) == v # "" => PrintT("@@" \o ToJson([project |-> Proj(c).name, unit |-> Unit(c, u).name, clause |-> v, at |-> what]))

Row ==
  /\ u <= Len(Proj(c).units) /\ k < Len(Unit(c, u).rows)
  /\ LET r == Unit(c, u).rows[k + 1]
         v == RowVerdict(r)
     IN /\ bad' = v /\ Report(v, r)
        /\ k' = k + 1 /\ UNCHANGED <<c, u, ranges>>
        /\ seen' = seen \cup {r.id}
        /\ lo' = IF seen = {} THEN r.id ELSE MinOf(lo, r.id)
        /\ hi' = MaxOf(hi, r.id)
        /\ IF r.op = "block_start"
           THEN /\ stack' = Append(stack, [id |-> r.id, owner |-> r.parent])
                /\ last' = Append([last EXCEPT ![Level] = [Cur EXCEPT !.opened = Cur.opened \cup {r.id}]], NoStmt)
                /\ initBlock' = IF initSeen /\ initBlock = 0 /\ stack = << >> THEN r.id ELSE initBlock
                /\ UNCHANGED <<initSeen, initLast>>
           ELSE IF r.op = "block_end"
           THEN /\ stack' = IF stack = << >> THEN stack ELSE SubSeq(stack, 1, Len(stack) - 1)
                /\ last' = IF Len(last) > 1 THEN SubSeq(last, 1, Len(last) - 1) ELSE last
                /\ UNCHANGED <<initSeen, initBlock, initLast>>
           ELSE /\ stack' = stack
                /\ last' = [last EXCEPT ![Level] = [id |-> r.id, bodies |-> ToSet(r.bodies), opened |-> {}]]
                /\ initSeen' = (initSeen \/ (r.name = "%unit_init" /\ stack = << >>))
                /\ initLast' = IF initBlock # 0 /\ Top = initBlock THEN r.id ELSE initLast
                /\ UNCHANGED initBlock

UnitVerdict ==
  IF stack # << >> THEN "unit_ends_inside_an_open_block"
  ELSE IF Dangling(Cur) THEN "body_attribute_names_no_block"
  ELSE IF seen # {} /\ \E j \in 1..Len(ranges) : ~(hi < ranges[j][1] \/ lo > ranges[j][2]) THEN "unit_id_ranges_overlap"
  ELSE ""

UnitEnd ==
  /\ u <= Len(Proj(c).units) /\ k = Len(Unit(c, u).rows)
  /\ LET v == UnitVerdict IN bad' = v /\ Report(v, [lo |-> lo, hi |-> hi])
  /\ u' = u + 1 /\ k' = 0 /\ UNCHANGED c
  /\ ranges' = IF seen = {} THEN ranges ELSE Append(ranges, <<lo, hi>>)
  /\ stack' = << >> /\ last' = <<NoStmt>> /\ seen' = {} /\ lo' = 0 /\ hi' = 0
  /\ initSeen' = FALSE /\ initBlock' = 0 /\ initLast' = 0

(* the way the phase ended: "ok", or an exit requested by lian itself, or an unhandled exception *)
ProjectEnd ==
  /\ u = Len(Proj(c).units) + 1 /\ k = 0
  /\ LET v == IF Proj(c).exit = "ok" THEN "" ELSE "phase_ended_with_" \o Proj(c).exit
     IN /\ bad' = v
        /\ (v # "" => PrintT("@@" \o ToJson([project |-> Proj(c).name, unit |-> "", clause |-> v,
                                             at |-> [exit |-> Proj(c).exit, where |-> Proj(c).where]])))
  /\ k' = 1 /\ UNCHANGED <<c, u, stack, last, seen, lo, hi, ranges, initSeen, initBlock, initLast>>

Next == bad = "" /\ (Row \/ UnitEnd \/ ProjectEnd)
Spec == Init /\ [][Next]_vars
=============================================================================
